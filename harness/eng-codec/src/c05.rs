//! C05: on-chain binary encodings (concordium_base `Serial`/`Deserial`)
//! round-trip, are canonical, and decode totally with bounded allocation.
//!
//! Oracles per registered type T (see `c05_gen.rs` for the registry):
//!  (1) value round-trip: `from_bytes(to_bytes(v)) == v`, consuming everything;
//!  (2) canonicity: whenever decoding arbitrary bytes succeeds, re-encoding the
//!      decoded value reproduces exactly the consumed prefix of the input;
//!  (3) no panic (`vmon_core::catch`);
//!  (4) allocation: peak live bytes during one decode
//!      <= 64*len(input) + 4096*ELEM(T) + 2 MiB   (counting allocator);
//!  (5) termination: orchestrator watchdog + `hang_is_violation`.
//!
//! D: (exemptions and deliberate limits, nothing else is exempted)
//!  * `HashSet<T>` serialises in iteration order (serialize.rs:868 "self.iter()"), which
//!    is not a function of the set; canonicity for it is judged as
//!    `decode(reencode(v)) == v` (set equality) instead of byte equality.
//!  * Equality: many chain types have no `PartialEq` (Payload, AccountTransaction,
//!    CredentialDeploymentInfo, ...). For those, (1) is judged on the `Debug`
//!    rendering where there is one, and always on `to_bytes(decoded) == to_bytes(v)`.
//!  * Values are drawn from the documented domain of each type (constructors
//!    / `try_from`; e.g. schedules of <= 255 releases because the length is
//!    written as one byte, `Memo` <= 256 bytes, `UrlText` <= 2048 bytes, reduced
//!    `Ratio`s, `threshold <= number of keys`), since `Serial` is only specified there.
//!  * The constant of the allocation bound is 2 MiB because a transaction header
//!    may legitimately announce a payload of MAX_PAYLOAD_SIZE = 512 KiB + 9
//!    (constants.rs:7) which `get_encoded_payload` / `UpdateInstruction` allocate
//!    up front ("safe here ... because payload_size is limited", transactions.rs:406).
//!  * `Ipv4Addr`/`Ipv6Addr` on their own are not registered: their `Serial`
//!    writes a tag byte that only `IpAddr::deserial` reads (serialize.rs:766-798); they
//!    are node-networking leftovers, not chain types. `IpAddr`/`SocketAddr` are registered.
//!  * Violations are reported through a minimised witness (shortest violating prefix, smallest
//!    field values). A canonicity violation is attributed to the innermost registered decoder
//!    that shows it at the same position with the same canonical byte. Allocation witnesses: one
//!    per type and shard; for decoders whose allocation is driven by a 64-bit field (found by the
//!    abort-safe pre-flight probe: 8-byte windows from right to left, ascending values) the
//!    witness is only truncated, never edited, the random mutation part is skipped, and the
//!    decoder is not used for attribution, because arbitrary bytes can make it request more than
//!    the allocator's hard limit (16 GiB), which aborts the process (then reported by the
//!    orchestrator as a crash violation).
//!  * `ed25519::SigningKey` has no `decode_ok` floor (its encodings do not decode; see findings).
//!  * Identity-pipeline objects (pre-identity objects, credentials) are created
//!    by library functions that draw from `thread_rng` internally
//!    (`generate_pio`, `create_credential`), so those fixture values are not a
//!    function of the seed; every witness is therefore stored in full in the
//!    replay file and `--replay` judges the stored bytes.
use crate::{c05_gen, util};
use concordium_base::common::{Deserial, Serial};
use vmon_core::{alloc::AllocStats, json, ChildCtx, Rng, Shard};

pub const ALLOC_PER_BYTE: usize = 64;
pub const ALLOC_CONST: usize = 2 << 20;
pub const MAX_PREALLOC_ELEMS: usize = 4096;

/// Result of decoding one byte string as one type.
pub struct DecOut {
    /// Ok((consumed, re-encoding of the decoded value, set-canonical?)) or the decoder's error
    pub res: Result<(usize, Vec<u8>), String>,
    pub panic: Option<String>,
    pub stats: AllocStats,
    /// for set-like types: does decode(reencode) give an equal value
    pub set_ok: Option<bool>,
}

pub struct GenOut {
    pub bytes: Vec<u8>,
    /// Err(description) if the value does not round-trip
    pub rt: Result<(), String>,
    pub variant: String,
}

pub struct Entry {
    pub name: &'static str,
    /// upper bound of the in-memory size of one collection element (allocation bound)
    pub elem: usize,
    /// decode is expensive (curve points): fewer mutations per case
    pub heavy: bool,
    /// offset of a 16-bit bitmap worth sweeping exhaustively
    pub bitmap_at: Option<usize>,
    pub set_like: bool,
    pub gen: fn(&mut Rng, &c05_gen::Fx) -> GenOut,
    pub dec: fn(&[u8]) -> DecOut,
}

pub fn dec_as<T: Serial + Deserial>(b: &[u8]) -> DecOut {
    let (r, stats) = vmon_core::alloc::measure(|| {
        vmon_core::catch(|| {
            let mut c = std::io::Cursor::new(b);
            let v = T::deserial(&mut c);
            (v, c.position() as usize)
        })
    });
    match r {
        Err(p) => DecOut { res: Err("panic".into()), panic: Some(p), stats, set_ok: None },
        Ok((Err(e), _)) => DecOut { res: Err(format!("{:#}", e)), panic: None, stats, set_ok: None },
        Ok((Ok(v), pos)) => match vmon_core::catch(|| concordium_base::common::to_bytes(&v)) {
            Ok(mut re) => {
                // self-test switch (planted break of the harness's own reference, never set by ./vcheck)
                if re.len() == 2 && re[1] == 0x5a && util::selftest("c05") {
                    re[1] ^= 1;
                }
                DecOut { res: Ok((pos, re)), panic: None, stats, set_ok: None }
            }
            Err(p) => DecOut { res: Err("panic in re-encode".into()), panic: Some(format!("re-encoding a decoded value panicked: {}", p)), stats, set_ok: None },
        },
    }
}

/// as `dec_as` for set-like types: additionally decode(reencode(v)) == v
pub fn dec_as_set<T: Serial + Deserial + PartialEq>(b: &[u8]) -> DecOut {
    let mut o = dec_as::<T>(b);
    if let Ok((pos, re)) = &o.res {
        let v1 = T::deserial(&mut std::io::Cursor::new(&b[..*pos]));
        let v2 = T::deserial(&mut std::io::Cursor::new(&re[..]));
        o.set_ok = Some(matches!((v1, v2), (Ok(a), Ok(b)) if a == b));
    }
    o
}

pub fn roundtrip<T: Serial + Deserial>(v: &T, eq: fn(&T, &T) -> bool, variant: String) -> GenOut { roundtrip_x(v, eq, variant, false) }

pub fn roundtrip_x<T: Serial + Deserial>(v: &T, eq: fn(&T, &T) -> bool, variant: String, set_like: bool) -> GenOut {
    let bytes = match vmon_core::catch(|| concordium_base::common::to_bytes(v)) {
        Ok(b) => b,
        Err(p) => return GenOut { bytes: vec![], rt: Err(format!("encoding panicked: {}", p)), variant },
    };
    let r = vmon_core::catch(|| {
        let mut c = std::io::Cursor::new(&bytes[..]);
        let v2 = T::deserial(&mut c);
        (v2, c.position() as usize)
    });
    let rt = match r {
        Err(p) => Err(format!("decoding the encoding of a valid value panicked: {}", p)),
        Ok((Err(e), _)) => Err(format!("the encoding of a valid value is rejected: {:#}", e)),
        Ok((Ok(v2), pos)) => {
            if pos != bytes.len() {
                Err(format!("decoding consumed {} of {} bytes", pos, bytes.len()))
            } else if !eq(v, &v2) {
                Err("decoded value differs from the original".to_string())
            } else {
                let b2 = concordium_base::common::to_bytes(&v2);
                if b2 != bytes && !set_like {
                    Err("re-encoding of the decoded value differs".to_string())
                } else {
                    Ok(())
                }
            }
        }
    };
    GenOut { bytes, rt, variant }
}

/// What is wrong with this decode, if anything: (kind, detail)
pub fn judge(e: &Entry, input: &[u8], o: &DecOut) -> Option<(&'static str, String)> {
    if let Some(p) = &o.panic {
        return Some(("decode-panic", format!("{}: decoding {} bytes panicked: {}", e.name, input.len(), p)));
    }
    let bound = ALLOC_PER_BYTE * input.len() + MAX_PREALLOC_ELEMS * e.elem + ALLOC_CONST;
    if o.stats.peak > bound {
        return Some(("alloc-bound", format!("{}: decoding {} bytes had {} bytes live at peak (largest single request {}), bound 64*len + 4096*{} + 2 MiB = {}", e.name, input.len(), o.stats.peak, o.stats.largest, e.elem, bound)));
    }
    if let Ok((pos, re)) = &o.res {
        if *pos > input.len() {
            return Some(("overread", format!("{}: decoder reports {} bytes consumed of {}", e.name, pos, input.len())));
        }
        if e.set_like {
            if o.set_ok == Some(false) {
                return Some(("non-canonical", format!("{}: decoding the re-encoding gives a different set", e.name)));
            }
        } else if re[..] != input[..*pos] {
            let inp = &input[..*pos];
            let d = inp.iter().zip(re.iter()).position(|(a, b)| a != b).unwrap_or(inp.len().min(re.len()));
            let ndiff = inp.iter().zip(re.iter()).filter(|(a, b)| a != b).count() + inp.len().abs_diff(re.len());
            let ctx = |b: &[u8]| vmon_core::hex(&b[d.saturating_sub(4).min(b.len())..(d + 12).min(b.len())]);
            return Some((
                "non-canonical",
                format!(
                    "{}: {} bytes decode successfully (all consumed: {}) but the decoded value re-encodes to {} bytes differing in {} positions, first at offset {}: input ..{}.. re-encoding ..{}..; input {} re-encoding {}",
                    e.name, pos, *pos == input.len(), re.len(), ndiff, d, ctx(inp), ctx(re), vmon_core::hex_short(inp, 64), vmon_core::hex_short(re, 64)
                ),
            ));
        }
    }
    None
}

struct Run<'a> {
    sh: &'a mut Shard,
    reg: &'a [Entry],
    /// types whose decoder showed an allocation driven by a 64-bit field: arbitrary bytes can make
    /// them demand more than the allocator's hard limit (process abort), so they are never used
    /// for secondary decoding (attribution) and their witnesses are minimised numerically only
    abort_prone: std::collections::HashSet<String>,
    /// during the pre-flight, violations are queued (registry index, kind, detail, input,
    /// mutation) and reported afterwards, when the abort-prone decoders are known
    deferred: Option<Vec<(usize, &'static str, String, Vec<u8>, String)>>,
    last_kind: Option<&'static str>,
    in_probe: bool,
    /// (type, kind) -> number of violations minimised so far in this shard
    buckets: std::collections::HashMap<(String, String), u32>,
}

const MINIMISE_PER_BUCKET: u32 = 3;

impl Run<'_> {
    /// decode + judge + report. Returns (decode ok, consumed, violated)
    fn eval(&mut self, e: &Entry, idx: u64, mkind: &str, input: &[u8], seed_enc: &[u8]) -> (bool, bool) {
        let o = (e.dec)(input);
        self.sh.evaluations += 1;
        self.sh.hit(&format!("mut.{}", mkind));
        self.sh.max("max.alloc.peak", o.stats.peak as u64);
        let ok = o.res.is_ok();
        if ok {
            self.sh.hit(&format!("type.{}.decode_ok", e.name));
            self.sh.hit(&format!("mut.{}.decode_ok", mkind));
            if let Ok((pos, _)) = &o.res {
                if *pos > seed_enc.len() || input[..*pos.min(&input.len())] != seed_enc[..*pos.min(&seed_enc.len())] {
                    self.sh.hit(&format!("type.{}.decode_ok_changed", e.name));
                    self.sh.hit("decode_ok_changed");
                }
            }
        } else {
            self.sh.hit("decode_err");
        }
        match judge(e, input, &o) {
            None => {
                self.last_kind = None;
                (ok, false)
            }
            Some((kind, detail)) => {
                self.last_kind = Some(kind);
                if kind == "alloc-bound" && !self.in_probe && self.abort_prone.contains(e.name) {
                    // same decoder already reported from the deterministic probe
                    self.sh.hit("violation.alloc-bound");
                    self.sh.hit("violation.alloc_bound_of_probed_type_not_reported_again");
                } else if let Some(q) = &mut self.deferred {
                    let ri = self.reg.iter().position(|c| std::ptr::eq(c, e)).unwrap_or(0);
                    let n = q.iter().filter(|x| x.0 == ri && x.1 == kind).count();
                    if n < (if kind == "alloc-bound" { 1 } else { MINIMISE_PER_BUCKET as usize }) {
                        q.push((ri, kind, detail, input.to_vec(), mkind.to_string()));
                    } else {
                        self.sh.hit(&format!("violation.{}", kind));
                        self.sh.hit("violation.not_minimised_again");
                    }
                } else {
                    self.report(e, idx, kind, detail, input, mkind);
                }
                (ok, true)
            }
        }
    }

    fn report(&mut self, e: &Entry, idx: u64, kind: &'static str, detail: String, input: &[u8], mkind: &str) {
        // the pinned "Payload::X" entries use the Payload decoder: report under Payload
        let reg0 = self.reg;
        let e = if e.name.starts_with("Payload::") { reg0.iter().find(|c| c.name == "Payload").unwrap_or(e) } else { e };
        let key = (e.name.to_string(), kind.to_string());
        let n = self.buckets.entry(key).or_insert(0);
        // allocation witnesses: one per type and shard (the pre-flight finds them from fixed
        // generator streams, so the signature does not depend on the seed)
        let cap = if kind == "alloc-bound" { 1 } else { MINIMISE_PER_BUCKET };
        if *n >= cap || !self.sh.violation_budget_left() {
            self.sh.hit(&format!("violation.{}", kind));
            self.sh.hit("violation.not_minimised_again");
            return;
        }
        *n += 1;
        // minimise: same type, same kind
        let same = |c: &[u8]| matches!(judge(e, c, &(e.dec)(c)), Some((k, _)) if k == kind);
        let base: Vec<u8> = match (e.dec)(input).res {
            Ok((pos, re)) if kind == "non-canonical" => {
                // heal: canonical re-encoding with only the first differing run taken from the input
                let inp = &input[..pos];
                let mut healed = None;
                if re.len() == inp.len() {
                    if let Some(d) = inp.iter().zip(re.iter()).position(|(a, b)| a != b) {
                        let mut end = d;
                        while end < inp.len() && inp[end] != re[end] {
                            end += 1;
                        }
                        let mut c = re.clone();
                        c[d..end].copy_from_slice(&inp[d..end]);
                        if c != inp && same(&c) {
                            healed = Some(c);
                        }
                    }
                }
                healed.unwrap_or_else(|| inp.to_vec())
            }
            _ => input.to_vec(),
        };
        let long = base.len() > 600;
        // decoders that can abort the process on arbitrary bytes: only truncate (any other edit can
        // shift the parse and turn arbitrary bytes into a 64-bit length)
        let truncate_only = self.abort_prone.contains(e.name);
        if std::env::var("C05_DEBUG_MIN").is_ok() {
            eprintln!("minimise {} {} base {} truncate_only {} abort_prone {:?}", e.name, kind, vmon_core::hex_short(&base, 40), truncate_only, self.abort_prone);
        }
        let min = util::minimise(&base, same, if kind == "alloc-bound" { 8000 } else if e.heavy || long { 1500 } else { 20000 }, !(e.heavy || long) || kind == "alloc-bound", kind == "alloc-bound", truncate_only);
        // attribute the violation to the innermost registered decoder that shows it on a
        // suffix of the witness (the same leaf defect surfaces in every enclosing type)
        let reg = self.reg;
        let (ri, min2, at) = self.delegate(e, kind, &min);
        let e2: &Entry = match ri {
            Some(i) => &reg[i],
            None => e,
        };
        let min2 = if at.is_some() {
            let same2 = |c: &[u8]| matches!(judge(e2, c, &(e2.dec)(c)), Some((k, _)) if k == kind);
            util::minimise(&min2, same2, if e2.heavy { 1500 } else { 20000 }, !e2.heavy, kind == "alloc-bound", false)
        } else {
            min2
        };
        if at.is_some() {
            self.sh.hit("violation.attributed_to_inner_type");
        }
        let o = (e2.dec)(&min2);
        let (kind2, detail2) = judge(e2, &min2, &o).unwrap_or((kind, detail));
        let note = match at {
            Some(off) => format!(" [first seen while decoding {} at offset {} of a {}-byte input]", e.name, off, min.len()),
            None => String::new(),
        };
        self.sh.violate(
            idx,
            kind2,
            format!("{}:{}:{}", kind2, e2.name, util::hex_sig(&min2)),
            format!("{}{}", detail2, note),
            json!({"mode": "decode", "type": e2.name, "input_hex": vmon_core::hex(&min2), "found_by_mutation": mkind, "found_in_type": e.name, "enclosing_input_hex": vmon_core::hex_short(&min, 400)}),
        );
    }

    /// Abort-safe inflation probe of one valid encoding: 8-byte windows (the only width that can
    /// demand more than the allocator's hard limit), offsets from right
    /// to left, ascending values, so that a length field first receives moderate values
    /// (a field is reached through its low-order bytes first); the neighbourhood of a window
    /// that produced an allocation violation is not touched again. Returns true if an
    /// allocation violation was seen.
    fn probe(&mut self, e: &Entry, idx: u64, b: &[u8]) -> bool {
        let n = b.len();
        let mut zones: Vec<(usize, usize)> = vec![];
        let mut found = false;
        self.in_probe = true;
        for w in [8usize] {
            if w > n {
                continue;
            }
            for off in (0..=(n - w)).rev() {
                if zones.iter().any(|(a, z)| off < *z && *a < off + w) {
                    continue;
                }
                let mut m = b.to_vec();
                for v in probe_values(w) {
                    util::write_be(&mut m, off, w, v);
                    let (_, bad) = self.eval(e, idx, "inflate_probe", &m, b);
                    if bad {
                        if self.last_kind == Some("alloc-bound") {
                            zones.push((off.saturating_sub(8), off + w + 8));
                            found = true;
                            if w == 8 {
                                self.abort_prone.insert(e.name.to_string());
                            }
                        }
                        break;
                    }
                }
            }
        }
        self.in_probe = false;
        found
    }

    /// Find a registered type whose decoder shows the same kind of violation on a suffix
    /// of `w` (preferring the shortest witness, then registry order).
    fn delegate(&self, e: &Entry, kind: &str, w: &[u8]) -> (Option<usize>, Vec<u8>, Option<usize>) {
        // only canonicity violations are attributed (same first differing position and same
        // canonical byte there); allocation witnesses stay with the type they were found in
        if kind != "non-canonical" {
            return (None, w.to_vec(), None);
        }
        let own_ri = self.reg.iter().position(|c| c.name == e.name).unwrap_or(usize::MAX);
        let o = (e.dec)(w);
        let (d, re_d) = match &o.res {
            Ok((pos, re)) => match w[..*pos].iter().zip(re.iter()).position(|(a, b)| a != b) {
                Some(d) => (d, re[d]),
                None => return (None, w.to_vec(), None),
            },
            _ => return (None, w.to_vec(), None),
        };
        let starts: Vec<usize> = (d.saturating_sub(160)..=d).collect();
        let mut best: Option<(usize, usize, usize)> = None; // (witness len, registry index, start)
        for &s in &starts {
            for (ri, c) in self.reg.iter().enumerate() {
                if (s == 0 && c.name == e.name) || self.abort_prone.contains(c.name) {
                    continue;
                }
                let slice = &w[s..];
                let oc = (c.dec)(slice);
                if !matches!(judge(c, slice, &oc), Some((k, _)) if k == kind) {
                    continue;
                }
                let wl = match &oc.res {
                    Ok((pos, re)) => {
                        let dc = slice[..*pos].iter().zip(re.iter()).position(|(a, b)| a != b);
                        if dc != Some(d - s) || re[d - s] != re_d {
                            continue;
                        }
                        *pos
                    }
                    _ => continue,
                };
                if best.map_or(true, |b| (wl, ri) < (b.0, b.1)) {
                    best = Some((wl, ri, s));
                }
            }
        }
        match best {
            Some((wl, ri, s)) if (wl, ri) < (w.len(), own_ri) => (Some(ri), w[s..s + wl].to_vec(), Some(s)),
            _ => (None, w.to_vec(), None),
        }
    }
}

fn replay(reg: &[Entry], case: &vmon_core::Value, sh: &mut Shard) -> bool {
    let (Some(ty), Some(hx)) = (case.get("type").and_then(|x| x.as_str()), case.get("input_hex").and_then(|x| x.as_str())) else { return false };
    let Some(e) = reg.iter().find(|e| e.name == ty) else { return false };
    let Some(input) = vmon_core::unhex(hx) else { return false };
    let mode = case.get("mode").and_then(|x| x.as_str()).unwrap_or("decode");
    let o = (e.dec)(&input);
    sh.evaluations += 1;
    println!("replaying stored witness: type {} mode {} input {}", ty, mode, vmon_core::hex_short(&input, 200));
    match &o.res {
        Ok((pos, re)) => println!("  decode: ok, consumed {} of {} bytes, re-encoding {}", pos, input.len(), vmon_core::hex_short(re, 200)),
        Err(m) => println!("  decode: error: {}", m),
    }
    println!("  allocation: peak {} largest {}", o.stats.peak, o.stats.largest);
    if mode == "value" {
        // the stored bytes are the encoding of a valid value: they must decode completely and re-encode identically
        let bad = match &o.res {
            Err(m) => Some(format!("{}: the encoding of a valid value is rejected: {}", e.name, m)),
            Ok((pos, re)) if *pos != input.len() || re != &input => Some(format!("{}: the encoding of a valid value does not round-trip (consumed {} of {})", e.name, pos, input.len())),
            _ => None,
        };
        if let Some(d) = bad {
            sh.violate(0, "roundtrip", format!("roundtrip:{}:{}", e.name, util::hex_sig(&input)), d, case.clone());
        }
    }
    if let Some((kind, detail)) = judge(e, &input, &o) {
        sh.violate(0, kind, format!("{}:{}:{}", kind, e.name, util::hex_sig(&input)), detail, case.clone());
    }
    true
}

/// ladders of the abort-safe probe (ascending)
fn probe_values(w: usize) -> Vec<u64> {
    match w {
        // steps of 2^11: whatever the shift between window and field, some value puts the field
        // between the bound (~2^21) and the allocator's hard limit (2^34)
        8 => vec![1 << 22, 1 << 33, 1 << 44, 1 << 55, 1 << 63, u64::MAX],
        4 => vec![1 << 16, 1 << 20, 1 << 22, 1 << 24, 1 << 28, 1 << 31, u32::MAX as u64],
        2 => vec![1 << 8, 1 << 15, u16::MAX as u64],
        _ => vec![0x80, 0xff],
    }
}

pub fn run(ctx: &ChildCtx, sh: &mut Shard) {
    let mut reg = c05_gen::registry();
    // debugging aids (never set by ./vcheck): restrict the registry, per-type timing
    if let Ok(only) = std::env::var("C05_ONLY") {
        let names: Vec<&str> = only.split(';').collect();
        reg.retain(|e| names.contains(&e.name));
    }
    let profile = std::env::var("C05_PROFILE").is_ok();
    if ctx.replaying() {
        if let Some(case) = util::replay_case() {
            if replay(&reg, &case, sh) {
                return;
            }
        }
    }
    let fx = match vmon_core::catch(|| c05_gen::Fx::build(ctx.seed)) {
        Ok(f) => f,
        Err(p) => {
            sh.inconclusive.push(format!("fixture construction panicked: {}", p));
            return;
        }
    };
    let nodebug = ctx.san == "nodebug";
    let mut run = Run { sh, reg: &reg, buckets: Default::default(), abort_prone: Default::default(), deferred: Some(vec![]), last_kind: None, in_probe: false };
    let ntypes = reg.len() as u64;
    let mut exercised = std::collections::HashSet::new();
    // (type, variant) pairs already probed / found to pre-allocate without bound in this shard
    let mut probed: std::collections::HashSet<(String, String)> = Default::default();
    let mut fragile: std::collections::HashSet<(String, String)> = Default::default();
    // --- pre-flight: probe one value per (type, variant) from fixed generator streams before
    // anything else decodes arbitrary bytes, so that abort-prone decoders are known up front
    if !ctx.replaying() {
        for e in reg.iter().filter(|e| !e.heavy) {
            let mut streams = 6u64;
            let mut k = 0u64;
            while k < streams {
                let g = match vmon_core::catch(|| (e.gen)(&mut Rng::new(0xC05_9000 + k), &fx)) {
                    Ok(g) => g,
                    Err(_) => break,
                };
                if k == 0 && !g.variant.is_empty() {
                    streams = 24;
                }
                k += 1;
                let tv = (e.name.to_string(), g.variant.clone());
                if g.bytes.len() > 1024 || g.bytes.len() < 8 || !probed.insert(tv.clone()) {
                    continue;
                }
                ctx.begin_case(0);
                if run.probe(e, 0, &g.bytes) {
                    fragile.insert(tv);
                }
            }
        }
        run.sh.max("max.preflight.variants_probed", probed.len() as u64);
    }
    for (ri, kind, detail, input, mkind) in run.deferred.take().unwrap_or_default() {
        run.report(&reg[ri], 0, kind, detail, &input, &mkind);
    }
    for idx in ctx.indices() {
        ctx.begin_case(idx);
        let t0 = std::time::Instant::now();
        let mut r = ctx.case_rng(idx);
        // round-robin over the registry, offset by shard so that a truncated run still spreads
        let e = &reg[((idx + ctx.shard as u64 * 7) % ntypes) as usize];
        exercised.insert(e.name);
        let g = match vmon_core::catch(|| (e.gen)(&mut r, &fx)) {
            Ok(g) => g,
            Err(p) => {
                run.sh.inconclusive.push(format!("generator for {} panicked: {}", e.name, p));
                continue;
            }
        };
        run.sh.evaluations += 1;
        run.sh.hit(&format!("type.{}.roundtrip", e.name));
        run.sh.hit("roundtrip");
        if !g.variant.is_empty() {
            run.sh.hit(&format!("variant.{}.{}", e.name, g.variant));
        }
        if let Err(d) = &g.rt {
            // pinned witness: the first failing value of the same variant from fixed generator
            // streams (independent of VERIF_SEED), shortest encoding first
            let mut pinned: Option<GenOut> = None;
            for k in 0..48u64 {
                if let Ok(g2) = vmon_core::catch(|| (e.gen)(&mut Rng::new(0xC05_0000 + k), &fx)) {
                    if g2.rt.is_err() && g2.variant == g.variant && pinned.as_ref().map_or(true, |p| g2.bytes.len() < p.bytes.len()) {
                        pinned = Some(g2);
                    }
                }
            }
            let (wb, wd, pin) = match &pinned {
                Some(p) => (&p.bytes, p.rt.clone().unwrap_err(), true),
                None => (&g.bytes, d.clone(), false),
            };
            run.sh.violate(
                idx,
                "roundtrip",
                format!("roundtrip:{}:{}", e.name, util::hex_sig(wb)),
                format!("{} ({}): {}", e.name, g.variant, wd),
                json!({"mode": "value", "type": e.name, "variant": g.variant, "input_hex": vmon_core::hex(wb), "pinned_generator_stream": pin}),
            );
        }
        let b = g.bytes;
        let n = b.len();
        let tv = (e.name.to_string(), g.variant.clone());
        let other = match vmon_core::catch(|| (e.gen)(&mut r, &fx)) {
            Ok(g2) => g2.bytes,
            Err(_) => vec![],
        };
        let heavy = e.heavy || n > 600;
        // the valid encoding itself through the judged path (allocation bound on valid input)
        run.eval(e, idx, "valid", &b, &b);
        // --- abort-safe probe, once per (type, variant) and shard (normally done in the pre-flight)
        if !heavy && (8..=1024).contains(&n) && probed.insert(tv.clone()) && run.probe(e, idx, &b) {
            fragile.insert(tv.clone());
        }
        let is_fragile = fragile.contains(&tv) || run.abort_prone.contains(e.name);
        let budget: u64 = if heavy { 20 } else { 260 };
        let budget = if nodebug { budget / 2 } else { budget };
        // --- systematic part
        // truncation at (sampled) every offset
        let step = (n / if heavy { 16 } else { 48 }).max(1);
        let mut off = r.below(step as u64) as usize;
        while off < n {
            run.eval(e, idx, "truncate_at", &b[..off], &b);
            off += step;
        }
        if (!heavy || idx % 4 == 0) && n > 0 {
            // tag sweep on the first byte
            let mut m = b.clone();
            for t in 0..=255u8 {
                if t == b[0] {
                    continue;
                }
                m[0] = t;
                run.eval(e, idx, "tag_sweep", &m, &b);
            }
        }
        // length-field inflation on sampled windows, ascending values, stop at the first violation per window
        if n > 0 && !is_fragile {
            let windows = if heavy { 4 } else { 24 };
            for _ in 0..windows {
                let w = *r.pick(&[1usize, 2, 4, 8]);
                if w > n {
                    continue;
                }
                // aligned offsets and, half of the time, arbitrary ones
                let off = if r.chance(1, 2) { (r.below((n / w) as u64) as usize) * w } else { r.below((n - w) as u64 + 1) as usize };
                if off + w > n {
                    continue;
                }
                let mut m = b.clone();
                let vals = util::inflate_values(w);
                // sample the 2^k ladder for wide windows, always keep the extremes
                for (vi, v) in vals.iter().enumerate() {
                    if vals.len() > 12 && vi % 3 != (idx % 3) as usize && vi + 3 < vals.len() {
                        continue;
                    }
                    if heavy && vi % 4 != (idx % 4) as usize && vi + 2 < vals.len() {
                        continue;
                    }
                    util::write_be(&mut m, off, w, *v);
                    let (_, bad) = run.eval(e, idx, "inflate", &m, &b);
                    if bad {
                        break;
                    }
                }
            }
        }
        // a length-like field raised by k with k junk bytes added (at the end of the encoding or
        // somewhere behind the field): a decoder that reads an inner value from a length-delimited
        // slice without checking that the slice was used up accepts this second encoding
        if n > 0 && !is_fragile {
            let sweep = !heavy && n <= 600;
            let tries = if sweep { n * 4 } else { 16 };
            for t in 0..tries {
                let (w, off) = if sweep { ([4usize, 2, 8, 1][t / n], t % n) } else { (*r.pick(&[1usize, 2, 4, 8]), r.below(n as u64) as usize) };
                if off + w > n {
                    continue;
                }
                let v = util::read_be(&b, off, w);
                let k = 1 + r.below(4);
                let max = if w == 8 { u64::MAX } else { (1u64 << (8 * w)) - 1 };
                // plausible lengths only: the field cannot describe more than the encoding holds
                if v > n as u64 || v + k > max {
                    continue;
                }
                let mut m = b.clone();
                util::write_be(&mut m, off, w, v + k);
                let at = if r.chance(1, 2) { n } else { off + w + r.below((n - off - w) as u64 + 1) as usize };
                for _ in 0..k {
                    m.insert(at, r.next() as u8);
                }
                run.eval(e, idx, "inflate_append", &m, &b);
            }
        }
        // 16-bit bitmap sweep
        if let Some(at) = e.bitmap_at {
            if n >= at + 2 && (idx / ntypes) % 4 == 0 {
                let mut m = b.clone();
                for v in 0..=u16::MAX {
                    util::write_be(&mut m, at, 2, v as u64);
                    run.eval(e, idx, "bitmap16", &m, &b);
                }
            }
        } else if n >= 2 && !heavy && !is_fragile {
            let at = r.below(n as u64 - 1) as usize;
            let mut m = b.clone();
            for _ in 0..64 {
                util::write_be(&mut m, at, 2, r.below(65536));
                run.eval(e, idx, "bitmap16_sampled", &m, &b);
            }
        }
        // --- random part (skipped for a (type, variant) whose decoder already showed an
        // unbounded allocation in this shard: a random length could then demand more than
        // the allocator's hard limit and abort the whole shard)
        let mut changed_ok = false;
        if is_fragile {
            run.sh.hit("skipped.random_part_after_alloc_violation");
        }
        for _ in 0..(if is_fragile { 0 } else { budget }) {
            let (k, mut m) = util::mutate(&mut r, &b, &other);
            if r.chance(1, 5) {
                let (_, m2) = util::mutate(&mut r, &m, &other);
                m = m2;
            }
            let (ok, _) = run.eval(e, idx, k, &m, &b);
            if ok && m != b {
                changed_ok = true;
            }
        }
        if changed_ok {
            util::nt(run.sh, vmon_core::mix(&[vmon_core::fnv(e.name.as_bytes()), vmon_core::fast_hash(&b)]));
        }
        if idx < 3 {
            let name = e.name;
            let variant = g.variant.clone();
            run.sh.sample(|| json!({"type": name, "variant": variant, "valid_encoding_hex": vmon_core::hex_short(&b, 120), "mutations_tried": budget}));
        }
        if profile {
            run.sh.add(&format!("profile_us.{}", e.name), t0.elapsed().as_micros() as u64);
        }
    }
    run.sh.max("max.types.exercised", exercised.len() as u64);
    run.sh.max("max.types.registered", ntypes);
}
