//! C05 fixture: expensive objects built once per process with the library's
//! own identity pipeline (`concordium_base::id::test::*`, feature
//! `internal-test-helpers`) and encrypted-transfer constructors.
#![allow(deprecated)]
use crate::util::RandAdaptor;
use concordium_base::{
    common::types::{KeyIndex, KeyPair, TransactionTime},
    contracts_common::{Amount, SignatureThreshold},
    elgamal,
    encrypted_transfers::{
        self,
        types::{AggregatedDecryptedAmount, EncryptedAmount, EncryptedAmountTransferData, SecToPubAmountTransferData},
    },
    id::{
        account_holder::create_credential,
        constants::{ArCurve, AttributeKind, IpPairing},
        identity_provider::{verify_credentials, verify_credentials_v1},
        test::*,
        types::*,
    },
};
use std::collections::BTreeMap;
use vmon_core::Rng;

pub type Cdi = CredentialDeploymentInfo<IpPairing, ArCurve, AttributeKind>;
pub type Icdi = InitialCredentialDeploymentInfo<ArCurve, AttributeKind>;

pub struct Fx {
    pub global: GlobalContext<ArCurve>,
    pub ip_info: IpInfo<IpPairing>,
    pub ars: BTreeMap<ArIdentity, ArInfo<ArCurve>>,
    pub pio: PreIdentityObject<IpPairing, ArCurve>,
    pub pio_v1: PreIdentityObjectV1<IpPairing, ArCurve>,
    pub ip_sig: concordium_base::ps_sig::Signature<IpPairing>,
    pub alist: ExampleAttributeList,
    pub icdi: Icdi,
    pub cdis: Vec<Cdi>,
    pub enc_amounts: Vec<EncryptedAmount<ArCurve>>,
    pub enc_transfers: Vec<EncryptedAmountTransferData<ArCurve>>,
    pub sec_to_pubs: Vec<SecToPubAmountTransferData<ArCurve>>,
    pub agg_bytes: Vec<u8>,
}

fn keys(r: &mut Rng, n: u8) -> BTreeMap<KeyIndex, KeyPair> { (0..n).map(|i| (KeyIndex(i * 3), KeyPair::generate(&mut RandAdaptor(r)))).collect() }

impl Fx {
    pub fn build(seed: u64) -> Fx {
        let mut r = Rng::new(vmon_core::mix(&[seed, 0xC05F1]));
        let num_ars = 2 + (seed % 3) as u8;
        let max_attrs = 10;
        let IpData { public_ip_info: ip_info, ip_secret_key, ip_cdi_secret_key } = test_create_ip_info(&mut RandAdaptor(&mut r), num_ars, max_attrs);
        let global = GlobalContext::<ArCurve>::generate(format!("genesis_string_{}", seed));
        let (ars, _ar_keys) = test_create_ars(&global.on_chain_commitment_key.g, num_ars, &mut RandAdaptor(&mut r));
        let id_use_data = test_create_id_use_data(&mut RandAdaptor(&mut r));
        let acc_data = InitialAccountData { keys: keys(&mut r, 3), threshold: SignatureThreshold::TWO };
        let (context, pio, _) = test_create_pio(&id_use_data, &ip_info, &ars, &global, num_ars, &acc_data);
        let alist = test_create_attributes();
        let (ip_sig, icdi) = verify_credentials(&pio, context, &alist, EXPIRY, &ip_secret_key, &ip_cdi_secret_key).expect("identity provider accepts the request");
        let (context_v1, pio_v1, _) = test_create_pio_v1(&id_use_data, &ip_info, &ars, &global, num_ars, &mut RandAdaptor(&mut r));
        let _ = verify_credentials_v1(&pio_v1, context_v1, &alist, &ip_secret_key).expect("identity provider accepts the v1 request");
        let id_object = IdentityObject { pre_identity_object: pio.clone(), alist: alist.clone(), signature: ip_sig.clone() };
        let mut cdis = vec![];
        for i in 0..2u8 {
            let policy = Policy {
                valid_to: alist.valid_to,
                created_at: alist.created_at,
                policy_vec: if i == 0 { [(AttributeTag::from(8u8), AttributeKind::from(31))].into_iter().collect() } else { BTreeMap::new() },
                _phantom: Default::default(),
            };
            let cred_data = CredentialData { keys: keys(&mut r, 1 + 2 * i), threshold: SignatureThreshold::ONE };
            // Either<TransactionTime, AccountAddress> via its From<Result<R, L>> impl (the `either` crate is not a direct dependency)
            let roe: Result<concordium_base::contracts_common::AccountAddress, TransactionTime> = if i == 0 { Err(EXPIRY) } else { Ok(concordium_base::contracts_common::AccountAddress([7u8; 32])) };
            let (cdi, _) = create_credential(context, &id_object, &id_use_data, i, policy, &cred_data, &SystemAttributeRandomness {}, &roe.into()).expect("credential creation succeeds");
            cdis.push(cdi);
        }
        // encrypted transfers
        let sk_sender = elgamal::SecretKey::generate(global.elgamal_generator(), &mut RandAdaptor(&mut r));
        let pk_sender = elgamal::PublicKey::from(&sk_sender);
        let sk_recv = elgamal::SecretKey::generate(global.elgamal_generator(), &mut RandAdaptor(&mut r));
        let pk_recv = elgamal::PublicKey::from(&sk_recv);
        let mut enc_amounts = vec![];
        let mut enc_transfers = vec![];
        let mut sec_to_pubs = vec![];
        let mut agg_bytes = vec![];
        for i in 0..2u64 {
            let total = Amount::from_micro_ccd(1_000_000 * (i + 1) + r.below(1000));
            let (enc, _rand) = encrypted_transfers::encrypt_amount(&global, &pk_sender, total, &mut RandAdaptor(&mut r));
            let agg = AggregatedDecryptedAmount { agg_encrypted_amount: enc.clone(), agg_amount: total, agg_index: (i + 3).into() };
            let to = Amount::from_micro_ccd(r.below(total.micro_ccd()));
            enc_transfers.push(encrypted_transfers::make_transfer_data(&global, &pk_recv, &sk_sender, &agg, to, &mut RandAdaptor(&mut r)).expect("transfer data"));
            sec_to_pubs.push(encrypted_transfers::make_sec_to_pub_transfer_data(&global, &sk_sender, &agg, to, &mut RandAdaptor(&mut r)).expect("sec to pub data"));
            enc_amounts.push(enc);
            agg_bytes = concordium_base::common::to_bytes(&agg);
        }
        let _ = TransactionTime::from_seconds(0);
        Fx { global, ip_info, ars, pio, pio_v1, ip_sig, alist, icdi, cdis, enc_amounts, enc_transfers, sec_to_pubs, agg_bytes }
    }
}
