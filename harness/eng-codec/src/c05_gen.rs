//! C05 type registry and value generators. Values are built with the
//! library's own constructors / key generation, never from hand-written bytes.
#![allow(deprecated)]
use crate::{
    c05::{dec_as, dec_as_set, roundtrip, Entry},
    util::{self, RandAdaptor},
};
use concordium_base::{
    base::*,
    common::{
        types::{CredentialIndex, KeyIndex, KeyPair, Ratio, Signature, TransactionSignature, TransactionSignaturesV1, TransactionTime},
        Version, Versioned,
    },
    contracts_common::{self as cc, AccountAddress, AccountThreshold, Address, Amount, ContractAddress, Duration, ExchangeRate, OwnedContractName, OwnedParameter, OwnedReceiveName, SignatureThreshold, Timestamp},
    hashes::HashBytes,
};
use std::collections::{BTreeMap, BTreeSet, HashSet};
use vmon_core::Rng;

pub use crate::c05_fx::Fx;

pub trait Gen: Sized {
    fn gen(r: &mut Rng, fx: &Fx) -> Self;
    /// value plus the name of the variant / shape generated (coverage)
    fn gen_v(r: &mut Rng, fx: &Fx) -> (Self, String) { (Self::gen(r, fx), String::new()) }
}

// ---------------------------------------------------------------- primitives
macro_rules! gen_int {
    ($($t:ty),*) => {$(
        impl Gen for $t { fn gen(r: &mut Rng, _: &Fx) -> Self { r.u64v() as $t } }
    )*};
}
gen_int!(u8, u16, u32, u64, i8, i16, i32, i64);

impl Gen for bool {
    fn gen(r: &mut Rng, _: &Fx) -> Self { r.chance(1, 2) }
}
impl Gen for u128 {
    fn gen(r: &mut Rng, _: &Fx) -> Self { ((r.u64v() as u128) << 64) | r.u64v() as u128 }
}
impl Gen for std::num::NonZeroU16 {
    fn gen(r: &mut Rng, _: &Fx) -> Self { std::num::NonZeroU16::new((r.u64v() as u16).max(1)).unwrap() }
}
impl Gen for std::num::NonZeroU64 {
    fn gen(r: &mut Rng, _: &Fx) -> Self { std::num::NonZeroU64::new(r.u64v().max(1)).unwrap() }
}
impl Gen for std::num::NonZeroI32 {
    fn gen(r: &mut Rng, _: &Fx) -> Self { std::num::NonZeroI32::new(r.i32v()).unwrap_or(std::num::NonZeroI32::new(-1).unwrap()) }
}

pub fn small_len(r: &mut Rng) -> usize {
    match r.below(10) {
        0 => 0,
        1 => 1,
        2..=7 => r.range(2, 6) as usize,
        _ => r.range(7, 40) as usize,
    }
}

impl Gen for String {
    fn gen(r: &mut Rng, _: &Fx) -> Self {
        // occasionally longer than MAX_PREALLOCATED_CAPACITY to reach the chunked path
        let n = if r.chance(1, 40) { r.range(4090, 9000) as usize } else { small_len(r) };
        util::unicode(r, n)
    }
}
impl<T: Gen> Gen for Vec<T> {
    fn gen(r: &mut Rng, fx: &Fx) -> Self { (0..small_len(r)).map(|_| T::gen(r, fx)).collect() }
}
impl<T: Gen> Gen for Option<T> {
    fn gen(r: &mut Rng, fx: &Fx) -> Self {
        if r.chance(1, 3) {
            None
        } else {
            Some(T::gen(r, fx))
        }
    }
}
impl<T: Gen> Gen for Box<T> {
    fn gen(r: &mut Rng, fx: &Fx) -> Self { Box::new(T::gen(r, fx)) }
}
impl<A: Gen, B: Gen> Gen for (A, B) {
    fn gen(r: &mut Rng, fx: &Fx) -> Self { (A::gen(r, fx), B::gen(r, fx)) }
}
impl<A: Gen, B: Gen, C: Gen> Gen for (A, B, C) {
    fn gen(r: &mut Rng, fx: &Fx) -> Self { (A::gen(r, fx), B::gen(r, fx), C::gen(r, fx)) }
}
impl<T: Gen + Ord> Gen for BTreeSet<T> {
    fn gen(r: &mut Rng, fx: &Fx) -> Self { (0..small_len(r)).map(|_| T::gen(r, fx)).collect() }
}
impl<K: Gen + Ord, V: Gen> Gen for BTreeMap<K, V> {
    fn gen(r: &mut Rng, fx: &Fx) -> Self { (0..small_len(r)).map(|_| (K::gen(r, fx), V::gen(r, fx))).collect() }
}
impl<T: Gen + Eq + std::hash::Hash> Gen for HashSet<T> {
    fn gen(r: &mut Rng, fx: &Fx) -> Self { (0..small_len(r)).map(|_| T::gen(r, fx)).collect() }
}
impl<T: Gen, const N: usize> Gen for [T; N] {
    fn gen(r: &mut Rng, fx: &Fx) -> Self { std::array::from_fn(|_| T::gen(r, fx)) }
}
impl Gen for chrono::DateTime<chrono::Utc> {
    fn gen(r: &mut Rng, _: &Fx) -> Self {
        loop {
            let ms = match r.below(4) {
                0 => r.below(4_102_444_800_000) as i64,
                1 => -(r.below(1 << 40) as i64),
                2 => 0,
                _ => (r.i64v() % 8_000_000_000_000_000).abs(),
            };
            if let Some(d) = chrono::DateTime::from_timestamp_millis(ms) {
                return d;
            }
        }
    }
}
impl Gen for std::net::IpAddr {
    fn gen(r: &mut Rng, _: &Fx) -> Self {
        if r.chance(1, 2) {
            std::net::IpAddr::V4(std::net::Ipv4Addr::from(r.next() as u32))
        } else {
            std::net::IpAddr::V6(std::net::Ipv6Addr::from(((r.next() as u128) << 64) | r.next() as u128))
        }
    }
}
impl Gen for std::net::SocketAddr {
    fn gen(r: &mut Rng, fx: &Fx) -> Self { std::net::SocketAddr::new(Gen::gen(r, fx), r.next() as u16) }
}

// ---------------------------------------------------------------- contracts-common types with a chain encoding
impl Gen for Amount {
    fn gen(r: &mut Rng, _: &Fx) -> Self { Amount::from_micro_ccd(r.u64v()) }
}
impl Gen for Timestamp {
    fn gen(r: &mut Rng, _: &Fx) -> Self { Timestamp::from_timestamp_millis(r.u64v()) }
}
impl Gen for Duration {
    fn gen(r: &mut Rng, _: &Fx) -> Self { Duration::from_millis(r.u64v()) }
}
impl Gen for AccountAddress {
    fn gen(r: &mut Rng, _: &Fx) -> Self {
        let mut b = [0u8; 32];
        r.fill(&mut b);
        AccountAddress(b)
    }
}
impl Gen for ContractAddress {
    fn gen(r: &mut Rng, _: &Fx) -> Self { ContractAddress::new(r.u64v(), r.u64v()) }
}
impl Gen for Address {
    fn gen(r: &mut Rng, fx: &Fx) -> Self {
        if r.chance(1, 2) {
            Address::Account(Gen::gen(r, fx))
        } else {
            Address::Contract(Gen::gen(r, fx))
        }
    }
}
impl Gen for ExchangeRate {
    fn gen(r: &mut Rng, _: &Fx) -> Self {
        loop {
            if let Some(x) = ExchangeRate::new(r.u64v(), r.u64v()) {
                return x;
            }
        }
    }
}
fn name_chars(r: &mut Rng, n: usize, allow_dot: bool) -> String {
    const P: &[u8] = b"abcdefghijklmnopqrstuvwxyzABCDEFGHIJKLMNOPQRSTUVWXYZ0123456789_-!#$%&'()*+,/:;<=>?@[\\]^`{|}~\"";
    (0..n)
        .map(|_| if allow_dot && r.chance(1, 12) { '.' } else { P[r.below(P.len() as u64) as usize] as char })
        .collect()
}
impl Gen for OwnedContractName {
    fn gen(r: &mut Rng, _: &Fx) -> Self {
        let n = if r.chance(1, 10) { 95 } else { r.below(30) as usize };
        OwnedContractName::new(format!("init_{}", name_chars(r, n, false))).expect("valid contract name")
    }
}
impl Gen for OwnedReceiveName {
    fn gen(r: &mut Rng, _: &Fx) -> Self {
        let a = r.below(20) as usize;
        let b = if r.chance(1, 10) { 99 - a } else { r.below(30) as usize };
        OwnedReceiveName::new(format!("{}.{}", name_chars(r, a, false), name_chars(r, b, true))).expect("valid receive name")
    }
}
impl Gen for OwnedParameter {
    fn gen(r: &mut Rng, _: &Fx) -> Self {
        let n = match r.below(20) {
            0 => 65535,
            1 => r.range(1000, 65535) as usize,
            _ => small_len(r),
        };
        OwnedParameter::try_from(r.bytes(n)).expect("parameter within bounds")
    }
}
impl<P> Gen for HashBytes<P> {
    fn gen(r: &mut Rng, _: &Fx) -> Self {
        let mut b = [0u8; 32];
        if !r.chance(1, 20) {
            r.fill(&mut b);
        }
        HashBytes::new(b)
    }
}
impl Gen for AccountThreshold {
    fn gen(r: &mut Rng, _: &Fx) -> Self { AccountThreshold::try_from(r.range(1, 255) as u8).unwrap() }
}
impl Gen for SignatureThreshold {
    fn gen(r: &mut Rng, _: &Fx) -> Self { SignatureThreshold::try_from(r.range(1, 255) as u8).unwrap() }
}

// ---------------------------------------------------------------- common::types
impl Gen for KeyIndex {
    fn gen(r: &mut Rng, _: &Fx) -> Self { KeyIndex(r.u64v() as u8) }
}
impl Gen for CredentialIndex {
    fn gen(r: &mut Rng, _: &Fx) -> Self { CredentialIndex { index: r.u64v() as u8 } }
}
impl Gen for Ratio {
    fn gen(r: &mut Rng, _: &Fx) -> Self {
        loop {
            let (a, b) = if r.chance(1, 2) { (r.below(1000), r.range(1, 1000)) } else { (r.u64v(), r.u64v()) };
            if let Ok(x) = Ratio::new(a, b) {
                return x;
            }
        }
    }
}
impl Gen for Signature {
    fn gen(r: &mut Rng, _: &Fx) -> Self {
        let n = match r.below(20) {
            0 => 0,
            1 => r.range(65, 65535) as usize,
            2 => 65535,
            _ => 64,
        };
        Signature { sig: r.bytes(n) }
    }
}
pub fn keypair(r: &mut Rng) -> KeyPair { KeyPair::generate(&mut RandAdaptor(r)) }

impl Gen for TransactionSignature {
    fn gen(r: &mut Rng, fx: &Fx) -> Self {
        let ncred = r.range(1, 3);
        let mut signatures = BTreeMap::new();
        while (signatures.len() as u64) < ncred {
            let nk = r.range(1, 3);
            let mut m = BTreeMap::new();
            while (m.len() as u64) < nk {
                // mostly real ed25519 signatures made by library key pairs
                let s: Signature = if r.chance(4, 5) { keypair(r).sign(&r.bytes(32)).into() } else { Gen::gen(r, fx) };
                m.insert(KeyIndex::gen(r, fx), s);
            }
            signatures.insert(CredentialIndex::gen(r, fx), m);
        }
        TransactionSignature { signatures }
    }
}
impl Gen for TransactionSignaturesV1 {
    fn gen(r: &mut Rng, fx: &Fx) -> Self { TransactionSignaturesV1 { sender: Gen::gen(r, fx), sponsor: Gen::gen(r, fx) } }
    fn gen_v(r: &mut Rng, fx: &Fx) -> (Self, String) {
        let v = Self::gen(r, fx);
        let s = if v.sponsor.is_some() { "sponsored" } else { "unsponsored" };
        (v, s.into())
    }
}
impl Gen for TransactionTime {
    fn gen(r: &mut Rng, _: &Fx) -> Self { TransactionTime::from_seconds(r.u64v()) }
}
impl Gen for Version {
    fn gen(r: &mut Rng, _: &Fx) -> Self {
        Version::from(match r.below(6) {
            0 => 0,
            1 => 127,
            2 => 128,
            3 => u32::MAX,
            4 => r.below(20000) as u32,
            _ => r.next() as u32,
        })
    }
}
impl<T: Gen> Gen for Versioned<T> {
    fn gen(r: &mut Rng, fx: &Fx) -> Self { Versioned::new(Gen::gen(r, fx), T::gen(r, fx)) }
}
impl Gen for ed25519_dalek::VerifyingKey {
    fn gen(r: &mut Rng, _: &Fx) -> Self { keypair(r).public() }
}
impl Gen for ed25519_dalek::SigningKey {
    fn gen(r: &mut Rng, _: &Fx) -> Self { ed25519_dalek::SigningKey::generate(&mut RandAdaptor(r)) }
}
impl Gen for ed25519_dalek::Signature {
    fn gen(r: &mut Rng, _: &Fx) -> Self {
        use ed25519_dalek::Signer;
        let k = ed25519_dalek::SigningKey::generate(&mut RandAdaptor(r));
        k.sign(&r.bytes(20))
    }
}

// ---------------------------------------------------------------- base.rs
macro_rules! gen_from_u64 {
    ($($t:ty),*) => {$( impl Gen for $t { fn gen(r: &mut Rng, _: &Fx) -> Self { <$t>::from(r.u64v()) } } )*};
}
gen_from_u64!(SlotDuration, DurationSeconds, Slot, Epoch, Round, Nonce, UpdateSequenceNumber, BlockHeight, AbsoluteBlockHeight, AccountIndex, Energy, FinalizationIndex);

impl Gen for BakerId {
    fn gen(r: &mut Rng, fx: &Fx) -> Self { BakerId::from(AccountIndex::gen(r, fx)) }
}
impl Gen for DelegatorId {
    fn gen(r: &mut Rng, fx: &Fx) -> Self { DelegatorId::from(AccountIndex::gen(r, fx)) }
}
impl Gen for CredentialsPerBlockLimit {
    fn gen(r: &mut Rng, _: &Fx) -> Self { CredentialsPerBlockLimit::from(r.u64v() as u16) }
}
impl Gen for GenesisIndex {
    fn gen(r: &mut Rng, _: &Fx) -> Self { GenesisIndex::from(r.u64v() as u32) }
}
impl Gen for TransactionIndex {
    fn gen(r: &mut Rng, _: &Fx) -> Self { TransactionIndex { index: r.u64v() } }
}
impl Gen for UrlText {
    fn gen(r: &mut Rng, _: &Fx) -> Self {
        let n = match r.below(12) {
            0 => 2048,
            1 => r.range(100, 2048) as usize,
            _ => small_len(r),
        };
        UrlText::try_from(util::ascii(r, n)).expect("url within bounds")
    }
}
impl Gen for OpenStatus {
    fn gen(r: &mut Rng, _: &Fx) -> Self { *r.pick(&[OpenStatus::OpenForAll, OpenStatus::ClosedForNew, OpenStatus::ClosedForAll]) }
}
impl Gen for DelegationTarget {
    fn gen(r: &mut Rng, fx: &Fx) -> Self {
        if r.chance(1, 3) {
            DelegationTarget::Passive
        } else {
            DelegationTarget::Baker { baker_id: Gen::gen(r, fx) }
        }
    }
}
impl Gen for ProtocolVersion {
    fn gen(r: &mut Rng, _: &Fx) -> Self {
        loop {
            if let Ok(p) = ProtocolVersion::try_from(r.range(1, 12)) {
                return p;
            }
        }
    }
}
fn parts(r: &mut Rng) -> u32 {
    match r.below(5) {
        0 => 0,
        1 => 100_000,
        _ => r.below(100_001) as u32,
    }
}
impl Gen for PartsPerHundredThousands {
    fn gen(r: &mut Rng, _: &Fx) -> Self { PartsPerHundredThousands::new(parts(r)).unwrap() }
}
impl Gen for AmountFraction {
    fn gen(r: &mut Rng, _: &Fx) -> Self { AmountFraction::new(parts(r)).unwrap() }
}
impl Gen for ElectionDifficulty {
    fn gen(r: &mut Rng, _: &Fx) -> Self { ElectionDifficulty::new(parts(r)).unwrap() }
}
impl Gen for CapitalBound {
    fn gen(r: &mut Rng, fx: &Fx) -> Self { CapitalBound { bound: Gen::gen(r, fx) } }
}
impl Gen for CommissionRates {
    fn gen(r: &mut Rng, fx: &Fx) -> Self { CommissionRates { finalization: Gen::gen(r, fx), baking: Gen::gen(r, fx), transaction: Gen::gen(r, fx) } }
}
impl Gen for InclusiveRange<AmountFraction> {
    fn gen(r: &mut Rng, fx: &Fx) -> Self {
        let (a, b): (AmountFraction, AmountFraction) = (Gen::gen(r, fx), Gen::gen(r, fx));
        InclusiveRange { min: a.min(b), max: a.max(b) }
    }
}
impl Gen for InclusiveRange<u64> {
    fn gen(r: &mut Rng, _: &Fx) -> Self {
        let (a, b) = (r.u64v(), r.u64v());
        InclusiveRange { min: a.min(b), max: a.max(b) }
    }
}
impl Gen for CommissionRanges {
    fn gen(r: &mut Rng, fx: &Fx) -> Self { CommissionRanges { finalization: Gen::gen(r, fx), baking: Gen::gen(r, fx), transaction: Gen::gen(r, fx) } }
}
impl Gen for LeverageFactor {
    fn gen(r: &mut Rng, _: &Fx) -> Self {
        loop {
            let x = if r.chance(1, 3) { Some(LeverageFactor::new_integral(r.range(1, 1000))) } else { LeverageFactor::new(r.u64v(), r.range(1, 50)) };
            if let Some(x) = x {
                return x;
            }
        }
    }
}
impl Gen for MintRate {
    fn gen(r: &mut Rng, _: &Fx) -> Self { MintRate { mantissa: r.u64v() as u32, exponent: r.u64v() as u8 } }
}
fn two_fractions(r: &mut Rng) -> (AmountFraction, AmountFraction) {
    let a = parts(r);
    let b = r.below(100_001 - a as u64) as u32;
    (AmountFraction::new(a).unwrap(), AmountFraction::new(b).unwrap())
}
impl Gen for MintDistributionV0 {
    fn gen(r: &mut Rng, fx: &Fx) -> Self {
        let (a, b) = two_fractions(r);
        MintDistributionV0 { mint_per_slot: Gen::gen(r, fx), baking_reward: a, finalization_reward: b }
    }
}
impl Gen for MintDistributionV1 {
    fn gen(r: &mut Rng, _: &Fx) -> Self {
        let (a, b) = two_fractions(r);
        MintDistributionV1 { baking_reward: a, finalization_reward: b }
    }
}
impl Gen for UpdateKeysThreshold {
    fn gen(r: &mut Rng, _: &Fx) -> Self { UpdateKeysThreshold::try_from((r.u64v() as u16).max(1)).unwrap() }
}
impl Gen for UpdateKeysIndex {
    fn gen(r: &mut Rng, _: &Fx) -> Self { UpdateKeysIndex { index: r.u64v() as u16 } }
}
impl Gen for UpdatePublicKey {
    fn gen(r: &mut Rng, _: &Fx) -> Self { UpdatePublicKey::from(&UpdateKeyPair::generate(&mut RandAdaptor(r))) }
}
impl Gen for BakerKeyPairs {
    fn gen(r: &mut Rng, _: &Fx) -> Self { BakerKeyPairs::generate(&mut RandAdaptor(r)) }
}
impl Gen for BakerSignatureSignKey {
    fn gen(r: &mut Rng, _: &Fx) -> Self { BakerSignatureSignKey::generate(&mut RandAdaptor(r)) }
}
impl Gen for BakerSignatureVerifyKey {
    fn gen(r: &mut Rng, fx: &Fx) -> Self { BakerSignatureVerifyKey::from(&BakerSignatureSignKey::gen(r, fx)) }
}
impl Gen for BakerElectionSignKey {
    fn gen(r: &mut Rng, _: &Fx) -> Self { BakerElectionSignKey::generate(&mut RandAdaptor(r)) }
}
impl Gen for BakerElectionVerifyKey {
    fn gen(r: &mut Rng, fx: &Fx) -> Self { BakerElectionVerifyKey::from(&BakerElectionSignKey::gen(r, fx)) }
}
impl Gen for BakerAggregationSignKey {
    fn gen(r: &mut Rng, _: &Fx) -> Self { BakerAggregationSignKey::generate(&mut RandAdaptor(r)) }
}
impl Gen for BakerAggregationVerifyKey {
    fn gen(r: &mut Rng, fx: &Fx) -> Self { BakerAggregationVerifyKey::from(&BakerAggregationSignKey::gen(r, fx)) }
}

// ---------------------------------------------------------------- registry
macro_rules! ent {
    (@eq eq $t:ty) => { |a: &$t, b: &$t| a == b };
    (@eq dbg $t:ty) => { |a: &$t, b: &$t| format!("{:?}", a) == format!("{:?}", b) };
    (@eq bytes $t:ty) => { |_a: &$t, _b: &$t| true };
    ($v:ident, $name:literal, $t:ty, $eq:ident $(, $opt:ident = $val:expr)*) => {{
        #[allow(unused_mut)]
        let mut e = Entry {
            name: $name, elem: 128, heavy: false, bitmap_at: None, set_like: false,
            gen: |r, fx| { let (v, variant) = <$t as Gen>::gen_v(r, fx); roundtrip::<$t>(&v, ent!(@eq $eq $t), variant) },
            dec: dec_as::<$t>,
        };
        $( e.$opt = $val; )*
        $v.push(e);
    }};
}
pub(crate) use ent;

pub fn registry() -> Vec<Entry> {
    let mut v: Vec<Entry> = vec![];
    // --- serialize.rs: primitives and generic containers
    ent!(v, "u8", u8, eq);
    ent!(v, "u16", u16, eq);
    ent!(v, "u32", u32, eq);
    ent!(v, "u64", u64, eq);
    ent!(v, "i8", i8, eq);
    ent!(v, "i16", i16, eq);
    ent!(v, "i32", i32, eq);
    ent!(v, "i64", i64, eq);
    ent!(v, "bool", bool, eq);
    ent!(v, "NonZeroU16", std::num::NonZeroU16, eq);
    ent!(v, "NonZeroU64", std::num::NonZeroU64, eq);
    ent!(v, "NonZeroI32", std::num::NonZeroI32, eq);
    ent!(v, "String", String, eq);
    ent!(v, "Vec<u16>", Vec<u16>, eq);
    ent!(v, "Vec<String>", Vec<String>, eq);
    ent!(v, "BTreeSet<u32>", BTreeSet<u32>, eq);
    ent!(v, "BTreeMap<u16,u64>", BTreeMap<u16, u64>, eq);
    ent!(v, "BTreeMap<String,Vec<u8>>", BTreeMap<String, Vec<u8>>, eq);
    ent!(v, "(u8,u32)", (u8, u32), eq);
    ent!(v, "(u16,bool,u64)", (u16, bool, u64), eq);
    ent!(v, "Option<u64>", Option<u64>, eq);
    ent!(v, "[u16;5]", [u16; 5], eq);
    {
        ent!(v, "HashSet<u32>", HashSet<u32>, eq, set_like = true);
        let e = v.last_mut().unwrap();
        e.dec = dec_as_set::<HashSet<u32>>;
        e.gen = |r, fx| crate::c05::roundtrip_x::<HashSet<u32>>(&Gen::gen(r, fx), |a, b| a == b, String::new(), true);
    }
    ent!(v, "DateTime<Utc>", chrono::DateTime<chrono::Utc>, eq);
    ent!(v, "IpAddr", std::net::IpAddr, eq);
    ent!(v, "SocketAddr", std::net::SocketAddr, eq);
    ent!(v, "ExchangeRate", ExchangeRate, eq);
    ent!(v, "Duration", Duration, eq);
    ent!(v, "Timestamp", Timestamp, eq);
    ent!(v, "Version", Version, eq);
    ent!(v, "Versioned<u32>", Versioned<u32>, eq);
    ent!(v, "ed25519::VerifyingKey", ed25519_dalek::VerifyingKey, eq);
    ent!(v, "ed25519::SigningKey", ed25519_dalek::SigningKey, bytes);
    ent!(v, "ed25519::Signature", ed25519_dalek::Signature, eq);
    ent!(v, "AccountThreshold", AccountThreshold, eq);
    ent!(v, "SignatureThreshold", SignatureThreshold, eq);
    ent!(v, "ModuleReference", cc::ModuleReference, eq);
    ent!(v, "TransactionHash", concordium_base::hashes::TransactionHash, eq);
    // --- common/types.rs
    ent!(v, "KeyIndex", KeyIndex, eq);
    ent!(v, "CredentialIndex", CredentialIndex, eq);
    ent!(v, "Amount", Amount, eq);
    ent!(v, "Address", Address, eq);
    ent!(v, "AccountAddress", AccountAddress, eq);
    ent!(v, "ContractAddress", ContractAddress, eq);
    ent!(v, "OwnedReceiveName", OwnedReceiveName, eq);
    ent!(v, "OwnedContractName", OwnedContractName, eq);
    ent!(v, "OwnedParameter", OwnedParameter, eq);
    ent!(v, "Ratio", Ratio, eq);
    ent!(v, "Signature", Signature, eq);
    ent!(v, "TransactionSignature", TransactionSignature, eq);
    ent!(v, "TransactionSignaturesV1", TransactionSignaturesV1, eq);
    ent!(v, "TransactionTime", TransactionTime, eq);
    // --- base.rs
    ent!(v, "SlotDuration", SlotDuration, eq);
    ent!(v, "DurationSeconds", DurationSeconds, eq);
    ent!(v, "BakerId", BakerId, eq);
    ent!(v, "DelegatorId", DelegatorId, eq);
    ent!(v, "UrlText", UrlText, eq);
    ent!(v, "OpenStatus", OpenStatus, eq);
    ent!(v, "DelegationTarget", DelegationTarget, eq);
    ent!(v, "Slot", Slot, eq);
    ent!(v, "Epoch", Epoch, eq);
    ent!(v, "Round", Round, eq);
    ent!(v, "Nonce", Nonce, eq);
    ent!(v, "UpdateSequenceNumber", UpdateSequenceNumber, eq);
    ent!(v, "CredentialsPerBlockLimit", CredentialsPerBlockLimit, eq);
    ent!(v, "BlockHeight", BlockHeight, eq);
    ent!(v, "GenesisIndex", GenesisIndex, eq);
    ent!(v, "ProtocolVersion", ProtocolVersion, eq);
    ent!(v, "AbsoluteBlockHeight", AbsoluteBlockHeight, eq);
    ent!(v, "AccountIndex", AccountIndex, eq);
    ent!(v, "Energy", Energy, eq);
    ent!(v, "TransactionIndex", TransactionIndex, dbg);
    ent!(v, "FinalizationIndex", FinalizationIndex, eq);
    ent!(v, "PartsPerHundredThousands", PartsPerHundredThousands, eq);
    ent!(v, "AmountFraction", AmountFraction, eq);
    ent!(v, "ElectionDifficulty", ElectionDifficulty, eq);
    ent!(v, "CapitalBound", CapitalBound, eq);
    ent!(v, "CommissionRates", CommissionRates, eq);
    ent!(v, "CommissionRanges", CommissionRanges, dbg);
    ent!(v, "InclusiveRange<AmountFraction>", InclusiveRange<AmountFraction>, eq);
    ent!(v, "InclusiveRange<u64>", InclusiveRange<u64>, eq);
    ent!(v, "LeverageFactor", LeverageFactor, eq);
    ent!(v, "MintRate", MintRate, eq);
    ent!(v, "MintDistributionV0", MintDistributionV0, dbg);
    ent!(v, "MintDistributionV1", MintDistributionV1, dbg);
    ent!(v, "UpdateKeysThreshold", UpdateKeysThreshold, eq);
    ent!(v, "UpdateKeysIndex", UpdateKeysIndex, eq);
    ent!(v, "UpdatePublicKey", UpdatePublicKey, eq);
    ent!(v, "BakerKeyPairs", BakerKeyPairs, bytes, heavy = true);
    ent!(v, "BakerSignatureSignKey", BakerSignatureSignKey, bytes);
    ent!(v, "BakerSignatureVerifyKey", BakerSignatureVerifyKey, eq);
    ent!(v, "BakerElectionSignKey", BakerElectionSignKey, bytes);
    ent!(v, "BakerElectionVerifyKey", BakerElectionVerifyKey, eq);
    ent!(v, "BakerAggregationSignKey", BakerAggregationSignKey, bytes);
    ent!(v, "BakerAggregationVerifyKey", BakerAggregationVerifyKey, eq, heavy = true);
    crate::c05_tx::register(&mut v);
    crate::c05_id::register(&mut v);
    v
}
