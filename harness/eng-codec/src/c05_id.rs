//! C05 generators: identity layer (id/types.rs), crypto keys and proofs,
//! encrypted transfers. Compound objects come from the library's identity
//! pipeline (fixture), with the public, freely choosable fields re-randomised.
#![allow(deprecated)]
use crate::{
    c05::{dec_as, roundtrip, Entry},
    c05_gen::{ent, keypair, Fx, Gen},
    util::{self, RandAdaptor},
};
use concordium_base::{
    aggregate_sig, base::CredentialRegistrationID,
    common::types::{KeyIndex, TransactionTime},
    curve_arithmetic::Curve,
    dodis_yampolskiy_prf as prf,
    eddsa_ed25519::Ed25519DlogProof,
    elgamal,
    encrypted_transfers::types::*,
    id::{
        constants::{ArCurve, AttributeKind, BaseField, IpPairing},
        secret_sharing::Threshold,
        types::*,
    },
    pedersen_commitment as pc, ps_sig,
};
use std::collections::{BTreeMap, BTreeSet};
use vmon_core::Rng;

type Cdi = CredentialDeploymentInfo<IpPairing, ArCurve, AttributeKind>;
type Icdi = InitialCredentialDeploymentInfo<ArCurve, AttributeKind>;

fn point(r: &mut Rng) -> ArCurve { ArCurve::generate(&mut RandAdaptor(r)) }

impl Gen for CredentialRegistrationID {
    fn gen(r: &mut Rng, _: &Fx) -> Self { CredentialRegistrationID::new(point(r)) }
}
impl Gen for IpIdentity {
    fn gen(r: &mut Rng, _: &Fx) -> Self { IpIdentity(r.u64v() as u32) }
}
impl Gen for ArIdentity {
    fn gen(r: &mut Rng, _: &Fx) -> Self { ArIdentity::try_from((r.u64v() as u32).max(1)).unwrap() }
}
impl Gen for AttributeTag {
    fn gen(r: &mut Rng, _: &Fx) -> Self { AttributeTag(r.u64v() as u8) }
}
impl Gen for YearMonth {
    fn gen(r: &mut Rng, _: &Fx) -> Self {
        let y = match r.below(4) {
            0 => 1000,
            1 => 9999,
            _ => r.range(1000, 9999) as u16,
        };
        YearMonth::new(y, r.range(1, 12) as u8).unwrap()
    }
}
impl Gen for AttributeKind {
    fn gen(r: &mut Rng, _: &Fx) -> Self {
        let n = match r.below(6) {
            0 => 31,
            1 => 0,
            _ => r.below(32) as usize,
        };
        // at most 31 *bytes*: ASCII keeps the byte length equal to n
        AttributeKind::try_new(util::ascii(r, n)).expect("attribute within 31 bytes")
    }
}
impl Gen for Threshold {
    fn gen(r: &mut Rng, _: &Fx) -> Self { Threshold::try_new(r.range(1, 255) as u8).unwrap() }
}
impl Gen for Policy<ArCurve, AttributeKind> {
    fn gen(r: &mut Rng, fx: &Fx) -> Self { Policy { valid_to: Gen::gen(r, fx), created_at: Gen::gen(r, fx), policy_vec: Gen::gen(r, fx), _phantom: Default::default() } }
}
impl Gen for AttributeList<BaseField, AttributeKind> {
    fn gen(r: &mut Rng, fx: &Fx) -> Self { AttributeList { valid_to: Gen::gen(r, fx), created_at: Gen::gen(r, fx), max_accounts: Gen::gen(r, fx), alist: Gen::gen(r, fx), _phantom: Default::default() } }
}
impl Gen for SchemeId {
    fn gen(_: &mut Rng, _: &Fx) -> Self { SchemeId::Ed25519 }
}
impl Gen for Description {
    fn gen(r: &mut Rng, _: &Fx) -> Self {
        let mut s = |r: &mut Rng| {
            let n = if r.chance(1, 25) { r.range(4000, 9000) as usize } else { r.below(30) as usize };
            util::unicode(r, n)
        };
        Description { name: s(r), url: s(r), description: s(r) }
    }
}
impl Gen for ArInfo<ArCurve> {
    fn gen(r: &mut Rng, fx: &Fx) -> Self {
        let sk = elgamal::SecretKey::generate(fx.global.elgamal_generator(), &mut RandAdaptor(r));
        ArInfo { ar_identity: Gen::gen(r, fx), ar_description: Gen::gen(r, fx), ar_public_key: elgamal::PublicKey::from(&sk) }
    }
}
impl Gen for IpInfo<IpPairing> {
    fn gen(r: &mut Rng, fx: &Fx) -> Self {
        // a fresh Pointcheval-Sanders key of random length (the encoding carries two vectors)
        let n = r.range(1, 12) as usize;
        let sk = ps_sig::SecretKey::<IpPairing>::generate(n, &mut RandAdaptor(r));
        IpInfo { ip_identity: Gen::gen(r, fx), ip_description: Gen::gen(r, fx), ip_verify_key: ps_sig::PublicKey::from(&sk), ip_cdi_verify_key: keypair(r).public() }
    }
}
impl Gen for GlobalContext<ArCurve> {
    fn gen(r: &mut Rng, _: &Fx) -> Self { {
        let n = r.below(20) as usize;
        let s = util::unicode(r, n);
        GlobalContext::generate_size(s, r.below(6) as usize)
    } }
}
impl Gen for IpMetadata {
    fn gen(r: &mut Rng, _: &Fx) -> Self { {
        let (a, b) = (r.below(20) as usize, r.below(200) as usize);
        IpMetadata { issuance_start: util::unicode(r, a), icon: util::unicode(r, b) }
    } }
}
impl Gen for ChoiceArParameters {
    fn gen(r: &mut Rng, fx: &Fx) -> Self {
        let ar_identities: BTreeSet<ArIdentity> = (0..r.range(1, 5)).map(|_| ArIdentity::gen(r, fx)).collect();
        ChoiceArParameters { threshold: Threshold::try_new(r.range(1, ar_identities.len() as u64) as u8).unwrap(), ar_identities }
    }
}
impl Gen for IpCdiSignature {
    fn gen(r: &mut Rng, fx: &Fx) -> Self { IpCdiSignature::from(ed25519_dalek::Signature::gen(r, fx)) }
}
impl Gen for AccountOwnershipSignature {
    fn gen(r: &mut Rng, fx: &Fx) -> Self { AccountOwnershipSignature::from(ed25519_dalek::Signature::gen(r, fx)) }
}
impl Gen for AccountOwnershipProof {
    fn gen(r: &mut Rng, fx: &Fx) -> Self {
        let n = r.range(1, 4);
        let mut sigs = BTreeMap::new();
        while (sigs.len() as u64) < n {
            sigs.insert(KeyIndex::gen(r, fx), Gen::gen(r, fx));
        }
        AccountOwnershipProof { sigs }
    }
}

// ---- pipeline objects: clone from the fixture, re-randomise the free public fields
fn cdi(r: &mut Rng, fx: &Fx) -> Cdi {
    let mut c = r.pick(&fx.cdis).clone();
    if r.chance(1, 2) {
        c.values.policy = Gen::gen(r, fx);
    }
    if r.chance(1, 2) {
        c.values.cred_key_info = Gen::gen(r, fx);
    }
    if r.chance(1, 3) {
        c.values.ip_identity = Gen::gen(r, fx);
        c.values.threshold = Gen::gen(r, fx);
        c.values.cred_id = point(r);
    }
    if r.chance(1, 4) {
        // add / remove anonymity revoker entries (the map is length-prefixed)
        let extra: ChainArData<ArCurve> = c.values.ar_data.values().next().expect("at least one AR").clone();
        c.values.ar_data.insert(Gen::gen(r, fx), extra);
    }
    if r.chance(1, 3) {
        c.proofs.proof_acc_sk = Gen::gen(r, fx);
    }
    c
}
impl Gen for Cdi {
    fn gen(r: &mut Rng, fx: &Fx) -> Self { cdi(r, fx) }
}
impl Gen for CredentialDeploymentValues<ArCurve, AttributeKind> {
    fn gen(r: &mut Rng, fx: &Fx) -> Self { cdi(r, fx).values }
}
impl Gen for CredDeploymentProofs<IpPairing, ArCurve> {
    fn gen(r: &mut Rng, fx: &Fx) -> Self { cdi(r, fx).proofs }
}
impl Gen for IdOwnershipProofs<IpPairing, ArCurve> {
    fn gen(r: &mut Rng, fx: &Fx) -> Self { cdi(r, fx).proofs.id_proofs }
}
impl Gen for CredentialDeploymentCommitments<ArCurve> {
    fn gen(r: &mut Rng, fx: &Fx) -> Self { cdi(r, fx).proofs.id_proofs.commitments }
}
impl Gen for ChainArData<ArCurve> {
    fn gen(r: &mut Rng, fx: &Fx) -> Self { ChainArData { enc_id_cred_pub_share: Gen::gen(r, fx) } }
}
fn icdi(r: &mut Rng, fx: &Fx) -> Icdi {
    let mut c = fx.icdi.clone();
    if r.chance(1, 2) {
        c.values.policy = Gen::gen(r, fx);
        c.values.cred_account = Gen::gen(r, fx);
    }
    if r.chance(1, 2) {
        c.values.ip_identity = Gen::gen(r, fx);
        c.values.reg_id = point(r);
        c.sig = Gen::gen(r, fx);
    }
    c
}
impl Gen for Icdi {
    fn gen(r: &mut Rng, fx: &Fx) -> Self { icdi(r, fx) }
}
impl Gen for InitialCredentialDeploymentValues<ArCurve, AttributeKind> {
    fn gen(r: &mut Rng, fx: &Fx) -> Self { icdi(r, fx).values }
}
impl Gen for AccountCredential<IpPairing, ArCurve, AttributeKind> {
    fn gen(r: &mut Rng, fx: &Fx) -> Self { Self::gen_v(r, fx).0 }

    fn gen_v(r: &mut Rng, fx: &Fx) -> (Self, String) {
        if r.chance(1, 2) {
            (AccountCredential::Initial { icdi: icdi(r, fx) }, "Initial".into())
        } else {
            (AccountCredential::Normal { cdi: cdi(r, fx) }, "Normal".into())
        }
    }
}
impl Gen for AccountCredentialMessage<IpPairing, ArCurve, AttributeKind> {
    fn gen(r: &mut Rng, fx: &Fx) -> Self { AccountCredentialMessage { message_expiry: TransactionTime::gen(r, fx), credential: Gen::gen(r, fx) } }
}
impl Gen for AccountCredentialWithoutProofs<ArCurve, AttributeKind> {
    fn gen(r: &mut Rng, fx: &Fx) -> Self { Self::gen_v(r, fx).0 }

    fn gen_v(r: &mut Rng, fx: &Fx) -> (Self, String) {
        if r.chance(1, 2) {
            (AccountCredentialWithoutProofs::Initial { icdv: icdi(r, fx).values }, "Initial".into())
        } else {
            let c = cdi(r, fx);
            (AccountCredentialWithoutProofs::Normal { cdv: c.values, commitments: c.proofs.id_proofs.commitments }, "Normal".into())
        }
    }
}
impl Gen for PreIdentityObject<IpPairing, ArCurve> {
    fn gen(r: &mut Rng, fx: &Fx) -> Self {
        let mut p = fx.pio.clone();
        if r.chance(1, 2) {
            p.choice_ar_parameters = Gen::gen(r, fx);
            p.pub_info_for_ip.vk_acc = Gen::gen(r, fx);
        }
        if r.chance(1, 3) {
            p.poks.proof_acc_sk = Gen::gen(r, fx);
            p.cmm_prf_sharing_coeff.push(pc::Commitment(point(r)));
        }
        p
    }
}
impl Gen for PreIdentityObjectV1<IpPairing, ArCurve> {
    fn gen(r: &mut Rng, fx: &Fx) -> Self {
        let mut p = fx.pio_v1.clone();
        if r.chance(1, 2) {
            p.choice_ar_parameters = Gen::gen(r, fx);
            p.id_cred_pub = point(r);
        }
        p
    }
}
impl Gen for PreIdentityProof<IpPairing, ArCurve> {
    fn gen(r: &mut Rng, fx: &Fx) -> Self { PreIdentityObject::gen(r, fx).poks }
}
impl Gen for CommonPioProofFields<IpPairing, ArCurve> {
    fn gen(r: &mut Rng, fx: &Fx) -> Self { PreIdentityObjectV1::gen(r, fx).poks }
}
impl Gen for PublicInformationForIp<ArCurve> {
    fn gen(r: &mut Rng, fx: &Fx) -> Self { PublicInformationForIp { id_cred_pub: point(r), reg_id: point(r), vk_acc: Gen::gen(r, fx) } }
}
impl Gen for IpArData<ArCurve> {
    fn gen(r: &mut Rng, fx: &Fx) -> Self { r.pick(&fx.pio.ip_ar_data.values().cloned().collect::<Vec<_>>()).clone() }
}

// ---- crypto primitives
impl Gen for elgamal::Cipher<ArCurve> {
    fn gen(r: &mut Rng, _: &Fx) -> Self { elgamal::Cipher::generate(&mut RandAdaptor(r)) }
}
impl Gen for elgamal::SecretKey<ArCurve> {
    fn gen(r: &mut Rng, _: &Fx) -> Self { elgamal::SecretKey::generate_all(&mut RandAdaptor(r)) }
}
impl Gen for elgamal::PublicKey<ArCurve> {
    fn gen(r: &mut Rng, fx: &Fx) -> Self { elgamal::PublicKey::from(&elgamal::SecretKey::<ArCurve>::gen(r, fx)) }
}
impl Gen for elgamal::Message<ArCurve> {
    fn gen(r: &mut Rng, _: &Fx) -> Self { elgamal::Message::generate(&mut RandAdaptor(r)) }
}
impl Gen for pc::CommitmentKey<ArCurve> {
    fn gen(r: &mut Rng, _: &Fx) -> Self { pc::CommitmentKey::generate(&mut RandAdaptor(r)) }
}
impl Gen for pc::Commitment<ArCurve> {
    fn gen(r: &mut Rng, _: &Fx) -> Self { pc::Commitment(point(r)) }
}
impl Gen for pc::Randomness<ArCurve> {
    fn gen(r: &mut Rng, _: &Fx) -> Self { pc::Randomness::generate(&mut RandAdaptor(r)) }
}
impl Gen for pc::Value<ArCurve> {
    fn gen(r: &mut Rng, _: &Fx) -> Self { pc::Value::generate(&mut RandAdaptor(r)) }
}
impl Gen for ps_sig::SecretKey<IpPairing> {
    fn gen(r: &mut Rng, _: &Fx) -> Self { ps_sig::SecretKey::generate(r.range(0, 8) as usize, &mut RandAdaptor(r)) }
}
impl Gen for ps_sig::PublicKey<IpPairing> {
    fn gen(r: &mut Rng, fx: &Fx) -> Self { ps_sig::PublicKey::from(&ps_sig::SecretKey::<IpPairing>::gen(r, fx)) }
}
impl Gen for ps_sig::Signature<IpPairing> {
    fn gen(r: &mut Rng, fx: &Fx) -> Self {
        if r.chance(1, 2) {
            fx.ip_sig.clone()
        } else {
            let n = r.range(1, 5) as usize;
            let sk = ps_sig::SecretKey::<IpPairing>::generate(n, &mut RandAdaptor(r));
            let msg = ps_sig::KnownMessage::generate(n, &mut RandAdaptor(r));
            sk.sign_known_message(&msg, &mut RandAdaptor(r)).expect("key long enough")
        }
    }
}
impl Gen for ps_sig::KnownMessage<IpPairing> {
    fn gen(r: &mut Rng, _: &Fx) -> Self { ps_sig::KnownMessage::generate(r.below(8) as usize, &mut RandAdaptor(r)) }
}
impl Gen for ps_sig::SigRetrievalRandomness<IpPairing> {
    fn gen(r: &mut Rng, _: &Fx) -> Self { ps_sig::SigRetrievalRandomness::generate_non_zero(&mut RandAdaptor(r)) }
}
impl Gen for prf::SecretKey<ArCurve> {
    fn gen(r: &mut Rng, _: &Fx) -> Self { prf::SecretKey::generate(&mut RandAdaptor(r)) }
}
impl Gen for aggregate_sig::SecretKey<IpPairing> {
    fn gen(r: &mut Rng, _: &Fx) -> Self { aggregate_sig::SecretKey::generate(&mut RandAdaptor(r)) }
}
impl Gen for aggregate_sig::PublicKey<IpPairing> {
    fn gen(r: &mut Rng, fx: &Fx) -> Self { aggregate_sig::PublicKey::from_secret(&aggregate_sig::SecretKey::<IpPairing>::gen(r, fx)) }
}
impl Gen for aggregate_sig::Signature<IpPairing> {
    fn gen(r: &mut Rng, fx: &Fx) -> Self { aggregate_sig::SecretKey::<IpPairing>::gen(r, fx).sign(&r.bytes(20)) }
}
impl Gen for aggregate_sig::Proof<IpPairing> {
    fn gen(r: &mut Rng, fx: &Fx) -> Self {
        let sk = aggregate_sig::SecretKey::<IpPairing>::gen(r, fx);
        sk.prove(&mut RandAdaptor(r), &mut concordium_base::random_oracle::RandomOracle::domain(b"c05"))
    }
}
impl Gen for Ed25519DlogProof {
    fn gen(r: &mut Rng, fx: &Fx) -> Self { concordium_base::transactions::BakerAddKeysPayload::gen(r, fx).proof_sig }
}
impl Gen for concordium_base::ecvrf::Proof {
    fn gen(r: &mut Rng, _: &Fx) -> Self { concordium_base::ecvrf::Keypair::generate(&mut RandAdaptor(r)).prove(&r.bytes(16)) }
}
impl Gen for concordium_base::ecvrf::PublicKey {
    fn gen(r: &mut Rng, _: &Fx) -> Self { concordium_base::ecvrf::Keypair::generate(&mut RandAdaptor(r)).public }
}
impl Gen for concordium_base::ecvrf::SecretKey {
    fn gen(r: &mut Rng, _: &Fx) -> Self { concordium_base::ecvrf::SecretKey::generate(&mut RandAdaptor(r)) }
}
impl Gen for IdCredentials<ArCurve> {
    fn gen(r: &mut Rng, _: &Fx) -> Self { IdCredentials::generate(&mut RandAdaptor(r)) }
}
impl Gen for AccCredentialInfo<ArCurve> {
    fn gen(r: &mut Rng, _: &Fx) -> Self { concordium_base::id::test::test_create_aci(&mut RandAdaptor(r)) }
}

// ---- encrypted transfers
impl Gen for EncryptedAmountIndex {
    fn gen(r: &mut Rng, _: &Fx) -> Self { r.u64v().into() }
}
impl Gen for EncryptedAmountAggIndex {
    fn gen(r: &mut Rng, _: &Fx) -> Self { r.u64v().into() }
}
impl Gen for EncryptedAmount<ArCurve> {
    fn gen(r: &mut Rng, fx: &Fx) -> Self {
        if r.chance(1, 2) {
            r.pick(&fx.enc_amounts).clone()
        } else {
            concordium_base::encrypted_transfers::encrypt_amount(&fx.global, &elgamal::PublicKey::gen(r, fx), Gen::gen(r, fx), &mut RandAdaptor(r)).0
        }
    }
}
impl Gen for IndexedEncryptedAmount<ArCurve> {
    fn gen(r: &mut Rng, fx: &Fx) -> Self { IndexedEncryptedAmount { encrypted_chunks: Gen::gen(r, fx), index: Gen::gen(r, fx) } }
}
impl Gen for AggregatedDecryptedAmount<ArCurve> {
    fn gen(r: &mut Rng, fx: &Fx) -> Self { AggregatedDecryptedAmount { agg_encrypted_amount: Gen::gen(r, fx), agg_amount: Gen::gen(r, fx), agg_index: Gen::gen(r, fx) } }
}
impl Gen for EncryptedAmountTransferData<ArCurve> {
    fn gen(r: &mut Rng, fx: &Fx) -> Self {
        let mut d = r.pick(&fx.enc_transfers).clone();
        if r.chance(1, 2) {
            d.index = Gen::gen(r, fx);
            d.remaining_amount = Gen::gen(r, fx);
        }
        d
    }
}
impl Gen for SecToPubAmountTransferData<ArCurve> {
    fn gen(r: &mut Rng, fx: &Fx) -> Self {
        let mut d = r.pick(&fx.sec_to_pubs).clone();
        if r.chance(1, 2) {
            d.index = Gen::gen(r, fx);
            d.transfer_amount = Gen::gen(r, fx);
        }
        d
    }
}
impl Gen for EncryptedAmountTransferProof<ArCurve> {
    fn gen(r: &mut Rng, fx: &Fx) -> Self { r.pick(&fx.enc_transfers).proof.clone() }
}
impl Gen for SecToPubAmountTransferProof<ArCurve> {
    fn gen(r: &mut Rng, fx: &Fx) -> Self { r.pick(&fx.sec_to_pubs).proof.clone() }
}

pub fn register(v: &mut Vec<Entry>) {
    ent!(v, "CredentialRegistrationID", CredentialRegistrationID, eq);
    ent!(v, "IpIdentity", IpIdentity, eq);
    ent!(v, "ArIdentity", ArIdentity, eq);
    ent!(v, "AttributeTag", AttributeTag, eq);
    ent!(v, "YearMonth", YearMonth, eq);
    ent!(v, "AttributeKind", AttributeKind, eq);
    ent!(v, "Threshold", Threshold, eq);
    ent!(v, "Policy", Policy<ArCurve, AttributeKind>, eq);
    ent!(v, "AttributeList", AttributeList<BaseField, AttributeKind>, eq);
    ent!(v, "SchemeId", SchemeId, eq);
    ent!(v, "Description", Description, eq);
    ent!(v, "ArInfo", ArInfo<ArCurve>, eq);
    ent!(v, "IpInfo", IpInfo<IpPairing>, bytes, heavy = true, elem = 512);
    ent!(v, "GlobalContext", GlobalContext<ArCurve>, bytes, heavy = true, elem = 512);
    ent!(v, "IpMetadata", IpMetadata, bytes);
    ent!(v, "ChoiceArParameters", ChoiceArParameters, eq);
    ent!(v, "IpCdiSignature", IpCdiSignature, eq);
    ent!(v, "AccountOwnershipSignature", AccountOwnershipSignature, eq);
    ent!(v, "AccountOwnershipProof", AccountOwnershipProof, eq);
    ent!(v, "CredentialDeploymentInfo", Cdi, bytes, heavy = true, elem = 1024);
    ent!(v, "CredentialDeploymentValues", CredentialDeploymentValues<ArCurve, AttributeKind>, eq, heavy = true, elem = 512);
    ent!(v, "CredDeploymentProofs", CredDeploymentProofs<IpPairing, ArCurve>, bytes, heavy = true, elem = 1024);
    ent!(v, "IdOwnershipProofs", IdOwnershipProofs<IpPairing, ArCurve>, bytes, heavy = true, elem = 1024);
    ent!(v, "CredentialDeploymentCommitments", CredentialDeploymentCommitments<ArCurve>, eq, heavy = true, elem = 512);
    ent!(v, "ChainArData", ChainArData<ArCurve>, eq, heavy = true);
    ent!(v, "InitialCredentialDeploymentInfo", Icdi, bytes, heavy = true, elem = 512);
    ent!(v, "InitialCredentialDeploymentValues", InitialCredentialDeploymentValues<ArCurve, AttributeKind>, eq, heavy = true, elem = 512);
    ent!(v, "AccountCredential", AccountCredential<IpPairing, ArCurve, AttributeKind>, bytes, heavy = true, elem = 1024);
    ent!(v, "AccountCredentialMessage", AccountCredentialMessage<IpPairing, ArCurve, AttributeKind>, bytes, heavy = true, elem = 1024);
    ent!(v, "AccountCredentialWithoutProofs", AccountCredentialWithoutProofs<ArCurve, AttributeKind>, eq, heavy = true, elem = 1024);
    ent!(v, "PreIdentityObject", PreIdentityObject<IpPairing, ArCurve>, bytes, heavy = true, elem = 2048);
    ent!(v, "PreIdentityObjectV1", PreIdentityObjectV1<IpPairing, ArCurve>, eq, heavy = true, elem = 2048);
    ent!(v, "PreIdentityProof", PreIdentityProof<IpPairing, ArCurve>, bytes, heavy = true, elem = 2048);
    ent!(v, "CommonPioProofFields", CommonPioProofFields<IpPairing, ArCurve>, eq, heavy = true, elem = 2048);
    ent!(v, "PublicInformationForIp", PublicInformationForIp<ArCurve>, bytes, heavy = true);
    ent!(v, "IpArData", IpArData<ArCurve>, eq, heavy = true, elem = 1024);
    ent!(v, "elgamal::Cipher", elgamal::Cipher<ArCurve>, eq, heavy = true);
    ent!(v, "elgamal::SecretKey", elgamal::SecretKey<ArCurve>, eq, heavy = true);
    ent!(v, "elgamal::PublicKey", elgamal::PublicKey<ArCurve>, eq, heavy = true);
    ent!(v, "elgamal::Message", elgamal::Message<ArCurve>, eq, heavy = true);
    ent!(v, "pedersen::CommitmentKey", pc::CommitmentKey<ArCurve>, eq, heavy = true);
    ent!(v, "pedersen::Commitment<G1>", pc::Commitment<ArCurve>, eq, heavy = true);
    ent!(v, "pedersen::Randomness", pc::Randomness<ArCurve>, eq);
    ent!(v, "pedersen::Value", pc::Value<ArCurve>, bytes);
    ent!(v, "ps_sig::SecretKey", ps_sig::SecretKey<IpPairing>, bytes);
    ent!(v, "ps_sig::PublicKey", ps_sig::PublicKey<IpPairing>, bytes, heavy = true, elem = 512);
    ent!(v, "ps_sig::Signature", ps_sig::Signature<IpPairing>, bytes, heavy = true);
    ent!(v, "ps_sig::KnownMessage", ps_sig::KnownMessage<IpPairing>, bytes);
    ent!(v, "ps_sig::SigRetrievalRandomness", ps_sig::SigRetrievalRandomness<IpPairing>, eq);
    ent!(v, "prf::SecretKey", prf::SecretKey<ArCurve>, eq);
    ent!(v, "aggregate_sig::SecretKey", aggregate_sig::SecretKey<IpPairing>, bytes);
    ent!(v, "aggregate_sig::PublicKey", aggregate_sig::PublicKey<IpPairing>, bytes, heavy = true);
    ent!(v, "aggregate_sig::Signature", aggregate_sig::Signature<IpPairing>, bytes, heavy = true);
    ent!(v, "aggregate_sig::Proof", aggregate_sig::Proof<IpPairing>, bytes, heavy = true);
    ent!(v, "Ed25519DlogProof", Ed25519DlogProof, eq);
    ent!(v, "ecvrf::Proof", concordium_base::ecvrf::Proof, bytes);
    ent!(v, "ecvrf::PublicKey", concordium_base::ecvrf::PublicKey, bytes);
    ent!(v, "ecvrf::SecretKey", concordium_base::ecvrf::SecretKey, bytes);
    ent!(v, "IdCredentials", IdCredentials<ArCurve>, bytes);
    ent!(v, "AccCredentialInfo", AccCredentialInfo<ArCurve>, bytes);
    ent!(v, "EncryptedAmountIndex", EncryptedAmountIndex, dbg);
    ent!(v, "EncryptedAmountAggIndex", EncryptedAmountAggIndex, dbg);
    ent!(v, "EncryptedAmount", EncryptedAmount<ArCurve>, eq, heavy = true);
    ent!(v, "IndexedEncryptedAmount", IndexedEncryptedAmount<ArCurve>, bytes, heavy = true);
    ent!(v, "AggregatedDecryptedAmount", AggregatedDecryptedAmount<ArCurve>, bytes, heavy = true);
    ent!(v, "EncryptedAmountTransferData", EncryptedAmountTransferData<ArCurve>, bytes, heavy = true, elem = 1024);
    ent!(v, "SecToPubAmountTransferData", SecToPubAmountTransferData<ArCurve>, bytes, heavy = true, elem = 1024);
    ent!(v, "EncryptedAmountTransferProof", EncryptedAmountTransferProof<ArCurve>, bytes, heavy = true, elem = 1024);
    ent!(v, "SecToPubAmountTransferProof", SecToPubAmountTransferProof<ArCurve>, bytes, heavy = true, elem = 1024);
    let _ = (dec_as::<u8>, roundtrip::<u8>);
}
