//! C05 generators: transactions.rs, updates.rs, smart_contracts.rs, protocol-level token ids.
#![allow(deprecated)]
use crate::{
    c05::{dec_as, roundtrip, Entry},
    c05_gen::{ent, keypair, small_len, Fx, Gen},
    util::{self, RandAdaptor},
};
use concordium_base::{
    base::*,
    common::types::{CredentialIndex, KeyIndex, Ratio, TransactionSignaturesV1, TransactionTime},
    contracts_common::{AccountAddress, AccountThreshold, Amount, Duration, ExchangeRate, SignatureThreshold, Timestamp},
    id::types::{AccountCredentialMessage, AccountKeys, CredentialPublicKeys, VerifyKey},
    protocol_level_tokens::{RawCbor, TokenId, TokenModuleRef, TokenOperationsPayload},
    smart_contracts::{ModuleSource, WasmModule, WasmVersion},
    transactions::{construct::*, *},
    updates::*,
};
use std::collections::{BTreeMap, BTreeSet};
use vmon_core::Rng;

// ---------------------------------------------------------------- smart contracts / PLT
impl Gen for WasmVersion {
    fn gen(r: &mut Rng, _: &Fx) -> Self { *r.pick(&[WasmVersion::V0, WasmVersion::V1]) }
}
impl Gen for ModuleSource {
    fn gen(r: &mut Rng, _: &Fx) -> Self {
        let n = match r.below(40) {
            0 => 8 * 65536,
            1 => r.range(5000, 8 * 65536) as usize,
            _ => small_len(r),
        };
        ModuleSource::from(r.bytes(n))
    }
}
impl Gen for WasmModule {
    fn gen(r: &mut Rng, fx: &Fx) -> Self { WasmModule { version: Gen::gen(r, fx), source: Gen::gen(r, fx) } }
}
impl Gen for TokenId {
    fn gen(r: &mut Rng, _: &Fx) -> Self {
        const P: &[u8] = b"abcdefghijklmnopqrstuvwxyzABCDEFGHIJKLMNOPQRSTUVWXYZ0123456789-.%";
        let n = match r.below(8) {
            0 => 1,
            1 => 128,
            _ => r.range(1, 12) as usize,
        };
        let s: String = (0..n).map(|_| P[r.below(P.len() as u64) as usize] as char).collect();
        TokenId::try_from(s).expect("valid token id")
    }
}
impl Gen for RawCbor {
    fn gen(r: &mut Rng, _: &Fx) -> Self {
        let n = if r.chance(1, 30) { r.range(5000, 70000) as usize } else { small_len(r) };
        RawCbor::from(r.bytes(n))
    }
}

// ---------------------------------------------------------------- keys / access structures
impl Gen for VerifyKey {
    fn gen(r: &mut Rng, _: &Fx) -> Self { VerifyKey::from(&keypair(r)) }
}
impl Gen for CredentialPublicKeys {
    fn gen(r: &mut Rng, fx: &Fx) -> Self {
        let n = r.range(1, 4);
        let mut keys = BTreeMap::new();
        while (keys.len() as u64) < n {
            keys.insert(KeyIndex::gen(r, fx), VerifyKey::gen(r, fx));
        }
        CredentialPublicKeys { keys, threshold: SignatureThreshold::try_from(r.range(1, n) as u8).unwrap() }
    }
}
impl Gen for AccountAccessStructure {
    fn gen(r: &mut Rng, fx: &Fx) -> Self {
        if r.chance(1, 4) {
            return AccountAccessStructure::singleton(keypair(r).public());
        }
        let n = r.range(1, 3);
        let mut keys = BTreeMap::new();
        while (keys.len() as u64) < n {
            keys.insert(CredentialIndex::gen(r, fx), CredentialPublicKeys::gen(r, fx));
        }
        AccountAccessStructure { keys, threshold: AccountThreshold::try_from(r.range(1, n) as u8).unwrap() }
    }
}
pub fn account_keys(r: &mut Rng) -> AccountKeys {
    let ncred = r.range(1, 2) as u8;
    let kis: Vec<Vec<KeyIndex>> = (0..ncred).map(|_| (0..r.range(1, 2) as u8).map(|k| KeyIndex(k * 5)).collect()).collect();
    let spec: Vec<(CredentialIndex, SignatureThreshold, &[KeyIndex])> = kis.iter().enumerate().map(|(i, k)| (CredentialIndex { index: i as u8 * 3 }, SignatureThreshold::try_from(k.len() as u8).unwrap(), &k[..])).collect();
    AccountKeys::generate(AccountThreshold::try_from(ncred).unwrap(), &spec, &mut RandAdaptor(r))
}

// ---------------------------------------------------------------- transactions.rs
impl Gen for Memo {
    fn gen(r: &mut Rng, _: &Fx) -> Self {
        let n = match r.below(8) {
            0 => 256,
            1 => 0,
            _ => r.below(257) as usize,
        };
        Memo::try_from(r.bytes(n)).expect("memo within bounds")
    }
}
impl Gen for RegisteredData {
    fn gen(r: &mut Rng, _: &Fx) -> Self {
        let n = match r.below(8) {
            0 => 256,
            1 => 0,
            _ => r.below(257) as usize,
        };
        RegisteredData::try_from(r.bytes(n)).expect("data within bounds")
    }
}
impl Gen for PayloadSize {
    fn gen(r: &mut Rng, _: &Fx) -> Self {
        let max = concordium_base::constants::MAX_PAYLOAD_SIZE;
        PayloadSize::from(match r.below(4) {
            0 => 0,
            1 => max,
            _ => r.below(max as u64 + 1) as u32,
        })
    }
}
impl Gen for TransactionHeader {
    fn gen(r: &mut Rng, fx: &Fx) -> Self { TransactionHeader { sender: Gen::gen(r, fx), nonce: Gen::gen(r, fx), energy_amount: Gen::gen(r, fx), payload_size: Gen::gen(r, fx), expiry: Gen::gen(r, fx) } }
}
impl Gen for TransactionHeaderV1 {
    fn gen(r: &mut Rng, fx: &Fx) -> Self { TransactionHeaderV1 { sender: Gen::gen(r, fx), nonce: Gen::gen(r, fx), energy_amount: Gen::gen(r, fx), payload_size: Gen::gen(r, fx), expiry: Gen::gen(r, fx), sponsor: Gen::gen(r, fx) } }
}
impl Gen for BakerAddKeysPayload {
    fn gen(r: &mut Rng, fx: &Fx) -> Self { BakerAddKeysPayload::new(&BakerKeyPairs::gen(r, fx), Gen::gen(r, fx), &mut RandAdaptor(r)) }
}
impl Gen for BakerUpdateKeysPayload {
    fn gen(r: &mut Rng, fx: &Fx) -> Self { BakerUpdateKeysPayload::new(&BakerKeyPairs::gen(r, fx), Gen::gen(r, fx), &mut RandAdaptor(r)) }
}
impl Gen for ConfigureBakerKeysPayload {
    fn gen(r: &mut Rng, fx: &Fx) -> Self { ConfigureBakerKeysPayload::new(&BakerKeyPairs::gen(r, fx), Gen::gen(r, fx), &mut RandAdaptor(r)) }
}
impl Gen for AddBakerPayload {
    fn gen(r: &mut Rng, fx: &Fx) -> Self {
        let keys = BakerKeyPairs::gen(r, fx);
        AddBakerPayload { keys: BakerAddKeysPayload::new(&keys, Gen::gen(r, fx), &mut RandAdaptor(r)), baking_stake: Gen::gen(r, fx), restake_earnings: Gen::gen(r, fx) }
    }
}
impl Gen for InitContractPayload {
    fn gen(r: &mut Rng, fx: &Fx) -> Self { InitContractPayload { amount: Gen::gen(r, fx), mod_ref: Gen::gen(r, fx), init_name: Gen::gen(r, fx), param: Gen::gen(r, fx) } }
}
impl Gen for UpdateContractPayload {
    fn gen(r: &mut Rng, fx: &Fx) -> Self { UpdateContractPayload { amount: Gen::gen(r, fx), address: Gen::gen(r, fx), receive_name: Gen::gen(r, fx), message: Gen::gen(r, fx) } }
}
fn schedule(r: &mut Rng, fx: &Fx) -> Vec<(Timestamp, Amount)> {
    let n = match r.below(10) {
        0 => 255,
        1 => 0,
        _ => r.range(1, 6),
    };
    (0..n).map(|_| Gen::gen(r, fx)).collect()
}
impl Gen for ConfigureBakerPayload {
    fn gen(r: &mut Rng, fx: &Fx) -> Self {
        let mut p = ConfigureBakerPayload::new();
        let all = r.chance(1, 8);
        if all || r.chance(1, 2) {
            p.set_capital(Gen::gen(r, fx));
        }
        if all || r.chance(1, 2) {
            p.set_restake_earnings(Gen::gen(r, fx));
        }
        if all || r.chance(1, 2) {
            p.set_open_for_delegation(Gen::gen(r, fx));
        }
        if all || r.chance(1, 6) {
            let keys = BakerKeyPairs::gen(r, fx);
            p.add_keys(&keys, Gen::gen(r, fx), &mut RandAdaptor(r));
        }
        if all || r.chance(1, 2) {
            p.set_metadata_url(Gen::gen(r, fx));
        }
        if all || r.chance(1, 2) {
            p.set_transaction_fee_commission(Gen::gen(r, fx));
        }
        if all || r.chance(1, 2) {
            p.set_baking_reward_commission(Gen::gen(r, fx));
        }
        if all || r.chance(1, 2) {
            p.set_finalization_reward_commission(Gen::gen(r, fx));
        }
        if all || r.chance(1, 2) {
            p.set_suspend(Gen::gen(r, fx));
        }
        p
    }
}
impl Gen for ConfigureDelegationPayload {
    fn gen(r: &mut Rng, fx: &Fx) -> Self {
        let mut p = ConfigureDelegationPayload::new();
        if r.chance(1, 2) {
            p.set_capital(Gen::gen(r, fx));
        }
        if r.chance(1, 2) {
            p.set_restake_earnings(Gen::gen(r, fx));
        }
        if r.chance(1, 2) {
            p.set_delegation_target(Gen::gen(r, fx));
        }
        p
    }
}
pub const PAYLOAD_VARIANTS: usize = 22;
pub fn payload_variant(which: usize, r: &mut Rng, fx: &Fx) -> (Payload, &'static str) {
    match which {
        0 => (Payload::DeployModule { module: Gen::gen(r, fx) }, "DeployModule"),
        1 => (Payload::InitContract { payload: Gen::gen(r, fx) }, "InitContract"),
        2 => (Payload::Update { payload: Gen::gen(r, fx) }, "Update"),
        3 => (Payload::Transfer { to_address: Gen::gen(r, fx), amount: Gen::gen(r, fx) }, "Transfer"),
        4 => (Payload::AddBaker { payload: Gen::gen(r, fx) }, "AddBaker"),
        5 => (Payload::RemoveBaker, "RemoveBaker"),
        6 => (Payload::UpdateBakerStake { stake: Gen::gen(r, fx) }, "UpdateBakerStake"),
        7 => (Payload::UpdateBakerRestakeEarnings { restake_earnings: Gen::gen(r, fx) }, "UpdateBakerRestakeEarnings"),
        8 => {
            let keys = BakerKeyPairs::gen(r, fx);
            (Payload::UpdateBakerKeys { payload: Box::new(BakerUpdateKeysPayload::new(&keys, Gen::gen(r, fx), &mut RandAdaptor(r))) }, "UpdateBakerKeys")
        }
        9 => (Payload::UpdateCredentialKeys { cred_id: Gen::gen(r, fx), keys: Gen::gen(r, fx) }, "UpdateCredentialKeys"),
        10 => (Payload::EncryptedAmountTransfer { to: Gen::gen(r, fx), data: Box::new(r.pick(&fx.enc_transfers).clone()) }, "EncryptedAmountTransfer"),
        11 => (Payload::TransferToEncrypted { amount: Gen::gen(r, fx) }, "TransferToEncrypted"),
        12 => (Payload::TransferToPublic { data: Box::new(r.pick(&fx.sec_to_pubs).clone()) }, "TransferToPublic"),
        13 => (Payload::TransferWithSchedule { to: Gen::gen(r, fx), schedule: schedule(r, fx) }, "TransferWithSchedule"),
        14 => {
            let n = r.below(3);
            let mut new_cred_infos = BTreeMap::new();
            while (new_cred_infos.len() as u64) < n {
                new_cred_infos.insert(CredentialIndex::gen(r, fx), r.pick(&fx.cdis).clone());
            }
            let remove_cred_ids = (0..r.below(4)).map(|_| Gen::gen(r, fx)).collect();
            (Payload::UpdateCredentials { new_cred_infos, remove_cred_ids, new_threshold: Gen::gen(r, fx) }, "UpdateCredentials")
        }
        15 => (Payload::RegisterData { data: Gen::gen(r, fx) }, "RegisterData"),
        16 => (Payload::TransferWithMemo { to_address: Gen::gen(r, fx), memo: Gen::gen(r, fx), amount: Gen::gen(r, fx) }, "TransferWithMemo"),
        17 => (Payload::EncryptedAmountTransferWithMemo { to: Gen::gen(r, fx), memo: Gen::gen(r, fx), data: Box::new(r.pick(&fx.enc_transfers).clone()) }, "EncryptedAmountTransferWithMemo"),
        18 => (Payload::TransferWithScheduleAndMemo { to: Gen::gen(r, fx), memo: Gen::gen(r, fx), schedule: schedule(r, fx) }, "TransferWithScheduleAndMemo"),
        19 => (Payload::ConfigureBaker { data: Gen::gen(r, fx) }, "ConfigureBaker"),
        20 => (Payload::ConfigureDelegation { data: Gen::gen(r, fx) }, "ConfigureDelegation"),
        _ => (Payload::TokenUpdate { payload: TokenOperationsPayload { token_id: Gen::gen(r, fx), operations: Gen::gen(r, fx) } }, "TokenUpdate"),
    }
}
impl Gen for Payload {
    fn gen(r: &mut Rng, fx: &Fx) -> Self { Self::gen_v(r, fx).0 }

    fn gen_v(r: &mut Rng, fx: &Fx) -> (Self, String) {
        let w = r.below(PAYLOAD_VARIANTS as u64) as usize;
        let (p, n) = payload_variant(w, r, fx);
        (p, n.into())
    }
}
/// payloads that are cheap to build and small (for whole transactions)
fn light_payload(r: &mut Rng, fx: &Fx) -> (Payload, &'static str) {
    let w = *r.pick(&[1usize, 2, 3, 5, 6, 7, 9, 11, 13, 15, 16, 18, 19, 20, 21, 0, 12]);
    payload_variant(w, r, fx)
}
fn pre_tx(r: &mut Rng, fx: &Fx) -> (PreAccountTransaction, &'static str) {
    let (payload, name) = light_payload(r, fx);
    // bounded: the builders add fixed costs to the energy with a plain `+`
    let energy = if r.chance(1, 2) { GivenEnergy::Absolute(Energy::from(r.below(1 << 48))) } else { GivenEnergy::Add { energy: Energy::from(r.below(100_000)), num_sigs: r.range(1, 4) as u32 } };
    (make_transaction(Gen::gen(r, fx), Gen::gen(r, fx), Gen::gen(r, fx), energy, payload), name)
}
impl Gen for PreAccountTransaction {
    fn gen(r: &mut Rng, fx: &Fx) -> Self { pre_tx(r, fx).0 }

    fn gen_v(r: &mut Rng, fx: &Fx) -> (Self, String) {
        let (t, n) = pre_tx(r, fx);
        (t, n.into())
    }
}
impl Gen for AccountTransaction<EncodedPayload> {
    fn gen(r: &mut Rng, fx: &Fx) -> Self { Self::gen_v(r, fx).0 }

    fn gen_v(r: &mut Rng, fx: &Fx) -> (Self, String) {
        let (t, n) = pre_tx(r, fx);
        (t.sign(&account_keys(r)), n.into())
    }
}
impl Gen for AccountTransaction<Payload> {
    fn gen(r: &mut Rng, fx: &Fx) -> Self { Self::gen_v(r, fx).0 }

    fn gen_v(r: &mut Rng, fx: &Fx) -> (Self, String) {
        let (t, n) = pre_tx(r, fx);
        (sign_transaction(&account_keys(r), t.header, t.payload), n.into())
    }
}
fn tx_v1(r: &mut Rng, fx: &Fx) -> (AccountTransactionV1<EncodedPayload>, Payload, String) {
    let (t, n) = pre_tx(r, fx);
    let payload = t.payload.clone();
    let mut v1 = t.extend();
    let sponsored = r.chance(1, 2);
    if sponsored {
        v1.add_sponsor(Gen::gen(r, fx), r.range(1, 3) as u32).expect("no sponsor yet");
    }
    v1.sign(&account_keys(r));
    if sponsored && r.chance(3, 4) {
        v1.sponsor(&account_keys(r)).expect("sponsor present");
    }
    let s = format!("{}.{}", n, if v1.sponsor_signature.is_some() { "sponsored" } else if sponsored { "sponsor-unsigned" } else { "unsponsored" });
    (v1.finalize().expect("sender signed"), payload, s)
}
impl Gen for AccountTransactionV1<EncodedPayload> {
    fn gen(r: &mut Rng, fx: &Fx) -> Self { Self::gen_v(r, fx).0 }

    fn gen_v(r: &mut Rng, fx: &Fx) -> (Self, String) {
        let (t, _, n) = tx_v1(r, fx);
        (t, n)
    }
}
impl Gen for AccountTransactionV1<Payload> {
    fn gen(r: &mut Rng, fx: &Fx) -> Self { Self::gen_v(r, fx).0 }

    fn gen_v(r: &mut Rng, fx: &Fx) -> (Self, String) {
        let (t, p, n) = tx_v1(r, fx);
        (AccountTransactionV1 { signatures: t.signatures, header: t.header, payload: p }, n)
    }
}
impl Gen for BlockItem<EncodedPayload> {
    fn gen(r: &mut Rng, fx: &Fx) -> Self { Self::gen_v(r, fx).0 }

    fn gen_v(r: &mut Rng, fx: &Fx) -> (Self, String) {
        match r.below(8) {
            0..=2 => (BlockItem::AccountTransaction(Gen::gen(r, fx)), "AccountTransaction".into()),
            3 => (BlockItem::CredentialDeployment(Box::new(AccountCredentialMessage::gen(r, fx))), "CredentialDeployment".into()),
            4 | 5 => (BlockItem::UpdateInstruction(Gen::gen(r, fx)), "UpdateInstruction".into()),
            _ => (BlockItem::AccountTransactionV1(Gen::gen(r, fx)), "AccountTransactionV1".into()),
        }
    }
}

// ---------------------------------------------------------------- updates.rs
impl Gen for ProtocolUpdate {
    fn gen(r: &mut Rng, fx: &Fx) -> Self {
        let big = r.chance(1, 30);
        let mut s = |r: &mut Rng| {
            let n = if big && r.chance(1, 2) { r.range(4090, 6000) as usize } else { small_len(r) };
            util::unicode(r, n)
        };
        let message = s(r);
        let specification_url = s(r);
        let n = if r.chance(1, 30) { r.range(4090, 6000) as usize } else { small_len(r) };
        ProtocolUpdate { message, specification_url, specification_hash: Gen::gen(r, fx), specification_auxiliary_data: r.bytes(n) }
    }
}
fn fractions_summing(r: &mut Rng, n: usize) -> Vec<AmountFraction> {
    let mut left = 100_000u64;
    (0..n)
        .map(|_| {
            let x = r.below(left + 1);
            left -= x;
            AmountFraction::new(x as u32).unwrap()
        })
        .collect()
}
impl Gen for TransactionFeeDistribution {
    fn gen(r: &mut Rng, _: &Fx) -> Self {
        let f = fractions_summing(r, 2);
        TransactionFeeDistribution { baker: f[0], gas_account: f[1] }
    }
}
impl Gen for GASRewards {
    fn gen(r: &mut Rng, fx: &Fx) -> Self { GASRewards { baker: Gen::gen(r, fx), finalization_proof: Gen::gen(r, fx), account_creation: Gen::gen(r, fx), chain_update: Gen::gen(r, fx) } }
}
impl Gen for GASRewardsV1 {
    fn gen(r: &mut Rng, fx: &Fx) -> Self { GASRewardsV1 { baker: Gen::gen(r, fx), account_creation: Gen::gen(r, fx), chain_update: Gen::gen(r, fx) } }
}
impl<K> Gen for HigherLevelAccessStructure<K> {
    fn gen(r: &mut Rng, fx: &Fx) -> Self {
        let n = r.range(1, 5);
        HigherLevelAccessStructure { keys: (0..n).map(|_| Gen::gen(r, fx)).collect(), threshold: UpdateKeysThreshold::try_from(r.range(1, n) as u16).unwrap(), _phantom: Default::default() }
    }
}
impl Gen for AccessStructure {
    fn gen(r: &mut Rng, fx: &Fx) -> Self {
        let n = r.range(1, 5);
        let mut authorized_keys = BTreeSet::new();
        while (authorized_keys.len() as u64) < n {
            authorized_keys.insert(if r.chance(1, 2) { UpdateKeysIndex { index: r.below(8) as u16 } } else { Gen::gen(r, fx) });
        }
        AccessStructure { authorized_keys, threshold: UpdateKeysThreshold::try_from(r.range(1, n) as u16).unwrap() }
    }
}
impl Gen for AuthorizationsV0 {
    fn gen(r: &mut Rng, fx: &Fx) -> Self {
        AuthorizationsV0 {
            keys: (0..r.range(1, 5)).map(|_| Gen::gen(r, fx)).collect(),
            emergency: Gen::gen(r, fx),
            protocol: Gen::gen(r, fx),
            election_difficulty: Gen::gen(r, fx),
            euro_per_energy: Gen::gen(r, fx),
            micro_gtu_per_euro: Gen::gen(r, fx),
            foundation_account: Gen::gen(r, fx),
            mint_distribution: Gen::gen(r, fx),
            transaction_fee_distribution: Gen::gen(r, fx),
            param_gas_rewards: Gen::gen(r, fx),
            pool_parameters: Gen::gen(r, fx),
            add_anonymity_revoker: Gen::gen(r, fx),
            add_identity_provider: Gen::gen(r, fx),
        }
    }
}
fn auth_v1(r: &mut Rng, fx: &Fx, plt: bool) -> Box<AuthorizationsV1> {
    Box::new(AuthorizationsV1 { v0: Gen::gen(r, fx), cooldown_parameters: Gen::gen(r, fx), time_parameters: Gen::gen(r, fx), create_plt: if plt { Some(Gen::gen(r, fx)) } else { None } })
}
impl Gen for RootUpdate {
    fn gen(r: &mut Rng, fx: &Fx) -> Self { Self::gen_v(r, fx).0 }

    fn gen_v(r: &mut Rng, fx: &Fx) -> (Self, String) {
        match r.below(5) {
            0 => (RootUpdate::RootKeysUpdate(Gen::gen(r, fx)), "RootKeysUpdate".into()),
            1 => (RootUpdate::Level1KeysUpdate(Gen::gen(r, fx)), "Level1KeysUpdate".into()),
            2 => (RootUpdate::Level2KeysUpdate(Gen::gen(r, fx)), "Level2KeysUpdate".into()),
            // documented: V1 must have create_plt == None, V2 must have Some
            3 => (RootUpdate::Level2KeysUpdateV1(auth_v1(r, fx, false)), "Level2KeysUpdateV1".into()),
            _ => (RootUpdate::Level2KeysUpdateV2(auth_v1(r, fx, true)), "Level2KeysUpdateV2".into()),
        }
    }
}
impl Gen for Level1Update {
    fn gen(r: &mut Rng, fx: &Fx) -> Self { Self::gen_v(r, fx).0 }

    fn gen_v(r: &mut Rng, fx: &Fx) -> (Self, String) {
        match r.below(4) {
            0 => (Level1Update::Level1KeysUpdate(Gen::gen(r, fx)), "Level1KeysUpdate".into()),
            1 => (Level1Update::Level2KeysUpdate(Gen::gen(r, fx)), "Level2KeysUpdate".into()),
            2 => (Level1Update::Level2KeysUpdateV1(auth_v1(r, fx, false)), "Level2KeysUpdateV1".into()),
            _ => (Level1Update::Level2KeysUpdateV2(auth_v1(r, fx, true)), "Level2KeysUpdateV2".into()),
        }
    }
}
impl Gen for BakerParameters {
    fn gen(r: &mut Rng, fx: &Fx) -> Self { BakerParameters { minimum_threshold_for_baking: Gen::gen(r, fx) } }
}
impl Gen for CooldownParameters {
    fn gen(r: &mut Rng, fx: &Fx) -> Self { CooldownParameters { pool_owner_cooldown: Gen::gen(r, fx), delegator_cooldown: Gen::gen(r, fx) } }
}
impl Gen for TimeoutParameters {
    fn gen(r: &mut Rng, fx: &Fx) -> Self {
        loop {
            let a = r.range(1, 1000);
            let inc = Ratio::new(a + r.range(1, 1000), a);
            let d = r.range(2, 1000);
            let dec = Ratio::new(r.range(1, d - 1), d);
            if let (Ok(i), Ok(d)) = (inc, dec) {
                if let Ok(t) = TimeoutParameters::new(Duration::gen(r, fx), i, d) {
                    return t;
                }
            }
        }
    }
}
impl Gen for RewardPeriodLength {
    fn gen(r: &mut Rng, fx: &Fx) -> Self { RewardPeriodLength::from(Epoch::gen(r, fx)) }
}
impl Gen for TimeParameters {
    fn gen(r: &mut Rng, fx: &Fx) -> Self { TimeParameters { reward_period_length: Gen::gen(r, fx), mint_per_payday: Gen::gen(r, fx) } }
}
impl Gen for PoolParameters {
    fn gen(r: &mut Rng, fx: &Fx) -> Self {
        PoolParameters {
            passive_finalization_commission: Gen::gen(r, fx),
            passive_baking_commission: Gen::gen(r, fx),
            passive_transaction_commission: Gen::gen(r, fx),
            commission_bounds: Gen::gen(r, fx),
            minimum_equity_capital: Gen::gen(r, fx),
            capital_bound: Gen::gen(r, fx),
            leverage_bound: Gen::gen(r, fx),
        }
    }
}
impl Gen for FinalizationCommitteeParameters {
    fn gen(r: &mut Rng, fx: &Fx) -> Self { FinalizationCommitteeParameters { min_finalizers: Gen::gen(r, fx), max_finalizers: Gen::gen(r, fx), finalizers_relative_stake_threshold: Gen::gen(r, fx) } }
}
impl Gen for ValidatorScoreParameters {
    fn gen(r: &mut Rng, fx: &Fx) -> Self { ValidatorScoreParameters { max_missed_rounds: Gen::gen(r, fx) } }
}
impl Gen for CreatePlt {
    fn gen(r: &mut Rng, fx: &Fx) -> Self { CreatePlt { token_id: Gen::gen(r, fx), token_module: TokenModuleRef::gen(r, fx), decimals: Gen::gen(r, fx), initialization_parameters: Gen::gen(r, fx) } }
}
pub const UPDATE_VARIANTS: u64 = 24;
impl Gen for UpdatePayload {
    fn gen(r: &mut Rng, fx: &Fx) -> Self { Self::gen_v(r, fx).0 }

    fn gen_v(r: &mut Rng, fx: &Fx) -> (Self, String) {
        let (p, n): (UpdatePayload, &str) = match r.below(UPDATE_VARIANTS) {
            0 => (UpdatePayload::Protocol(Gen::gen(r, fx)), "Protocol"),
            1 => (UpdatePayload::ElectionDifficulty(Gen::gen(r, fx)), "ElectionDifficulty"),
            2 => (UpdatePayload::EuroPerEnergy(ExchangeRate::gen(r, fx)), "EuroPerEnergy"),
            3 => (UpdatePayload::MicroGTUPerEuro(ExchangeRate::gen(r, fx)), "MicroGTUPerEuro"),
            4 => (UpdatePayload::FoundationAccount(AccountAddress::gen(r, fx)), "FoundationAccount"),
            5 => (UpdatePayload::MintDistribution(Gen::gen(r, fx)), "MintDistribution"),
            6 => (UpdatePayload::TransactionFeeDistribution(Gen::gen(r, fx)), "TransactionFeeDistribution"),
            7 => (UpdatePayload::GASRewards(Gen::gen(r, fx)), "GASRewards"),
            8 => (UpdatePayload::BakerStakeThreshold(Gen::gen(r, fx)), "BakerStakeThreshold"),
            9 => (UpdatePayload::Root(Gen::gen(r, fx)), "Root"),
            10 => (UpdatePayload::Level1(Gen::gen(r, fx)), "Level1"),
            11 => (UpdatePayload::AddAnonymityRevoker(Box::new(Gen::gen(r, fx))), "AddAnonymityRevoker"),
            12 => (UpdatePayload::AddIdentityProvider(Box::new(Gen::gen(r, fx))), "AddIdentityProvider"),
            13 => (UpdatePayload::CooldownParametersCPV1(Gen::gen(r, fx)), "CooldownParametersCPV1"),
            14 => (UpdatePayload::PoolParametersCPV1(Gen::gen(r, fx)), "PoolParametersCPV1"),
            15 => (UpdatePayload::TimeParametersCPV1(Gen::gen(r, fx)), "TimeParametersCPV1"),
            16 => (UpdatePayload::MintDistributionCPV1(Gen::gen(r, fx)), "MintDistributionCPV1"),
            17 => (UpdatePayload::GASRewardsCPV2(Gen::gen(r, fx)), "GASRewardsCPV2"),
            18 => (UpdatePayload::TimeoutParametersCPV2(Gen::gen(r, fx)), "TimeoutParametersCPV2"),
            19 => (UpdatePayload::MinBlockTimeCPV2(Duration::gen(r, fx)), "MinBlockTimeCPV2"),
            20 => (UpdatePayload::BlockEnergyLimitCPV2(Energy::gen(r, fx)), "BlockEnergyLimitCPV2"),
            21 => (UpdatePayload::FinalizationCommitteeParametersCPV2(Gen::gen(r, fx)), "FinalizationCommitteeParametersCPV2"),
            22 => (UpdatePayload::ValidatorScoreParametersCPV3(Gen::gen(r, fx)), "ValidatorScoreParametersCPV3"),
            _ => (UpdatePayload::CreatePlt(Gen::gen(r, fx)), "CreatePlt"),
        };
        (p, n.into())
    }
}
impl Gen for UpdateHeader {
    fn gen(r: &mut Rng, fx: &Fx) -> Self { UpdateHeader { seq_number: Gen::gen(r, fx), effective_time: Gen::gen(r, fx), timeout: Gen::gen(r, fx), payload_size: Gen::gen(r, fx) } }
}
fn update_signer(r: &mut Rng) -> BTreeMap<UpdateKeysIndex, UpdateKeyPair> {
    let n = r.range(1, 3);
    let mut m = BTreeMap::new();
    while (m.len() as u64) < n {
        m.insert(UpdateKeysIndex { index: r.u64v() as u16 }, UpdateKeyPair::generate(&mut RandAdaptor(r)));
    }
    m
}
impl Gen for UpdateInstructionSignature {
    fn gen(r: &mut Rng, _: &Fx) -> Self {
        let h = concordium_base::hashes::UpdateSignHash::new([r.next() as u8; 32]);
        update_signer(r).sign_update_hash(&h)
    }
}
impl Gen for UpdateInstruction {
    fn gen(r: &mut Rng, fx: &Fx) -> Self { Self::gen_v(r, fx).0 }

    fn gen_v(r: &mut Rng, fx: &Fx) -> (Self, String) {
        let (p, n) = UpdatePayload::gen_v(r, fx);
        let t: TransactionTime = Gen::gen(r, fx);
        (update::update(update_signer(r), Gen::gen(r, fx), Gen::gen(r, fx), t, p), n)
    }
}

pub fn register(v: &mut Vec<Entry>) {
    // --- smart_contracts.rs / protocol_level_tokens
    ent!(v, "WasmVersion", WasmVersion, eq);
    ent!(v, "ModuleSource", ModuleSource, eq);
    ent!(v, "WasmModule", WasmModule, eq);
    ent!(v, "TokenId", TokenId, eq);
    ent!(v, "RawCbor", RawCbor, eq);
    ent!(v, "TokenModuleRef", TokenModuleRef, eq);
    // --- transactions.rs
    ent!(v, "VerifyKey", VerifyKey, eq);
    ent!(v, "CredentialPublicKeys", CredentialPublicKeys, eq);
    ent!(v, "AccountAccessStructure", AccountAccessStructure, eq);
    ent!(v, "Memo", Memo, eq);
    ent!(v, "RegisteredData", RegisteredData, dbg);
    ent!(v, "PayloadSize", PayloadSize, eq);
    ent!(v, "TransactionHeader", TransactionHeader, dbg);
    ent!(v, "TransactionHeaderV1", TransactionHeaderV1, eq, bitmap_at = Some(0));
    ent!(v, "BakerKeysPayload<AddBaker>", BakerAddKeysPayload, bytes, heavy = true);
    ent!(v, "BakerKeysPayload<UpdateKeys>", BakerUpdateKeysPayload, bytes, heavy = true);
    ent!(v, "BakerKeysPayload<Configure>", ConfigureBakerKeysPayload, bytes, heavy = true);
    ent!(v, "AddBakerPayload", AddBakerPayload, bytes, heavy = true);
    ent!(v, "InitContractPayload", InitContractPayload, dbg);
    ent!(v, "UpdateContractPayload", UpdateContractPayload, dbg);
    ent!(v, "Payload", Payload, bytes, elem = 4096);
    ent!(v, "PreAccountTransaction", PreAccountTransaction, bytes, elem = 4096);
    ent!(v, "AccountTransaction<EncodedPayload>", AccountTransaction<EncodedPayload>, bytes);
    ent!(v, "AccountTransaction<Payload>", AccountTransaction<Payload>, bytes, elem = 4096);
    ent!(v, "AccountTransactionV1<EncodedPayload>", AccountTransactionV1<EncodedPayload>, eq);
    ent!(v, "AccountTransactionV1<Payload>", AccountTransactionV1<Payload>, bytes, elem = 4096);
    ent!(v, "BlockItem<EncodedPayload>", BlockItem<EncodedPayload>, bytes, elem = 4096);
    // --- updates.rs
    ent!(v, "ProtocolUpdate", ProtocolUpdate, eq);
    ent!(v, "TransactionFeeDistribution", TransactionFeeDistribution, dbg);
    ent!(v, "GASRewards", GASRewards, dbg);
    ent!(v, "GASRewardsV1", GASRewardsV1, dbg);
    ent!(v, "RootUpdate", RootUpdate, bytes);
    ent!(v, "Level1Update", Level1Update, bytes);
    ent!(v, "HigherLevelAccessStructure<Root>", HigherLevelAccessStructure<RootKeysKind>, eq);
    ent!(v, "HigherLevelAccessStructure<Level1>", HigherLevelAccessStructure<Level1KeysKind>, eq);
    ent!(v, "AccessStructure", AccessStructure, eq);
    ent!(v, "AuthorizationsV0", AuthorizationsV0, bytes);
    ent!(v, "BakerParameters", BakerParameters, dbg);
    ent!(v, "CooldownParameters", CooldownParameters, dbg);
    ent!(v, "TimeoutParameters", TimeoutParameters, dbg);
    ent!(v, "RewardPeriodLength", RewardPeriodLength, eq);
    ent!(v, "TimeParameters", TimeParameters, dbg);
    ent!(v, "PoolParameters", PoolParameters, dbg);
    ent!(v, "FinalizationCommitteeParameters", FinalizationCommitteeParameters, dbg);
    ent!(v, "ValidatorScoreParameters", ValidatorScoreParameters, dbg);
    ent!(v, "CreatePlt", CreatePlt, dbg);
    ent!(v, "UpdatePayload", UpdatePayload, bytes, elem = 1024);
    ent!(v, "UpdateHeader", UpdateHeader, dbg);
    ent!(v, "UpdateInstructionSignature", UpdateInstructionSignature, dbg);
    ent!(v, "UpdateInstruction", UpdateInstruction, dbg);
    // Payload sub-decoders with a bitmap: pinned variants so that the 16-bit sweep hits them
    {
        let mut e = Entry {
            name: "Payload::ConfigureBaker",
            elem: 4096,
            heavy: false,
            bitmap_at: Some(1),
            set_like: false,
            gen: |r, fx| {
                let p = Payload::ConfigureBaker { data: Gen::gen(r, fx) };
                roundtrip::<Payload>(&p, |_, _| true, "ConfigureBaker".into())
            },
            dec: dec_as::<Payload>,
        };
        v.push(std::mem::replace(
            &mut e,
            Entry {
                name: "Payload::ConfigureDelegation",
                elem: 4096,
                heavy: false,
                bitmap_at: Some(1),
                set_like: false,
                gen: |r, fx| {
                    let p = Payload::ConfigureDelegation { data: Gen::gen(r, fx) };
                    roundtrip::<Payload>(&p, |a, b| format!("{:?}", a) == format!("{:?}", b), "ConfigureDelegation".into())
                },
                dec: dec_as::<Payload>,
            },
        ));
        v.push(e);
    }
}
