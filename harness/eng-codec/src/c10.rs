//! C10: schema-directed JSON <-> binary conversion (`schema.rs`,
//! `schema_json.rs` of concordium-contracts-common) is faithful and total;
//! schemas round-trip through their binary forms.
//!
//! For a generated schema `Type` (nesting <= 32) one recursive generator draws
//! primitive values and derives from them, side by side, (a) the JSON that is
//! given to `serial_value`, (b) the JSON that `to_json` must return (the
//! documented normal forms: RFC 3339 timestamps, "Nd Nh Nm Ns Nms" durations,
//! decimal strings for 128-bit/LEB128 integers and amounts, base58check
//! account addresses, lowercase hex bytes), and (c) the expected bytes through
//! the harness's own encoder of the contract-side format (little-endian,
//! size-length prefixes, LEB128, enum tags).
//!
//! D: (deliberate limits)
//!  * nesting deeper than 32 is never generated (O1); collections of zero-width
//!    elements get declared lengths <= 2^16, and hostile bytes are only decoded
//!    under types without a collection of zero-width elements (O2).
//!  * timestamps are drawn below year 10000 (the RFC 3339 text form of later
//!    instants does not parse back; that is judged by C16, not here).
//!  * exact error values and the key order of JSON objects are not compared.
//!  * hostile conversions are bounded by counted work, not wall-clock: at most
//!    64*len + 50 000 allocations and 64 MiB + 1 KiB*len live bytes per conversion; declared
//!    byte-list / byte-array lengths beyond the input (up to 2^32-1) must be rejected within it.
//!  * chrono is used to render the expected RFC 3339 text (shared with the library).
use crate::util;
use concordium_contracts_common::{from_bytes, schema::*, to_bytes, Cursor};
use num_bigint::{BigInt, BigUint};
use serde_json::{json, Map, Value};
use std::collections::BTreeMap;
use vmon_core::{ChildCtx, Rng, Shard};

const SIZE_LENS: [SizeLength; 4] = [SizeLength::U8, SizeLength::U16, SizeLength::U32, SizeLength::U64];

fn ident(r: &mut Rng) -> String {
    const P: &[u8] = b"abcdefghijklmnopqrstuvwxyzABCDEFGHIJKLMNOPQRSTUVWXYZ_0123456789";
    (0..r.range(1, 8)).map(|_| P[r.below(P.len() as u64) as usize] as char).collect()
}

fn gen_fields(r: &mut Rng, depth: u32, size: &mut i64, mult: u64) -> Fields {
    match r.below(3) {
        0 => Fields::None,
        1 => Fields::Unnamed((0..r.below(4)).map(|_| gen_type_m(r, depth, size, mult)).collect()),
        _ => {
            let mut names = std::collections::BTreeSet::new();
            let mut v = vec![];
            for _ in 0..r.below(4) {
                let n = ident(r);
                if names.insert(n.clone()) {
                    v.push((n, gen_type_m(r, depth, size, mult)));
                }
            }
            Fields::Named(v)
        }
    }
}

/// `depth` = remaining nesting budget (a leaf needs 1)
pub fn gen_type(r: &mut Rng, depth: u32, size: &mut i64) -> Type { gen_type_m(r, depth, size, 1) }

/// `mult` = product of the lengths of the enclosing fixed-size arrays (kept <= 64 so that a
/// conforming value stays small)
fn gen_type_m(r: &mut Rng, depth: u32, size: &mut i64, mult: u64) -> Type {
    *size -= 1;
    let leaf = depth <= 1 || *size <= 0 || r.chance(2, 5);
    if leaf {
        return match r.below(24) {
            0 => Type::Unit,
            1 => Type::Bool,
            2 => Type::U8,
            3 => Type::U16,
            4 => Type::U32,
            5 => Type::U64,
            6 => Type::U128,
            7 => Type::I8,
            8 => Type::I16,
            9 => Type::I32,
            10 => Type::I64,
            11 => Type::I128,
            12 => Type::Amount,
            13 => Type::AccountAddress,
            14 => Type::ContractAddress,
            15 => Type::Timestamp,
            16 => Type::Duration,
            17 => Type::String(*r.pick(&SIZE_LENS)),
            18 => Type::ContractName(*r.pick(&SIZE_LENS)),
            19 => Type::ReceiveName(*r.pick(&SIZE_LENS)),
            20 => Type::ULeb128(r.range(1, 37) as u32),
            21 => Type::ILeb128(r.range(1, 37) as u32),
            22 => Type::ByteList(*r.pick(&SIZE_LENS)),
            _ => Type::ByteArray(if r.chance(1, 10) { r.range(100, 300) as u32 } else { r.below(40) as u32 }),
        };
    }
    let d = depth - 1;
    match r.below(9) {
        0 => Type::Pair(Box::new(gen_type_m(r, d, size, mult)), Box::new(gen_type_m(r, d, size, mult))),
        1 => Type::List(*r.pick(&SIZE_LENS), Box::new(gen_type_m(r, d, size, mult))),
        2 => Type::Set(*r.pick(&SIZE_LENS), Box::new(gen_type_m(r, d, size, mult))),
        3 => Type::Map(*r.pick(&SIZE_LENS), Box::new(gen_type_m(r, d, size, mult)), Box::new(gen_type_m(r, d, size, mult))),
        4 => {
            let n = if mult >= 64 { 1 } else { r.below(5) };
            Type::Array(n as u32, Box::new(gen_type_m(r, d, size, mult * n.max(1))))
        }
        5 => Type::Struct(gen_fields(r, d, size, mult)),
        6 => {
            let n = if r.chance(1, 40) { r.range(257, 300) } else { r.range(1, 5) };
            let mut names = std::collections::BTreeSet::new();
            let mut v = vec![];
            for i in 0..n {
                let nm = format!("{}{}", ident(r), i);
                if names.insert(nm.clone()) {
                    // keep large enums cheap
                    let f = if n > 10 { Fields::None } else { gen_fields(r, d, size, mult) };
                    v.push((nm, f));
                }
            }
            Type::Enum(v)
        }
        7 => {
            let mut m = BTreeMap::new();
            let mut names = std::collections::BTreeSet::new();
            for _ in 0..r.range(1, 5) {
                let nm = ident(r);
                if names.insert(nm.clone()) {
                    m.insert(r.next() as u8, (nm, gen_fields(r, d, size, mult)));
                }
            }
            Type::TaggedEnum(m)
        }
        _ => {
            // a deep chain, to reach the nesting bound of the claim
            let mut t = gen_type_m(r, 1, size, mult);
            for _ in 0..d.min(r.range(1, 31) as u32) {
                t = match r.below(3) {
                    0 => Type::List(SizeLength::U8, Box::new(t)),
                    1 => Type::Pair(Box::new(Type::U8), Box::new(t)),
                    _ => Type::Struct(Fields::Unnamed(vec![t])),
                };
            }
            t
        }
    }
}

pub fn type_depth(t: &Type) -> u32 {
    let f = |f: &Fields| match f {
        Fields::Named(v) => v.iter().map(|(_, t)| type_depth(t)).max().unwrap_or(0),
        Fields::Unnamed(v) => v.iter().map(type_depth).max().unwrap_or(0),
        Fields::None => 0,
    };
    1 + match t {
        Type::Pair(a, b) => type_depth(a).max(type_depth(b)),
        Type::List(_, a) | Type::Set(_, a) | Type::Array(_, a) => type_depth(a),
        Type::Map(_, a, b) => type_depth(a).max(type_depth(b)),
        Type::Struct(x) => f(x),
        Type::Enum(v) => v.iter().map(|(_, x)| f(x)).max().unwrap_or(0),
        Type::TaggedEnum(m) => m.values().map(|(_, x)| f(x)).max().unwrap_or(0),
        _ => 0,
    }
}

/// can a value of this type have an empty encoding
fn zero_width(t: &Type) -> bool {
    let f = |f: &Fields| match f {
        Fields::Named(v) => v.iter().all(|(_, t)| zero_width(t)),
        Fields::Unnamed(v) => v.iter().all(zero_width),
        Fields::None => true,
    };
    match t {
        Type::Unit => true,
        Type::Pair(a, b) => zero_width(a) && zero_width(b),
        Type::Array(n, a) => *n == 0 || zero_width(a),
        Type::Struct(x) => f(x),
        Type::ByteArray(n) => *n == 0,
        _ => false,
    }
}

/// does the type contain a collection (list, set, map, array) whose elements can be zero-width (O2)
fn has_zero_width_collection(t: &Type) -> bool {
    let f = |f: &Fields| match f {
        Fields::Named(v) => v.iter().any(|(_, t)| has_zero_width_collection(t)),
        Fields::Unnamed(v) => v.iter().any(has_zero_width_collection),
        Fields::None => false,
    };
    match t {
        Type::List(_, a) | Type::Set(_, a) | Type::Array(_, a) => zero_width(a) || has_zero_width_collection(a),
        Type::Map(_, a, b) => (zero_width(a) && zero_width(b)) || has_zero_width_collection(a) || has_zero_width_collection(b),
        Type::Pair(a, b) => has_zero_width_collection(a) || has_zero_width_collection(b),
        Type::Struct(x) => f(x),
        Type::Enum(v) => v.iter().any(|(_, x)| f(x)),
        Type::TaggedEnum(m) => m.values().any(|(_, x)| f(x)),
        _ => false,
    }
}

// ------------------------------------------------------------------ independent encoder + value generator
fn put_len(out: &mut Vec<u8>, n: usize, sl: SizeLength) {
    match sl {
        SizeLength::U8 => out.push(n as u8),
        SizeLength::U16 => out.extend_from_slice(&(n as u16).to_le_bytes()),
        SizeLength::U32 => out.extend_from_slice(&(n as u32).to_le_bytes()),
        SizeLength::U64 => out.extend_from_slice(&(n as u64).to_le_bytes()),
    }
}
fn max_len(r: &mut Rng, sl: SizeLength) -> usize {
    let cap = match sl {
        SizeLength::U8 => 255,
        _ => 400,
    };
    match r.below(20) {
        0 => cap,
        1 => 0,
        _ => r.below(5) as usize,
    }
}
fn uleb(mut n: BigUint, out: &mut Vec<u8>) {
    loop {
        let low = (&n & BigUint::from(0x7fu8)).to_u32_digits().first().copied().unwrap_or(0) as u8;
        n >>= 7;
        if n == BigUint::from(0u8) {
            out.push(low);
            return;
        }
        out.push(low | 0x80);
    }
}
fn ileb(n: &BigInt, out: &mut Vec<u8>) {
    // standard signed LEB128 on the two's complement representation
    let mut v = n.clone();
    loop {
        let low = {
            let m: BigInt = &v & BigInt::from(0x7f);
            m.to_u32_digits().1.first().copied().unwrap_or(0) as u8
        };
        v >>= 7; // arithmetic shift (floor) for BigInt
        let done = (v == BigInt::from(0) && low & 0x40 == 0) || (v == BigInt::from(-1) && low & 0x40 != 0);
        if done {
            out.push(low);
            return;
        }
        out.push(low | 0x80);
    }
}
fn duration_text(ms: u64) -> String { format!("{}d {}h {}m {}s {}ms", ms / 86_400_000, ms % 86_400_000 / 3_600_000, ms % 3_600_000 / 60_000, ms % 60_000 / 1000, ms % 1000) }

pub struct Gen {
    pub json_in: Value,
    pub json_out: Value,
}

fn name_part(r: &mut Rng, n: usize) -> String {
    const P: &[u8] = b"abcdefghijklmnopqrstuvwxyzABCDEFGHIJKLMNOPQRSTUVWXYZ0123456789_-!#$%&'()*+,/:;<=>?@[]^`{|}~";
    (0..n).map(|_| P[r.below(P.len() as u64) as usize] as char).collect()
}

fn gen_fields_value(r: &mut Rng, f: &Fields, out: &mut Vec<u8>, budget: &mut i64) -> Gen {
    match f {
        Fields::None => Gen { json_in: if r.chance(1, 2) { json!([]) } else { Value::Null }, json_out: json!([]) },
        Fields::Unnamed(ts) => {
            let gs: Vec<Gen> = ts.iter().map(|t| gen_value(r, t, out, budget)).collect();
            Gen { json_in: Value::Array(gs.iter().map(|g| g.json_in.clone()).collect()), json_out: Value::Array(gs.into_iter().map(|g| g.json_out).collect()) }
        }
        Fields::Named(ts) => {
            let mut a = Map::new();
            let mut b = Map::new();
            for (n, t) in ts {
                let g = gen_value(r, t, out, budget);
                a.insert(n.clone(), g.json_in);
                b.insert(n.clone(), g.json_out);
            }
            Gen { json_in: Value::Object(a), json_out: Value::Object(b) }
        }
    }
}

fn same(v: Value) -> Gen { Gen { json_in: v.clone(), json_out: v } }

pub fn gen_value(r: &mut Rng, t: &Type, out: &mut Vec<u8>, budget: &mut i64) -> Gen {
    *budget -= 1;
    match t {
        Type::Unit => Gen { json_in: if r.chance(1, 2) { Value::Null } else { json!([]) }, json_out: Value::Null },
        Type::Bool => {
            let b = r.chance(1, 2);
            out.push(b as u8);
            same(json!(b))
        }
        Type::U8 => {
            let v = r.u64v() as u8;
            out.push(v);
            same(json!(v))
        }
        Type::U16 => {
            let v = r.u64v() as u16;
            out.extend_from_slice(&v.to_le_bytes());
            same(json!(v))
        }
        Type::U32 => {
            let v = r.u64v() as u32;
            out.extend_from_slice(&v.to_le_bytes());
            same(json!(v))
        }
        Type::U64 => {
            let v = r.u64v();
            out.extend_from_slice(&v.to_le_bytes());
            same(json!(v))
        }
        Type::I8 => {
            let v = r.i64v() as i8;
            out.extend_from_slice(&v.to_le_bytes());
            same(json!(v))
        }
        Type::I16 => {
            let v = r.i64v() as i16;
            out.extend_from_slice(&v.to_le_bytes());
            same(json!(v))
        }
        Type::I32 => {
            let v = r.i32v();
            out.extend_from_slice(&v.to_le_bytes());
            same(json!(v))
        }
        Type::I64 => {
            let v = r.i64v();
            out.extend_from_slice(&v.to_le_bytes());
            same(json!(v))
        }
        Type::U128 => {
            let v = ((r.u64v() as u128) << 64) | r.u64v() as u128;
            out.extend_from_slice(&v.to_le_bytes());
            same(json!(v.to_string()))
        }
        Type::I128 => {
            let v = (((r.u64v() as u128) << 64) | r.u64v() as u128) as i128;
            out.extend_from_slice(&v.to_le_bytes());
            same(json!(v.to_string()))
        }
        Type::Amount => {
            let v = r.u64v();
            out.extend_from_slice(&v.to_le_bytes());
            same(json!(v.to_string()))
        }
        Type::AccountAddress => {
            let mut a = [0u8; 32];
            r.fill(&mut a);
            out.extend_from_slice(&a);
            same(json!(crate::c16::b58check_v1(&a)))
        }
        Type::ContractAddress => {
            let (i, s) = (r.u64v(), r.u64v());
            out.extend_from_slice(&i.to_le_bytes());
            out.extend_from_slice(&s.to_le_bytes());
            let full = json!({"index": i, "subindex": s});
            // "subindex" is documented as optional on input (defaults to 0)
            if s == 0 && r.chance(1, 2) {
                Gen { json_in: json!({"index": i}), json_out: full }
            } else {
                same(full)
            }
        }
        Type::Timestamp => {
            let ms = match r.below(6) {
                0 => 0,
                1 => 253_402_300_799_999,
                2 => r.below(4_102_444_800_000),
                _ => r.below(253_402_300_800_000),
            };
            out.extend_from_slice(&ms.to_le_bytes());
            let text = chrono::DateTime::from_timestamp_millis(ms as i64).expect("below year 10000").to_rfc3339();
            // input: the RFC 3339 text (also at another UTC offset, rendered by the harness) or the
            // plain number of milliseconds
            let json_in = match r.below(4) {
                0 => json!(ms.to_string()),
                1 if ms >= 100_000_000_000 && ms < 253_300_000_000_000 => json!(util::rfc3339_with_offset(ms, r.range(0, 28 * 60) as i32 - 14 * 60, 3, false)),
                _ => json!(text.clone()),
            };
            Gen { json_in, json_out: json!(text) }
        }
        Type::Duration => {
            let ms = r.u64v();
            out.extend_from_slice(&ms.to_le_bytes());
            let text = duration_text(ms);
            Gen { json_in: if r.chance(1, 3) { json!(format!("{}ms", ms)) } else { json!(text.clone()) }, json_out: json!(text) }
        }
        Type::Pair(a, b) => {
            let x = gen_value(r, a, out, budget);
            let y = gen_value(r, b, out, budget);
            Gen { json_in: json!([x.json_in, y.json_in]), json_out: json!([x.json_out, y.json_out]) }
        }
        Type::List(sl, a) | Type::Set(sl, a) => {
            let n = max_len(r, *sl).min(if type_depth(a) > 2 { 3 } else { 400 }).min((*budget).max(0) as usize / 4);
            put_len(out, n, *sl);
            let gs: Vec<Gen> = (0..n).map(|_| gen_value(r, a, out, budget)).collect();
            Gen { json_in: Value::Array(gs.iter().map(|g| g.json_in.clone()).collect()), json_out: Value::Array(gs.into_iter().map(|g| g.json_out).collect()) }
        }
        Type::Map(sl, k, v) => {
            let n = max_len(r, *sl).min(if type_depth(k).max(type_depth(v)) > 2 { 3 } else { 400 }).min((*budget).max(0) as usize / 8);
            put_len(out, n, *sl);
            let mut i = vec![];
            let mut o = vec![];
            for _ in 0..n {
                let x = gen_value(r, k, out, budget);
                let y = gen_value(r, v, out, budget);
                i.push(json!([x.json_in, y.json_in]));
                o.push(json!([x.json_out, y.json_out]));
            }
            Gen { json_in: Value::Array(i), json_out: Value::Array(o) }
        }
        Type::Array(n, a) => {
            let gs: Vec<Gen> = (0..*n).map(|_| gen_value(r, a, out, budget)).collect();
            Gen { json_in: Value::Array(gs.iter().map(|g| g.json_in.clone()).collect()), json_out: Value::Array(gs.into_iter().map(|g| g.json_out).collect()) }
        }
        Type::Struct(f) => gen_fields_value(r, f, out, budget),
        Type::Enum(vs) => {
            let i = r.below(vs.len() as u64) as usize;
            if vs.len() <= 256 {
                out.push(i as u8);
            } else {
                out.extend_from_slice(&(i as u16).to_le_bytes());
            }
            let g = gen_fields_value(r, &vs[i].1, out, budget);
            let mut a = Map::new();
            a.insert(vs[i].0.clone(), g.json_in);
            let mut b = Map::new();
            b.insert(vs[i].0.clone(), g.json_out);
            Gen { json_in: Value::Object(a), json_out: Value::Object(b) }
        }
        Type::TaggedEnum(m) => {
            let keys: Vec<u8> = m.keys().copied().collect();
            let tag = *r.pick(&keys);
            out.push(tag);
            let (name, f) = &m[&tag];
            let g = gen_fields_value(r, f, out, budget);
            let mut a = Map::new();
            a.insert(name.clone(), g.json_in);
            let mut b = Map::new();
            b.insert(name.clone(), g.json_out);
            Gen { json_in: Value::Object(a), json_out: Value::Object(b) }
        }
        Type::String(sl) => {
            let n = max_len(r, *sl).min(60);
            let mut s = util::unicode(r, n);
            while s.len() > 255 {
                s.pop();
            }
            put_len(out, s.len(), *sl);
            out.extend_from_slice(s.as_bytes());
            same(json!(s))
        }
        Type::ContractName(sl) => {
            let n = if r.chance(1, 10) { 95 } else { r.below(20) as usize };
            let name = name_part(r, n);
            let full = format!("init_{}", name);
            put_len(out, full.len(), *sl);
            out.extend_from_slice(full.as_bytes());
            same(json!({"contract": name}))
        }
        Type::ReceiveName(sl) => {
            let n = r.below(20) as usize;
            let c = name_part(r, n);
            // the entrypoint part may itself contain dots; the split is at the first dot
            let n = r.below(20) as usize;
            let mut f = name_part(r, n);
            if r.chance(1, 5) {
                f.push('.');
                f.push_str(&name_part(r, 3));
            }
            let full = format!("{}.{}", c, f);
            put_len(out, full.len(), *sl);
            out.extend_from_slice(full.as_bytes());
            same(json!({"contract": c, "func": f}))
        }
        Type::ULeb128(c) => {
            // a value that needs at most c groups of 7 bits
            let bits = 7 * (*c as u64);
            let nbits = match r.below(4) {
                0 => bits,
                1 => r.below(8),
                _ => r.below(bits + 1),
            };
            let mut v = BigUint::from(0u8);
            for _ in 0..nbits {
                v = (v << 1u32) | BigUint::from(r.below(2) as u8);
            }
            uleb(v.clone(), out);
            same(json!(v.to_string()))
        }
        Type::ILeb128(c) => {
            // signed values representable in c groups: -2^(7c-1) .. 2^(7c-1)-1
            let bits = 7 * (*c as u64) - 1;
            let nbits = match r.below(4) {
                0 => bits,
                1 => r.below(7),
                _ => r.below(bits + 1),
            };
            let mut m = BigInt::from(0);
            for _ in 0..nbits {
                m = (m << 1u32) | BigInt::from(r.below(2) as u8);
            }
            let v = match r.below(4) {
                0 => -(BigInt::from(1) << (bits as usize)),
                1 => -m - 1,
                _ => m,
            };
            ileb(&v, out);
            same(json!(v.to_string()))
        }
        Type::ByteList(sl) => {
            let n = max_len(r, *sl).min(255);
            let b = r.bytes(n);
            put_len(out, n, *sl);
            out.extend_from_slice(&b);
            Gen { json_in: json!(if r.chance(1, 4) { vmon_core::hex(&b).to_uppercase() } else { vmon_core::hex(&b) }), json_out: json!(vmon_core::hex(&b)) }
        }
        Type::ByteArray(n) => {
            let b = r.bytes(*n as usize);
            out.extend_from_slice(&b);
            same(json!(vmon_core::hex(&b)))
        }
    }
}

// ------------------------------------------------------------------ schema modules
fn opt_type(r: &mut Rng) -> Option<Type> {
    if r.chance(1, 3) {
        None
    } else {
        let mut size = 6;
        Some(gen_type(r, 4, &mut size))
    }
}
fn small_type(r: &mut Rng) -> Type {
    let mut size = 8;
    gen_type(r, 5, &mut size)
}
fn fun_v1(r: &mut Rng) -> FunctionV1 {
    match r.below(3) {
        0 => FunctionV1::Parameter(small_type(r)),
        1 => FunctionV1::ReturnValue(small_type(r)),
        _ => FunctionV1::Both { parameter: small_type(r), return_value: small_type(r) },
    }
}
fn fun_v2(r: &mut Rng) -> FunctionV2 { FunctionV2 { parameter: opt_type(r), return_value: opt_type(r), error: opt_type(r) } }
fn names(r: &mut Rng) -> Vec<String> {
    let mut s = std::collections::BTreeSet::new();
    for _ in 0..r.below(4) {
        s.insert(ident(r));
    }
    s.into_iter().collect()
}
fn b64_nopad(b: &[u8]) -> String {
    const A: &[u8] = b"ABCDEFGHIJKLMNOPQRSTUVWXYZabcdefghijklmnopqrstuvwxyz0123456789+/";
    let mut s = String::new();
    for c in b.chunks(3) {
        let n = (c[0] as u32) << 16 | (*c.get(1).unwrap_or(&0) as u32) << 8 | *c.get(2).unwrap_or(&0) as u32;
        s.push(A[(n >> 18) as usize & 63] as char);
        s.push(A[(n >> 12) as usize & 63] as char);
        if c.len() > 1 {
            s.push(A[(n >> 6) as usize & 63] as char);
        }
        if c.len() > 2 {
            s.push(A[n as usize & 63] as char);
        }
    }
    s
}

fn case_schema(sh: &mut Shard, idx: u64, r: &mut Rng) {
    let version = r.below(4) as u8;
    let vms = match version {
        0 => VersionedModuleSchema::V0(ModuleV0 { contracts: names(r).into_iter().map(|n| (n, ContractV0 { state: opt_type(r), init: opt_type(r), receive: names(r).into_iter().map(|n| (n, small_type(r))).collect() })).collect() }),
        1 => VersionedModuleSchema::V1(ModuleV1 { contracts: names(r).into_iter().map(|n| (n, ContractV1 { init: if r.chance(1, 2) { Some(fun_v1(r)) } else { None }, receive: names(r).into_iter().map(|n| (n, fun_v1(r))).collect() })).collect() }),
        2 => VersionedModuleSchema::V2(ModuleV2 { contracts: names(r).into_iter().map(|n| (n, ContractV2 { init: if r.chance(1, 2) { Some(fun_v2(r)) } else { None }, receive: names(r).into_iter().map(|n| (n, fun_v2(r))).collect() })).collect() }),
        _ => VersionedModuleSchema::V3(ModuleV3 { contracts: names(r).into_iter().map(|n| (n, ContractV3 { init: if r.chance(1, 2) { Some(fun_v2(r)) } else { None }, receive: names(r).into_iter().map(|n| (n, fun_v2(r))).collect(), event: opt_type(r) })).collect() }),
    };
    let dbg = format!("{:?}", vms);
    let versioned = to_bytes(&vms);
    let unversioned = match &vms {
        VersionedModuleSchema::V0(m) => to_bytes(m),
        VersionedModuleSchema::V1(m) => to_bytes(m),
        VersionedModuleSchema::V2(m) => to_bytes(m),
        VersionedModuleSchema::V3(m) => to_bytes(m),
    };
    let mut check = |what: &str, got: Result<Result<VersionedModuleSchema, String>, String>| {
        sh.evaluations += 1;
        sh.hit(&format!("schema.v{}.{}", version, what));
        let bad = match got {
            Err(p) => Some(format!("panicked: {}", p)),
            Ok(Err(e)) => Some(format!("rejected: {}", e)),
            Ok(Ok(v)) => {
                if format!("{:?}", v) != dbg {
                    Some("decoded to a different schema".to_string())
                } else if to_bytes(&v) != versioned {
                    Some("re-encodes differently".to_string())
                } else {
                    None
                }
            }
        };
        if let Some(b) = bad {
            sh.violate(idx, "schema-roundtrip", format!("schema:{}:{}", what, util::hex_sig(&versioned)), format!("module schema V{} via {}: {}", version, what, b), json!({"via": what, "versioned_bytes_hex": vmon_core::hex(&versioned), "schema_debug": dbg.chars().take(1500).collect::<String>()}));
        }
    };
    check("from_bytes", vmon_core::catch(|| from_bytes::<VersionedModuleSchema>(&versioned).map_err(|_| "ParseError".to_string())));
    check("new(prefixed,None)", vmon_core::catch(|| VersionedModuleSchema::new(&versioned, &None).map_err(|e| e.to_string())));
    check("new(prefixed,Some(other))", vmon_core::catch(|| VersionedModuleSchema::new(&versioned, &Some((version + 1) % 4)).map_err(|e| e.to_string())));
    check("new(unprefixed,Some(v))", vmon_core::catch(|| VersionedModuleSchema::new(&unversioned, &Some(version)).map_err(|e| e.to_string())));
    check("from_base64_str", vmon_core::catch(|| VersionedModuleSchema::from_base64_str(&b64_nopad(&versioned)).map_err(|e| e.to_string())));
    // the harness knows the layout of the prefix: ff ff <version> <unversioned module>
    sh.evaluations += 1;
    let mut want = vec![0xff, 0xff, version];
    want.extend_from_slice(&unversioned);
    if want != versioned {
        sh.violate(idx, "schema-roundtrip", format!("schema:prefix:{}", util::hex_sig(&versioned)), "versioned encoding is not ff ff <version> followed by the module encoding".into(), json!({"versioned_bytes_hex": vmon_core::hex(&versioned)}));
    }
    // a single Type
    let t = {
        let mut size = 30;
        gen_type(r, 32, &mut size)
    };
    sh.evaluations += 1;
    sh.hit("schema.type.roundtrip");
    sh.max("max.schema.type_depth", type_depth(&t) as u64);
    let tb = to_bytes(&t);
    match vmon_core::catch(|| from_bytes::<Type>(&tb)) {
        Ok(Ok(t2)) if t2 == t && to_bytes(&t2) == tb => {}
        other => sh.violate(idx, "schema-roundtrip", format!("schema:type:{}", util::hex_sig(&tb)), format!("Type does not round-trip: {:?}", other.map(|x| x.is_ok())), json!({"type_bytes_hex": vmon_core::hex(&tb), "type": format!("{:?}", t).chars().take(1500).collect::<String>()})),
    }
    util::nt(sh, vmon_core::mix(&[5, vmon_core::fast_hash(&versioned)]));
}

// ------------------------------------------------------------------ enum tag width boundaries
/// Enums with exactly 255 / 256 / 257 / 65535 / 65536 / 65537 unit-like variants, values at the
/// first, last and a random variant: the tag is one byte for <= 256 variants, otherwise two bytes
/// little-endian (to_json and the contract-side derive agree on this; serial_value documents
/// "Enums with more than 65536 variants are not supported", so for 65537 an error is accepted).
fn case_enum_boundary(sh: &mut Shard, idx: u64, r: &mut Rng) {
    let n = match r.below(9) {
        0 => 65535usize,
        1 => 65536,
        2 => 65537,
        3 | 4 => 255,
        5 | 6 => 257,
        _ => 256,
    };
    let payload = r.chance(1, 2);
    let fields = |i: usize| if payload && i % 2 == 0 { Fields::Unnamed(vec![Type::U16]) } else { Fields::None };
    let ty = Type::Enum((0..n).map(|i| (format!("V{}", i), fields(i))).collect());
    let tbytes = to_bytes(&ty);
    sh.hit(&format!("enum_boundary.variants.{}", n));
    for i in [0usize, n - 1, r.below(n as u64) as usize, 255.min(n - 1), 256.min(n - 1)] {
        if i > 65535 {
            continue;
        }
        let mut bytes = if n <= 256 { vec![i as u8] } else { (i as u16).to_le_bytes().to_vec() };
        let inner = if payload && i % 2 == 0 {
            let x = r.next() as u16;
            bytes.extend_from_slice(&x.to_le_bytes());
            json!([x])
        } else {
            json!([])
        };
        let mut m = Map::new();
        m.insert(format!("V{}", i), inner);
        let j = Value::Object(m);
        let case = || json!({"type": format!("Enum with {} variants V0..V{} (even ones carry a u16: {})", n, n - 1, payload), "json_in": j, "json_out": j, "expected_bytes_hex": vmon_core::hex(&bytes)});
        let sig = |k: &str| format!("{}:enum{}:{}:{}", k, n, payload, vmon_core::hex(&bytes));
        sh.evaluations += 1;
        sh.hit("enum_boundary.serial_value");
        match vmon_core::catch(|| ty.serial_value(&j)) {
            Err(p) => sh.violate(idx, "convert-panic", sig("serial-panic"), format!("serial_value panicked: {}", p), case()),
            Ok(Err(e)) => {
                if n <= 65536 {
                    sh.violate(idx, "json-to-bytes", sig("serial-reject"), format!("serial_value rejects variant {} of an enum with {} variants: {}", i, n, e.display(false)), case());
                }
            }
            Ok(Ok(b)) if b != bytes => sh.violate(idx, "json-to-bytes", sig("serial-bytes"), format!("serial_value gives {} for variant {} of an enum with {} variants; the contract-side encoding is {}", vmon_core::hex(&b), i, n, vmon_core::hex(&bytes)), case()),
            Ok(Ok(_)) => {}
        }
        sh.evaluations += 1;
        sh.hit("enum_boundary.to_json");
        match vmon_core::catch(|| {
            let mut c = Cursor::new(&bytes[..]);
            (ty.to_json(&mut c), c.offset)
        }) {
            Err(p) => sh.violate(idx, "convert-panic", sig("to_json-panic"), format!("to_json panicked: {}", p), case()),
            Ok((Ok(got), off)) if got == j && off == bytes.len() => {}
            Ok((other, off)) => sh.violate(idx, "bytes-to-json", sig("to_json-value"), format!("to_json of {} under an enum with {} variants gives {:?} (consumed {}), expected {}", vmon_core::hex(&bytes), n, other.map(|v| v.to_string()).map_err(|e| e.display(false)), off, j), case()),
        }
        util::nt(sh, vmon_core::mix(&[10, n as u64, i as u64, payload as u64]));
    }
    // the schema itself round-trips
    sh.evaluations += 1;
    if !matches!(from_bytes::<Type>(&tbytes), Ok(t2) if t2 == ty) {
        sh.violate(idx, "schema-roundtrip", format!("schema:enum{}", n), format!("an enum type with {} variants does not round-trip through its binary form", n), json!({"variants": n}));
    }
}

// ------------------------------------------------------------------ long collections, text values
/// generic three-way judgement of one (type, json_in, json_out, bytes)
fn judge_value(sh: &mut Shard, idx: u64, what: &str, ty: &Type, json_in: &Value, json_out: &Value, bytes: &[u8]) {
    let short = |v: &Value| v.to_string().chars().take(400).collect::<String>();
    let case = || json!({"type_bytes_hex": vmon_core::hex(&to_bytes(ty)), "type": format!("{:?}", ty).chars().take(600).collect::<String>(), "json_in": json_in, "json_out": json_out, "expected_bytes_hex": vmon_core::hex(bytes)});
    let sig = |k: &str| format!("{}:{}:{}:{}", k, what, util::hex_sig(&to_bytes(ty)), util::hex_sig(bytes));
    sh.evaluations += 1;
    sh.hit(&format!("{}.serial_value", what));
    match vmon_core::catch(|| ty.serial_value(json_in)) {
        Err(p) => sh.violate(idx, "convert-panic", sig("serial-panic"), format!("serial_value panicked: {}", p), case()),
        Ok(Err(e)) => sh.violate(idx, "json-to-bytes", sig("serial-reject"), format!("serial_value rejects a conforming JSON value ({}): {}", short(json_in), e.display(false)), case()),
        Ok(Ok(b)) if b != bytes => sh.violate(idx, "json-to-bytes", sig("serial-bytes"), format!("serial_value({}) gives {} but the contract-side encoding is {}", short(json_in), vmon_core::hex_short(&b, 80), vmon_core::hex_short(bytes, 80)), case()),
        Ok(Ok(_)) => {}
    }
    sh.evaluations += 1;
    sh.hit(&format!("{}.to_json", what));
    match vmon_core::catch(|| {
        let mut c = Cursor::new(bytes);
        (ty.to_json(&mut c), c.offset)
    }) {
        Err(p) => sh.violate(idx, "convert-panic", sig("to_json-panic"), format!("to_json panicked: {}", p), case()),
        Ok((Ok(j), off)) if &j == json_out && off == bytes.len() => {}
        Ok((Ok(j), off)) => sh.violate(idx, "bytes-to-json", sig("to_json-value"), format!("to_json gives {} (consumed {} of {} bytes), expected {}", short(&j), off, bytes.len(), short(json_out)), case()),
        Ok((Err(e), _)) => sh.violate(idx, "bytes-to-json", sig("to_json-reject"), format!("to_json rejects the encoding of a conforming value: {}", e.display(false)), case()),
    }
}

/// List / Set / Map with 4095, 4096, 4097 and about 5000 one-byte elements, followed by another
/// field (a truncated collection would shift it)
fn case_long_collection(sh: &mut Shard, idx: u64, r: &mut Rng) {
    let n = match r.below(5) {
        0 => 4095usize,
        1 => 4096,
        2 => 4097,
        3 => r.range(4098, 6000) as usize,
        _ => r.range(4000, 4200) as usize,
    };
    let sl = *r.pick(&[SizeLength::U16, SizeLength::U32, SizeLength::U64]);
    let kind = r.below(3);
    let mut bytes = vec![];
    put_len(&mut bytes, n, sl);
    let mut items = vec![];
    let coll = match kind {
        0 => {
            for _ in 0..n {
                let x = r.next() as u8;
                bytes.push(x);
                items.push(json!(x));
            }
            Type::List(sl, Box::new(Type::U8))
        }
        1 => {
            for _ in 0..n {
                let x = r.chance(1, 2);
                bytes.push(x as u8);
                items.push(json!(x));
            }
            Type::Set(sl, Box::new(Type::Bool))
        }
        _ => {
            for _ in 0..n {
                let (k, x) = (r.next() as u8, r.chance(1, 2));
                bytes.push(k);
                bytes.push(x as u8);
                items.push(json!([k, x]));
            }
            Type::Map(sl, Box::new(Type::U8), Box::new(Type::Bool))
        }
    };
    let tail = r.next() as u32;
    bytes.extend_from_slice(&tail.to_le_bytes());
    let (ty, j) = if r.chance(1, 2) {
        (Type::Pair(Box::new(coll), Box::new(Type::U32)), json!([items, tail]))
    } else {
        (Type::Struct(Fields::Named(vec![("items".into(), coll), ("after".into(), Type::U32)])), json!({"items": items, "after": tail}))
    };
    sh.hit(&format!("long_collection.{}", if n <= 4095 { "le4095" } else if n == 4096 { "4096" } else if n == 4097 { "4097" } else { "gt4097" }));
    sh.hit(&format!("long_collection.kind.{}", ["List", "Set", "Map"][kind as usize]));
    judge_value(sh, idx, "long_collection", &ty, &j, &j, &bytes);
    util::nt(sh, vmon_core::mix(&[11, vmon_core::fast_hash(&bytes)]));
}

/// Strings with 2-, 3-, 4-byte characters and combining marks (length prefix = UTF-8 bytes) and
/// timestamps written at a non-zero UTC offset, each followed by another field
fn case_text_values(sh: &mut Shard, idx: u64, r: &mut Rng) {
    const PIECES: &[&str] = &["a", "Z", "é", "ß", "я", "€", "漢", "字", "𝄞", "😀", "e\u{301}", "a\u{308}\u{323}", " ", "0", "\u{7f}", "\u{80}", "\u{7ff}", "\u{800}", "\u{ffff}", "\u{10000}", "\u{10ffff}"];
    for _ in 0..4 {
        let sl = *r.pick(&SIZE_LENS);
        let mut s = String::new();
        for _ in 0..r.range(1, 12) {
            s.push_str(*r.pick(PIECES));
        }
        let tail = r.next() as u16;
        let mut bytes = vec![];
        put_len(&mut bytes, s.len(), sl);
        bytes.extend_from_slice(s.as_bytes());
        bytes.extend_from_slice(&tail.to_le_bytes());
        let ty = Type::Pair(Box::new(Type::String(sl)), Box::new(Type::U16));
        let j = json!([s, tail]);
        if s.chars().count() != s.len() {
            sh.hit("text_values.string.non_ascii");
        }
        judge_value(sh, idx, "text_values.string", &ty, &j, &j, &bytes);
    }
    for _ in 0..4 {
        let (ms, off_min, text) = util::gen_offset_timestamp(r);
        let tail = r.next() as u16;
        let mut bytes = ms.to_le_bytes().to_vec();
        bytes.extend_from_slice(&tail.to_le_bytes());
        let ty = Type::Struct(Fields::Named(vec![("at".into(), Type::Timestamp), ("n".into(), Type::U16)]));
        // normal form: UTC with offset +00:00, fractional digits only if the milliseconds are not zero
        let out_text = util::rfc3339_with_offset(ms, 0, if ms % 1000 == 0 { 0 } else { 3 }, false);
        sh.hit(if off_min == 0 { "text_values.timestamp.zero_offset" } else { "text_values.timestamp.nonzero_offset" });
        judge_value(sh, idx, "text_values.timestamp", &ty, &json!({"at": text, "n": tail}), &json!({"at": out_text, "n": tail}), &bytes);
    }
    util::nt(sh, vmon_core::mix(&[12, r.next()]));
}

// ------------------------------------------------------------------ conversions
fn case_convert(sh: &mut Shard, idx: u64, r: &mut Rng) {
    let mut size = match r.below(4) {
        0 => 40,
        1 => 4,
        _ => 12,
    };
    let depth = if r.chance(1, 6) { 32 } else { r.range(1, 8) as u32 };
    let mut ty = gen_type(r, depth, &mut size);
    if r.chance(1, 8) {
        // reach the nesting bound of the claim exactly
        while type_depth(&ty) < 32 {
            ty = match r.below(4) {
                0 => Type::List(*r.pick(&SIZE_LENS), Box::new(ty)),
                1 => Type::Pair(Box::new(Type::Bool), Box::new(ty)),
                2 => Type::Struct(Fields::Named(vec![("f".into(), ty)])),
                _ => Type::Enum(vec![("A".into(), Fields::None), ("B".into(), Fields::Unnamed(vec![ty]))]),
            };
        }
    }
    let d = type_depth(&ty);
    if d > 32 {
        sh.inconclusive.push(format!("generator produced nesting {}", d));
        return;
    }
    sh.max("max.convert.type_depth", d as u64);
    sh.hit(&format!("convert.depth.{}", if d >= 32 { "32" } else if d >= 16 { "16-31" } else if d >= 4 { "4-15" } else { "1-3" }));
    let tdesc = || format!("{:?}", ty).chars().take(1200).collect::<String>();
    let tbytes = to_bytes(&ty);
    for _ in 0..4 {
        let mut bytes = vec![];
        let mut budget = 1500i64;
        let g = gen_value(r, &ty, &mut bytes, &mut budget);
        if util::selftest("c10") && idx % 7 == 0 && !bytes.is_empty() {
            bytes[0] ^= 1;
        }
        record_constructors(sh, &ty);
        // JSON -> bytes
        sh.evaluations += 1;
        sh.hit("convert.serial_value");
        let case = || json!({"type_bytes_hex": vmon_core::hex(&tbytes), "type": tdesc(), "json_in": g.json_in, "json_out": g.json_out, "expected_bytes_hex": vmon_core::hex(&bytes)});
        let sig = |k: &str| format!("{}:{}:{}", k, util::hex_sig(&tbytes), util::hex_sig(&bytes));
        match vmon_core::catch(|| ty.serial_value(&g.json_in)) {
            Err(p) => sh.violate(idx, "convert-panic", sig("serial-panic"), format!("serial_value panicked: {}", p), case()),
            Ok(Err(e)) => sh.violate(idx, "json-to-bytes", sig("serial-reject"), format!("serial_value rejects a conforming JSON value: {}", e.display(false)), case()),
            Ok(Ok(b)) if b != bytes => sh.violate(idx, "json-to-bytes", sig("serial-bytes"), format!("serial_value gives {} but the contract-side encoding is {}", vmon_core::hex_short(&b, 100), vmon_core::hex_short(&bytes, 100)), case()),
            Ok(Ok(_)) => {}
        }
        // bytes -> JSON
        sh.evaluations += 1;
        sh.hit("convert.to_json");
        let res = vmon_core::catch(|| {
            let mut c = Cursor::new(&bytes[..]);
            let j = ty.to_json(&mut c);
            (j, c.offset)
        });
        match res {
            Err(p) => sh.violate(idx, "convert-panic", sig("to_json-panic"), format!("to_json panicked: {}", p), case()),
            Ok((Err(e), _)) => sh.violate(idx, "bytes-to-json", sig("to_json-reject"), format!("to_json rejects the encoding of a conforming value: {}", e.display(false)), case()),
            Ok((Ok(j), off)) => {
                if j != g.json_out {
                    sh.violate(idx, "bytes-to-json", sig("to_json-value"), format!("to_json gives {} expected {}", j.to_string().chars().take(300).collect::<String>(), g.json_out.to_string().chars().take(300).collect::<String>()), case());
                } else if off != bytes.len() {
                    sh.violate(idx, "bytes-to-json", sig("to_json-consumed"), format!("to_json consumed {} of {} bytes", off, bytes.len()), case());
                }
            }
        }
        // the normal form is a fixed point: serial_value(json_out) == bytes
        sh.evaluations += 1;
        match vmon_core::catch(|| ty.serial_value(&g.json_out)) {
            Ok(Ok(b)) if b == bytes => {}
            other => sh.violate(idx, "json-to-bytes", sig("serial-normal-form"), format!("serial_value(normal form) = {:?}", other.map(|x| x.map(|b| vmon_core::hex_short(&b, 60)).map_err(|e| e.display(false)))), case()),
        }
        if bytes.len() >= 4 {
            util::nt(sh, vmon_core::mix(&[6, vmon_core::fast_hash(&tbytes), vmon_core::fast_hash(&bytes)]));
        }
        sh.sample(|| case());
        // hostile bytes under the same type
        if !has_zero_width_collection(&ty) {
            let n = r.below(40) as usize;
            let other = r.bytes(n);
            for _ in 0..12 {
                let (k, m) = util::mutate(r, &bytes, &other);
                hostile(sh, idx, &ty, &tbytes, &m, k);
            }
            // little-endian length inflation
            if !bytes.is_empty() {
                for _ in 0..4 {
                    let w = *r.pick(&[1usize, 2, 4, 8]);
                    if w > bytes.len() {
                        continue;
                    }
                    let off = r.below((bytes.len() - w) as u64 + 1) as usize;
                    let mut m = bytes.clone();
                    let v = *r.pick(&util::inflate_values(w));
                    m[off..off + w].copy_from_slice(&v.to_le_bytes()[..w]);
                    hostile(sh, idx, &ty, &tbytes, &m, "inflate_le");
                }
            }
        } else {
            sh.hit("hostile.skipped_zero_width_collection");
        }
        if !has_zero_width_collection(&ty) {
            declared_length_class(sh, idx, r, &ty, &tbytes, &bytes);
        }
    }
    // random (Type, bytes)
    if !has_zero_width_collection(&ty) {
        for _ in 0..6 {
            let n = r.below(64) as usize;
            let b = r.bytes(n);
            hostile(sh, idx, &ty, &tbytes, &b, "random_pair");
        }
    }
}

// ------------------------------------------------------------------ declared byte-list lengths
/// Permissive walk over (type, bytes) in the library's decoding order that records the largest
/// length a `ByteList` / `ByteArray` would be read with. It stops only where the library must
/// stop as well (end of input, undeclared enum variant, unterminated LEB128).
fn walk(t: &Type, b: &[u8], pos: &mut usize, max_decl: &mut u64, fields_at: &mut Vec<(usize, SizeLength)>) -> Result<(), ()> {
    fn take(b: &[u8], pos: &mut usize, n: usize) -> Result<(), ()> {
        if b.len() - *pos < n {
            *pos = b.len();
            return Err(());
        }
        *pos += n;
        Ok(())
    }
    fn len(b: &[u8], pos: &mut usize, sl: SizeLength) -> Result<u64, ()> {
        let w = match sl {
            SizeLength::U8 => 1,
            SizeLength::U16 => 2,
            SizeLength::U32 => 4,
            SizeLength::U64 => 8,
        };
        let start = *pos;
        take(b, pos, w)?;
        let mut x = [0u8; 8];
        x[..w].copy_from_slice(&b[start..start + w]);
        Ok(u64::from_le_bytes(x))
    }
    fn fields(f: &Fields, b: &[u8], pos: &mut usize, m: &mut u64, fa: &mut Vec<(usize, SizeLength)>) -> Result<(), ()> {
        match f {
            Fields::Named(v) => v.iter().try_for_each(|(_, t)| walk(t, b, pos, m, fa)),
            Fields::Unnamed(v) => v.iter().try_for_each(|t| walk(t, b, pos, m, fa)),
            Fields::None => Ok(()),
        }
    }
    match t {
        Type::Unit => Ok(()),
        Type::Bool | Type::U8 | Type::I8 => take(b, pos, 1),
        Type::U16 | Type::I16 => take(b, pos, 2),
        Type::U32 | Type::I32 => take(b, pos, 4),
        Type::U64 | Type::I64 | Type::Amount | Type::Timestamp | Type::Duration => take(b, pos, 8),
        Type::U128 | Type::I128 | Type::ContractAddress => take(b, pos, 16),
        Type::AccountAddress => take(b, pos, 32),
        Type::Pair(x, y) => {
            walk(x, b, pos, max_decl, fields_at)?;
            walk(y, b, pos, max_decl, fields_at)
        }
        Type::List(sl, x) | Type::Set(sl, x) => {
            let n = len(b, pos, *sl)?;
            for _ in 0..n.min(1 << 17) {
                walk(x, b, pos, max_decl, fields_at)?;
            }
            Ok(())
        }
        Type::Map(sl, k, v) => {
            let n = len(b, pos, *sl)?;
            for _ in 0..n.min(1 << 17) {
                walk(k, b, pos, max_decl, fields_at)?;
                walk(v, b, pos, max_decl, fields_at)?;
            }
            Ok(())
        }
        Type::Array(n, x) => {
            for _ in 0..(*n as u64).min(1 << 17) {
                walk(x, b, pos, max_decl, fields_at)?;
            }
            Ok(())
        }
        Type::Struct(f) => fields(f, b, pos, max_decl, fields_at),
        Type::Enum(vs) => {
            let start = *pos;
            let i = if vs.len() <= 256 {
                take(b, pos, 1)?;
                b[start] as usize
            } else {
                take(b, pos, 2)?;
                u16::from_le_bytes([b[start], b[start + 1]]) as usize
            };
            fields(&vs.get(i).ok_or(())?.1, b, pos, max_decl, fields_at)
        }
        Type::TaggedEnum(m) => {
            let start = *pos;
            take(b, pos, 1)?;
            fields(&m.get(&b[start]).ok_or(())?.1, b, pos, max_decl, fields_at)
        }
        Type::String(sl) | Type::ContractName(sl) | Type::ReceiveName(sl) => {
            let n = len(b, pos, *sl)?;
            take(b, pos, usize::try_from(n).map_err(|_| ())?)
        }
        Type::ULeb128(c) | Type::ILeb128(c) => {
            for _ in 0..*c {
                let start = *pos;
                take(b, pos, 1)?;
                if b[start] & 0x80 == 0 {
                    return Ok(());
                }
            }
            Err(())
        }
        Type::ByteList(sl) => {
            fields_at.push((*pos, *sl));
            let n = len(b, pos, *sl)?;
            *max_decl = (*max_decl).max(n);
            take(b, pos, usize::try_from(n).map_err(|_| ())?)
        }
        Type::ByteArray(n) => {
            *max_decl = (*max_decl).max(*n as u64);
            take(b, pos, *n as usize)
        }
    }
}

/// largest declared byte-list length the library would loop over for this input
fn declared_bytelist_len(t: &Type, b: &[u8]) -> u64 {
    let mut m = 0;
    let mut pos = 0;
    let _ = walk(t, b, &mut pos, &mut m, &mut vec![]);
    m
}

/// offsets and widths of the `ByteList` length fields of a valid encoding
fn bytelist_length_fields(t: &Type, b: &[u8]) -> Vec<(usize, SizeLength)> {
    let mut v = vec![];
    let _ = walk(t, b, &mut 0, &mut 0, &mut v);
    v
}

/// Convert hostile bytes; returns true if a violation was reported. Work is bounded by counted
/// allocations and bytes (not by wall-clock): a conversion may not perform more than
/// 64*len + 50 000 allocations nor hold more than 64 MiB + 1 KiB*len.
fn hostile(sh: &mut Shard, idx: u64, ty: &Type, tbytes: &[u8], b: &[u8], kind: &str) -> bool {
    let decl = declared_bytelist_len(ty, b);
    // clamped: the orchestrator sums the coverage of sanitizer tiers with overflow checks on
    sh.max("max.hostile.declared_len", decl.min(u32::MAX as u64));
    sh.evaluations += 1;
    sh.hit(&format!("hostile.{}", kind));
    let (res, st) = vmon_core::alloc::measure(|| vmon_core::catch(|| ty.to_json(&mut Cursor::new(b)).is_ok()));
    sh.max("max.hostile.alloc_peak", st.peak as u64);
    sh.max("max.hostile.alloc_count", st.count as u64);
    let case = || json!({"type_bytes_hex": vmon_core::hex(tbytes), "type": format!("{:?}", ty).chars().take(1200).collect::<String>(), "bytes_hex": vmon_core::hex(b)});
    match res {
        Err(p) => {
            sh.violate(idx, "convert-panic", format!("to_json-panic:{}:{}", util::hex_sig(tbytes), util::hex_sig(b)), format!("to_json panicked on hostile bytes: {}", p), case());
            true
        }
        Ok(ok) => {
            sh.hit(if ok { "hostile.accepted" } else { "hostile.rejected" });
            if st.peak > (64 << 20) + 1024 * b.len() || st.count > 64 * b.len() + 50_000 {
                sh.violate(
                    idx,
                    "alloc-bound",
                    format!("to_json-alloc:{}:{}", util::hex_sig(tbytes), util::hex_sig(b)),
                    format!("to_json on {} bytes under {:?} performed {} allocations with {} bytes live at peak (largest single request {}): work and memory follow a declared length, not the input", b.len(), ty, st.count, st.peak, st.largest),
                    case(),
                );
                return true;
            }
            if ok && kind.starts_with("declared_") {
                sh.violate(idx, "bytes-to-json", format!("to_json-accept:{}:{}", util::hex_sig(tbytes), util::hex_sig(b)), format!("to_json under {:?} accepts bytes whose declared byte length exceeds the input", ty), case());
                return true;
            }
            false
        }
    }
}

/// The witness class of the byte-list loop: a declared `ByteList` length (or a schema-declared
/// `ByteArray` length) far beyond the input, up to 2^32-1; ascending, stopping at the first
/// violation so that a regression is seen while it is still cheap.
fn declared_length_class(sh: &mut Shard, idx: u64, r: &mut Rng, ty: &Type, tbytes: &[u8], bytes: &[u8]) {
    for (off, sl) in bytelist_length_fields(ty, bytes).into_iter().take(3) {
        let w = match sl {
            SizeLength::U8 => 1usize,
            SizeLength::U16 => 2,
            SizeLength::U32 => 4,
            SizeLength::U64 => 8,
        };
        if off + w > bytes.len() {
            continue;
        }
        let remaining = (bytes.len() - off - w) as u64;
        let max = match sl {
            SizeLength::U8 => 255u64,
            SizeLength::U16 => 65535,
            _ => u32::MAX as u64,
        };
        let mut ladder = vec![remaining + 1, 1 << 12, 1 << 20, r.range(1 << 20, u32::MAX as u64), max];
        ladder.retain(|v| *v > remaining && *v <= max);
        ladder.sort();
        ladder.dedup();
        for v in ladder {
            let mut m = bytes.to_vec();
            m[off..off + w].copy_from_slice(&v.to_le_bytes()[..w]);
            if hostile(sh, idx, ty, tbytes, &m, "declared_bytelist_beyond_input") {
                break;
            }
        }
    }
    // schema-declared byte array longer than the input
    for n in [1u32 << 12, 1 << 20, r.range(1 << 20, u32::MAX as u64) as u32, u32::MAX] {
        let t = Type::Pair(Box::new(Type::U8), Box::new(Type::ByteArray(n)));
        let k = r.below(40) as usize;
        let b = r.bytes(k);
        sh.max("max.hostile.declared_len", n as u64);
        if hostile(sh, idx, &t, &to_bytes(&t), &b, "declared_bytearray_beyond_input") {
            break;
        }
    }
}

fn record_constructors(sh: &mut Shard, t: &Type) {
    let name = match t {
        Type::Unit => "Unit",
        Type::Bool => "Bool",
        Type::U8 => "U8",
        Type::U16 => "U16",
        Type::U32 => "U32",
        Type::U64 => "U64",
        Type::U128 => "U128",
        Type::I8 => "I8",
        Type::I16 => "I16",
        Type::I32 => "I32",
        Type::I64 => "I64",
        Type::I128 => "I128",
        Type::Amount => "Amount",
        Type::AccountAddress => "AccountAddress",
        Type::ContractAddress => "ContractAddress",
        Type::Timestamp => "Timestamp",
        Type::Duration => "Duration",
        Type::Pair(..) => "Pair",
        Type::List(..) => "List",
        Type::Set(..) => "Set",
        Type::Map(..) => "Map",
        Type::Array(..) => "Array",
        Type::Struct(..) => "Struct",
        Type::Enum(v) => {
            if v.len() > 256 {
                "Enum>256"
            } else {
                "Enum"
            }
        }
        Type::String(..) => "String",
        Type::ContractName(..) => "ContractName",
        Type::ReceiveName(..) => "ReceiveName",
        Type::ULeb128(..) => "ULeb128",
        Type::ILeb128(..) => "ILeb128",
        Type::ByteList(..) => "ByteList",
        Type::ByteArray(..) => "ByteArray",
        Type::TaggedEnum(..) => "TaggedEnum",
    };
    sh.hit(&format!("ctor.{}", name));
    match t {
        Type::List(sl, _) | Type::Set(sl, _) | Type::Map(sl, ..) | Type::String(sl) | Type::ByteList(sl) | Type::ContractName(sl) | Type::ReceiveName(sl) => sh.hit(&format!("sizelen.{:?}", sl)),
        _ => {}
    }
    let f = |sh: &mut Shard, f: &Fields| match f {
        Fields::Named(v) => v.iter().for_each(|(_, t)| record_constructors(sh, t)),
        Fields::Unnamed(v) => v.iter().for_each(|t| record_constructors(sh, t)),
        Fields::None => {}
    };
    match t {
        Type::Pair(a, b) | Type::Map(_, a, b) => {
            record_constructors(sh, a);
            record_constructors(sh, b);
        }
        Type::List(_, a) | Type::Set(_, a) | Type::Array(_, a) => record_constructors(sh, a),
        Type::Struct(x) => f(sh, x),
        Type::Enum(v) if v.len() <= 10 => v.iter().for_each(|(_, x)| f(sh, x)),
        Type::TaggedEnum(m) => m.values().for_each(|(_, x)| f(sh, x)),
        _ => {}
    }
}

fn replay(case: &Value, sh: &mut Shard) -> bool {
    let Some(tb) = case.get("type_bytes_hex").and_then(|x| x.as_str()).and_then(vmon_core::unhex) else { return false };
    let Ok(ty) = from_bytes::<Type>(&tb) else {
        println!("stored type does not decode");
        return false;
    };
    println!("replaying stored witness under type {:?}", ty);
    if let (Some(ji), Some(jo), Some(eb)) = (case.get("json_in"), case.get("json_out"), case.get("expected_bytes_hex").and_then(|x| x.as_str()).and_then(vmon_core::unhex)) {
        sh.evaluations += 1;
        let got = vmon_core::catch(|| ty.serial_value(ji).map_err(|e| e.display(false)));
        println!("  serial_value(json_in) = {:?}\n  expected bytes          {}", got.clone().map(|x| x.map(|b| vmon_core::hex(&b))), vmon_core::hex(&eb));
        if !matches!(&got, Ok(Ok(b)) if b == &eb) {
            sh.violate(0, "json-to-bytes", "replay".into(), "serial_value disagrees with the expected bytes".into(), case.clone());
        }
        let got = vmon_core::catch(|| ty.to_json(&mut Cursor::new(&eb[..])).map_err(|e| e.display(false)));
        println!("  to_json(expected bytes) = {:?}\n  expected JSON             {}", got, jo);
        if !matches!(&got, Ok(Ok(j)) if j == jo) {
            sh.violate(0, "bytes-to-json", "replay2".into(), "to_json disagrees with the expected JSON".into(), case.clone());
        }
        return true;
    }
    if let Some(b) = case.get("bytes_hex").and_then(|x| x.as_str()).and_then(vmon_core::unhex) {
        hostile(sh, 0, &ty, &tb, &b, "replay");
        return true;
    }
    false
}

pub fn run(ctx: &ChildCtx, sh: &mut Shard) {
    if ctx.replaying() {
        if let Some(case) = util::replay_case() {
            if replay(&case, sh) {
                return;
            }
        }
    }
    for idx in ctx.indices() {
        ctx.begin_case(idx);
        let mut r = ctx.case_rng(idx);
        if idx % 5 == 4 {
            case_schema(sh, idx, &mut r);
        } else if idx % 25 == 3 {
            case_enum_boundary(sh, idx, &mut r);
        } else if idx % 25 == 8 {
            case_long_collection(sh, idx, &mut r);
        } else if idx % 25 == 13 {
            case_text_values(sh, idx, &mut r);
        } else {
            case_convert(sh, idx, &mut r);
        }
    }
}
