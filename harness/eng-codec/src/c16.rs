//! C16: contract-side serialisation (`concordium-contracts-common`) and basic
//! value types: binary round-trip / canonicity / totality / bounded
//! pre-allocation, strictness of ordered collections, text round-trips,
//! independent grammar recognisers, checked arithmetic against wide integers.
//!
//! D: (exemptions and deliberate limits)
//!  * `BTreeMap`/`BTreeSet` through their plain `Deserial` instances are
//!    documented as "does not ensure the ordering of the keys, it only ensures
//!    that there are no duplicates ... deserializing, and serializing back is in
//!    general not the identity" (impls.rs:1195, 1250); `HashMap`/`HashSet`
//!    likewise (impls.rs:1221, 1276). For these the oracle is: duplicates are
//!    rejected and `decode(reencode(v)) == v`; byte-level canonicity is demanded only
//!    for `deserial_ctx(.., ensure_ordered = true, ..)` and
//!    `deserial_map_no_length` / `deserial_set_no_length`, which document the order check.
//!  * Duration strings whose total exceeds u64 are never generated (observation O4:
//!    `Duration::from_str` accumulates with unchecked `+=`/`*`).
//!  * Allocation bound: 64*len + 4096*ELEM + 4 MiB (contracts-common caps
//!    pre-allocation at MAX_PREALLOCATED_CAPACITY = 4096 elements; `OwnedPolicy`
//!    pre-allocates up to 65535 (tag, value) pairs = 2.1 MiB from a u16 length, which
//!    is a constant bound and accepted).
//!  * `ExchangeRates::convert_*` are compared with u128 arithmetic only when the
//!    exact result fits u64 (the functions document rounding, not overflow behaviour).
//!  * Timestamp grammar (RFC 3339) is exercised through Display/FromStr
//!    round-trips and chrono-independent boundary strings, not a full recogniser.
//!  * Hex key/signature types: exactly 64/66/128 hexadecimal digits (either case) are
//!    accepted, everything else is rejected without panic; hash types: only
//!    `FromStr(Display(v)) == v`.
use crate::util;
use concordium_contracts_common::{self as cc, schema::SizeLength, *};
use sha2::{Digest, Sha256};
use std::{
    collections::{BTreeMap, BTreeSet, HashSet},
    str::FromStr,
};
use vmon_core::{alloc::AllocStats, json, ChildCtx, Rng, Shard};

const ALLOC_CONST: usize = 4 << 20;

// ------------------------------------------------------------------ binary registry
pub struct DecOut {
    pub res: Result<(usize, Vec<u8>, bool), String>, // consumed, re-encoding, decode(reencode)==value
    pub panic: Option<String>,
    pub stats: AllocStats,
}

#[derive(Clone, Copy, PartialEq)]
pub enum Canon {
    /// re-encoding must equal the consumed bytes
    Bytes,
    /// documented as not canonical: decode(reencode(v)) == v only
    Value,
}

pub struct Entry {
    pub name: &'static str,
    pub elem: usize,
    pub canon: Canon,
    /// collection of zero-sized elements: decoding loops over the declared length without
    /// consuming input, so hostile lengths are kept <= 100 000 (cf. O2)
    pub zst: bool,
    pub gen: fn(&mut Rng) -> (Vec<u8>, Result<(), String>),
    pub dec: fn(&[u8]) -> DecOut,
}

fn dec_as<T: Serial + Deserial + PartialEq>(b: &[u8]) -> DecOut { dec_by::<T>(b, |a, b| a == b) }

fn dec_by<T: Serial + Deserial>(b: &[u8], eq: fn(&T, &T) -> bool) -> DecOut {
    let (r, stats) = vmon_core::alloc::measure(|| {
        vmon_core::catch(|| {
            let mut c = Cursor::new(b);
            let v = T::deserial(&mut c);
            (v, c.offset)
        })
    });
    match r {
        Err(p) => DecOut { res: Err("panic".into()), panic: Some(p), stats },
        Ok((Err(_), _)) => DecOut { res: Err("ParseError".into()), panic: None, stats },
        Ok((Ok(v), pos)) => match vmon_core::catch(|| {
            let re = to_bytes(&v);
            let same = matches!(from_bytes::<T>(&re), Ok(v2) if eq(&v2, &v));
            (re, same)
        }) {
            Ok((re, same)) => DecOut { res: Ok((pos, re, same)), panic: None, stats },
            Err(p) => DecOut { res: Err("panic".into()), panic: Some(format!("re-encoding a decoded value panicked: {}", p)), stats },
        },
    }
}

fn rt<T: Serial + Deserial + PartialEq>(v: &T, canon: Canon) -> (Vec<u8>, Result<(), String>) { rt_by(v, canon, |a, b| a == b) }

fn rt_by<T: Serial + Deserial>(v: &T, canon: Canon, eq: fn(&T, &T) -> bool) -> (Vec<u8>, Result<(), String>) {
    let bytes = to_bytes(v);
    let r = vmon_core::catch(|| {
        let mut c = Cursor::new(&bytes[..]);
        (T::deserial(&mut c), c.offset)
    });
    let res = match r {
        Err(p) => Err(format!("decoding the encoding of a valid value panicked: {}", p)),
        Ok((Err(_), _)) => Err("the encoding of a valid value is rejected".to_string()),
        Ok((Ok(v2), pos)) => {
            if pos != bytes.len() {
                Err(format!("decoding consumed {} of {} bytes", pos, bytes.len()))
            } else if !eq(&v2, v) {
                Err("decoded value differs from the original".into())
            } else if canon == Canon::Bytes && to_bytes(&v2) != bytes {
                Err("re-encoding of the decoded value differs".into())
            } else {
                Ok(())
            }
        }
    };
    (bytes, res)
}

pub trait G: Sized {
    fn g(r: &mut Rng) -> Self;
}
macro_rules! g_int {
    ($($t:ty),*) => {$( impl G for $t { fn g(r: &mut Rng) -> Self { r.u64v() as $t } } )*};
}
g_int!(u8, u16, u32, u64, i8, i16, i32, i64);
impl G for u128 {
    fn g(r: &mut Rng) -> Self { ((r.u64v() as u128) << 64) | r.u64v() as u128 }
}
impl G for i128 {
    fn g(r: &mut Rng) -> Self { u128::g(r) as i128 }
}
impl G for bool {
    fn g(r: &mut Rng) -> Self { r.chance(1, 2) }
}
impl G for () {
    fn g(_: &mut Rng) -> Self {}
}
fn slen(r: &mut Rng) -> usize {
    match r.below(10) {
        0 => 0,
        1 => 1,
        2..=7 => r.range(2, 6) as usize,
        _ => r.range(7, 40) as usize,
    }
}
impl G for String {
    fn g(r: &mut Rng) -> Self {
        let n = if r.chance(1, 40) { r.range(4090, 5000) as usize } else { slen(r) };
        util::unicode(r, n)
    }
}
impl<T: G> G for Vec<T> {
    fn g(r: &mut Rng) -> Self { (0..slen(r)).map(|_| T::g(r)).collect() }
}
impl<T: G> G for Option<T> {
    fn g(r: &mut Rng) -> Self {
        if r.chance(1, 3) {
            None
        } else {
            Some(T::g(r))
        }
    }
}
impl<T: G> G for Box<T> {
    fn g(r: &mut Rng) -> Self { Box::new(T::g(r)) }
}
impl<A: G, B: G> G for (A, B) {
    fn g(r: &mut Rng) -> Self { (A::g(r), B::g(r)) }
}
impl<A: G, B: G, C: G> G for (A, B, C) {
    fn g(r: &mut Rng) -> Self { (A::g(r), B::g(r), C::g(r)) }
}
impl<A: G, B: G, C: G, D: G> G for (A, B, C, D) {
    fn g(r: &mut Rng) -> Self { (A::g(r), B::g(r), C::g(r), D::g(r)) }
}
impl<A: G, B: G, C: G, D: G, E: G> G for (A, B, C, D, E) {
    fn g(r: &mut Rng) -> Self { (A::g(r), B::g(r), C::g(r), D::g(r), E::g(r)) }
}
impl<T: G + Ord> G for BTreeSet<T> {
    fn g(r: &mut Rng) -> Self { (0..slen(r)).map(|_| T::g(r)).collect() }
}
impl<K: G + Ord, V: G> G for BTreeMap<K, V> {
    fn g(r: &mut Rng) -> Self { (0..slen(r)).map(|_| (K::g(r), V::g(r))).collect() }
}
impl<T: G + Eq + std::hash::Hash> G for cc::HashSet<T> {
    fn g(r: &mut Rng) -> Self { (0..slen(r)).map(|_| T::g(r)).collect() }
}
impl<K: G + Eq + std::hash::Hash, V: G> G for cc::HashMap<K, V> {
    fn g(r: &mut Rng) -> Self { (0..slen(r)).map(|_| (K::g(r), V::g(r))).collect() }
}
impl<T: G, const N: usize> G for [T; N] {
    fn g(r: &mut Rng) -> Self { std::array::from_fn(|_| T::g(r)) }
}
impl G for Amount {
    fn g(r: &mut Rng) -> Self { Amount::from_micro_ccd(r.u64v()) }
}
impl G for Timestamp {
    fn g(r: &mut Rng) -> Self { Timestamp::from_timestamp_millis(r.u64v()) }
}
impl G for Duration {
    fn g(r: &mut Rng) -> Self { Duration::from_millis(r.u64v()) }
}
impl G for AccountAddress {
    fn g(r: &mut Rng) -> Self {
        let mut b = [0u8; 32];
        if !r.chance(1, 16) {
            r.fill(&mut b);
        }
        AccountAddress(b)
    }
}
impl G for ContractAddress {
    fn g(r: &mut Rng) -> Self { ContractAddress::new(r.u64v(), r.u64v()) }
}
impl G for Address {
    fn g(r: &mut Rng) -> Self {
        if r.chance(1, 2) {
            Address::Account(G::g(r))
        } else {
            Address::Contract(G::g(r))
        }
    }
}
impl G for AccountBalance {
    fn g(r: &mut Rng) -> Self {
        let t = r.u64v();
        AccountBalance::new(Amount::from_micro_ccd(t), Amount::from_micro_ccd(r.below(t.saturating_add(1).max(1))), Amount::from_micro_ccd(r.below(t.saturating_add(1).max(1)))).expect("staked, locked <= total")
    }
}
impl G for ExchangeRate {
    fn g(r: &mut Rng) -> Self {
        loop {
            if let Some(x) = ExchangeRate::new(r.u64v(), r.u64v()) {
                return x;
            }
        }
    }
}
impl G for ExchangeRates {
    fn g(r: &mut Rng) -> Self { ExchangeRates { euro_per_energy: G::g(r), micro_ccd_per_euro: G::g(r) } }
}
impl G for AccountThreshold {
    fn g(r: &mut Rng) -> Self { AccountThreshold::try_from(r.range(1, 255) as u8).unwrap() }
}
impl G for SignatureThreshold {
    fn g(r: &mut Rng) -> Self { SignatureThreshold::try_from(r.range(1, 255) as u8).unwrap() }
}
const NAME_CHARS: &[u8] = b"abcdefghijklmnopqrstuvwxyzABCDEFGHIJKLMNOPQRSTUVWXYZ0123456789!\"#$%&'()*+,-/:;<=>?@[\\]^_`{|}~";
fn name_chars(r: &mut Rng, n: usize, dots: bool) -> String {
    (0..n)
        .map(|_| if dots && r.chance(1, 10) { '.' } else { NAME_CHARS[r.below(NAME_CHARS.len() as u64) as usize] as char })
        .collect()
}
impl G for OwnedContractName {
    fn g(r: &mut Rng) -> Self {
        let n = if r.chance(1, 8) { 95 } else { r.below(40) as usize };
        OwnedContractName::new(format!("init_{}", name_chars(r, n, false))).expect("valid by grammar")
    }
}
impl G for OwnedReceiveName {
    fn g(r: &mut Rng) -> Self {
        let a = r.below(30) as usize;
        let b = if r.chance(1, 8) { 99 - a } else { r.below(40) as usize };
        OwnedReceiveName::new(format!("{}.{}", name_chars(r, a, true), name_chars(r, b, true))).expect("valid by grammar")
    }
}
impl G for OwnedEntrypointName {
    fn g(r: &mut Rng) -> Self {
        let n = if r.chance(1, 8) { 99 } else { r.below(40) as usize };
        OwnedEntrypointName::new(name_chars(r, n, true)).expect("valid by grammar")
    }
}
impl G for OwnedParameter {
    fn g(r: &mut Rng) -> Self {
        let n = match r.below(30) {
            0 => 65535,
            1 => r.range(1000, 65535) as usize,
            _ => slen(r),
        };
        OwnedParameter::new_unchecked(r.bytes(n))
    }
}
impl G for ChainMetadata {
    fn g(r: &mut Rng) -> Self { ChainMetadata { slot_time: G::g(r) } }
}
impl G for AttributeTag {
    fn g(r: &mut Rng) -> Self { AttributeTag(r.u64v() as u8) }
}
impl G for AttributeValue {
    fn g(r: &mut Rng) -> Self {
        let n = match r.below(6) {
            0 => 0,
            1 => 31,
            _ => r.below(32) as usize,
        };
        AttributeValue::new(&r.bytes(n)).expect("at most 31 bytes")
    }
}
impl G for OwnedPolicy {
    fn g(r: &mut Rng) -> Self { Policy { identity_provider: G::g(r), created_at: G::g(r), valid_to: G::g(r), items: G::g(r) } }
}
impl<P> G for hashes::HashBytes<P> {
    fn g(r: &mut Rng) -> Self {
        let mut b = [0u8; 32];
        r.fill(&mut b);
        hashes::HashBytes::new(b)
    }
}
impl G for PublicKeyEd25519 {
    fn g(r: &mut Rng) -> Self { PublicKeyEd25519(G::g(r)) }
}
impl G for PublicKeyEcdsaSecp256k1 {
    fn g(r: &mut Rng) -> Self { PublicKeyEcdsaSecp256k1(G::g(r)) }
}
impl G for SignatureEd25519 {
    fn g(r: &mut Rng) -> Self { SignatureEd25519(G::g(r)) }
}
impl G for SignatureEcdsaSecp256k1 {
    fn g(r: &mut Rng) -> Self { SignatureEcdsaSecp256k1(G::g(r)) }
}
impl G for PublicKey {
    fn g(r: &mut Rng) -> Self { PublicKey::Ed25519(G::g(r)) }
}
impl G for CredentialPublicKeys {
    fn g(r: &mut Rng) -> Self {
        let mut keys = BTreeMap::new();
        for _ in 0..r.range(1, 4) {
            keys.insert(r.u64v() as u8, PublicKey::g(r));
        }
        CredentialPublicKeys { keys, threshold: G::g(r) }
    }
}
impl G for AccountPublicKeys {
    fn g(r: &mut Rng) -> Self {
        let mut keys = BTreeMap::new();
        for _ in 0..r.range(1, 3) {
            keys.insert(r.u64v() as u8, CredentialPublicKeys::g(r));
        }
        AccountPublicKeys { keys, threshold: G::g(r) }
    }
}
impl G for WasmVersion {
    fn g(r: &mut Rng) -> Self { *r.pick(&[WasmVersion::V0, WasmVersion::V1]) }
}

macro_rules! ent {
    ($v:ident, $name:literal, $t:ty, $canon:expr, $elem:expr) => {
        $v.push(Entry { name: $name, elem: $elem, canon: $canon, zst: false, gen: |r| rt::<$t>(&<$t as G>::g(r), $canon), dec: dec_as::<$t> });
    };
    ($v:ident, $name:literal, $t:ty) => {
        ent!($v, $name, $t, Canon::Bytes, 64)
    };
}

pub fn registry() -> Vec<Entry> {
    let mut v = vec![];
    ent!(v, "()", ());
    ent!(v, "u8", u8);
    ent!(v, "u16", u16);
    ent!(v, "u32", u32);
    ent!(v, "u64", u64);
    ent!(v, "u128", u128);
    ent!(v, "i8", i8);
    ent!(v, "i16", i16);
    ent!(v, "i32", i32);
    ent!(v, "i64", i64);
    ent!(v, "i128", i128);
    ent!(v, "bool", bool);
    ent!(v, "(u8,u16)", (u8, u16));
    ent!(v, "(bool,u64,String)", (bool, u64, String));
    ent!(v, "(u8,i8,u16,i16)", (u8, i8, u16, i16));
    ent!(v, "(u8,bool,u32,String,Amount)", (u8, bool, u32, String, Amount));
    ent!(v, "String", String);
    ent!(v, "Vec<u8>", Vec<u8>);
    ent!(v, "Vec<u64>", Vec<u64>);
    ent!(v, "Vec<String>", Vec<String>, Canon::Bytes, 64);
    ent!(v, "Vec<Vec<u16>>", Vec<Vec<u16>>);
    ent!(v, "Option<u32>", Option<u32>);
    ent!(v, "Option<Option<String>>", Option<Option<String>>);
    ent!(v, "Box<u64>", Box<u64>);
    ent!(v, "[u8;32]", [u8; 32]);
    ent!(v, "[u32;3]", [u32; 3]);
    ent!(v, "[String;2]", [String; 2]);
    ent!(v, "BTreeMap<u16,u32>", BTreeMap<u16, u32>, Canon::Value, 64);
    ent!(v, "BTreeMap<String,Vec<u8>>", BTreeMap<String, Vec<u8>>, Canon::Value, 128);
    ent!(v, "BTreeSet<u32>", BTreeSet<u32>, Canon::Value, 64);
    ent!(v, "BTreeSet<String>", BTreeSet<String>, Canon::Value, 64);
    ent!(v, "HashMap<u16,u8>", cc::HashMap<u16, u8>, Canon::Value, 64);
    ent!(v, "HashSet<u32>", cc::HashSet<u32>, Canon::Value, 64);
    ent!(v, "Amount", Amount);
    ent!(v, "AccountBalance", AccountBalance);
    ent!(v, "Timestamp", Timestamp);
    ent!(v, "Duration", Duration);
    ent!(v, "AccountAddress", AccountAddress);
    ent!(v, "ContractAddress", ContractAddress);
    ent!(v, "Address", Address);
    ent!(v, "ExchangeRate", ExchangeRate);
    ent!(v, "ExchangeRates", ExchangeRates);
    ent!(v, "AccountThreshold", AccountThreshold);
    ent!(v, "SignatureThreshold", SignatureThreshold);
    ent!(v, "OwnedContractName", OwnedContractName);
    ent!(v, "OwnedReceiveName", OwnedReceiveName);
    ent!(v, "OwnedEntrypointName", OwnedEntrypointName);
    ent!(v, "OwnedParameter", OwnedParameter);
    ent!(v, "AttributeTag", AttributeTag);
    ent!(v, "AttributeValue", AttributeValue);
    // Policy has no PartialEq: compared through its Debug rendering
    v.push(Entry { name: "OwnedPolicy", elem: 64, canon: Canon::Bytes, zst: false, gen: |r| rt_by::<OwnedPolicy>(&G::g(r), Canon::Bytes, |a, b| format!("{:?}", a) == format!("{:?}", b)), dec: |b| dec_by::<OwnedPolicy>(b, |a, b| format!("{:?}", a) == format!("{:?}", b)) });
    ent!(v, "ModuleReference", hashes::ModuleReference);
    ent!(v, "ParameterHash", hashes::HashBytes<u8>);
    ent!(v, "PublicKeyEd25519", PublicKeyEd25519);
    ent!(v, "PublicKeyEcdsaSecp256k1", PublicKeyEcdsaSecp256k1);
    ent!(v, "SignatureEd25519", SignatureEd25519);
    ent!(v, "SignatureEcdsaSecp256k1", SignatureEcdsaSecp256k1);
    ent!(v, "PublicKey", PublicKey);
    // derived Deserial with #[concordium(size_length = 1)] maps: "By default deserialization only
    // ensures uniqueness" (concordium-contracts-common-derive/src/lib.rs:30), i.e. not canonical
    ent!(v, "CredentialPublicKeys", CredentialPublicKeys, Canon::Value, 128);
    ent!(v, "AccountPublicKeys", AccountPublicKeys, Canon::Value, 256);
    ent!(v, "Vec<Address>", Vec<Address>, Canon::Bytes, 64);
    ent!(v, "Vec<(AccountAddress,Amount)>", Vec<(AccountAddress, Amount)>, Canon::Bytes, 64);
    ent!(v, "Option<OwnedReceiveName>", Option<OwnedReceiveName>);
    // collections of zero-sized elements (the element count is the only content)
    fn zlen(r: &mut Rng) -> usize {
        match r.below(8) {
            0 => 0,
            1 => 1,
            2 => 5,
            3 => 70_000,
            _ => r.below(300) as usize,
        }
    }
    v.push(Entry { name: "Vec<()>", elem: 8, canon: Canon::Bytes, zst: true, gen: |r| rt::<Vec<()>>(&vec![(); zlen(r)], Canon::Bytes), dec: dec_as::<Vec<()>> });
    v.push(Entry { name: "Vec<((),())>", elem: 8, canon: Canon::Bytes, zst: true, gen: |r| rt::<Vec<((), ())>>(&vec![((), ()); zlen(r)], Canon::Bytes), dec: dec_as::<Vec<((), ())>> });
    v.push(Entry {
        name: "Vec<PhantomData<u32>>",
        elem: 8,
        canon: Canon::Bytes,
        zst: true,
        gen: |r| rt::<Vec<std::marker::PhantomData<u32>>>(&vec![std::marker::PhantomData; zlen(r)], Canon::Bytes),
        dec: dec_as::<Vec<std::marker::PhantomData<u32>>>,
    });
    v.push(Entry { name: "Vec<[u8;0]>", elem: 8, canon: Canon::Bytes, zst: true, gen: |r| rt::<Vec<[u8; 0]>>(&vec![[0u8; 0]; zlen(r)], Canon::Bytes), dec: dec_as::<Vec<[u8; 0]>> });
    v.push(Entry { name: "(u8,Vec<()>,u8)", elem: 8, canon: Canon::Bytes, zst: true, gen: |r| rt::<(u8, Vec<()>, u8)>(&(r.next() as u8, vec![(); zlen(r)], r.next() as u8), Canon::Bytes), dec: dec_as::<(u8, Vec<()>, u8)> });
    v
}

fn judge(e: &Entry, input: &[u8], o: &DecOut) -> Option<(&'static str, String)> {
    if let Some(p) = &o.panic {
        return Some(("decode-panic", format!("{}: decoding {} bytes panicked: {}", e.name, input.len(), p)));
    }
    let bound = 64 * input.len() + 4096 * e.elem + ALLOC_CONST;
    if o.stats.peak > bound {
        return Some(("alloc-bound", format!("{}: decoding {} bytes had {} bytes live at peak (largest single request {}), bound 64*len + 4096*{} + 4 MiB = {}", e.name, input.len(), o.stats.peak, o.stats.largest, e.elem, bound)));
    }
    if let Ok((pos, re, same)) = &o.res {
        if *pos > input.len() {
            return Some(("overread", format!("{}: {} bytes consumed of {}", e.name, pos, input.len())));
        }
        if !*same {
            return Some(("non-canonical", format!("{}: decoding the re-encoding of a decoded value gives a different value (input {})", e.name, vmon_core::hex_short(&input[..*pos], 64))));
        }
        if e.canon == Canon::Bytes && re[..] != input[..*pos] {
            return Some(("non-canonical", format!("{}: {} decodes successfully but re-encodes as {}", e.name, vmon_core::hex_short(&input[..*pos], 64), vmon_core::hex_short(re, 64))));
        }
    }
    None
}

fn eval(sh: &mut Shard, e: &Entry, idx: u64, mkind: &str, input: &[u8], seen: &mut HashSet<(String, String)>) -> bool {
    let o = (e.dec)(input);
    sh.evaluations += 1;
    sh.hit(&format!("bin.mut.{}", mkind));
    if o.res.is_ok() {
        sh.hit(&format!("bin.type.{}.decode_ok", e.name));
        sh.hit("bin.decode_ok");
    }
    if let Some((kind, detail)) = judge(e, input, &o) {
        if seen.insert((e.name.to_string(), kind.to_string())) {
            let same = |c: &[u8]| matches!(judge(e, c, &(e.dec)(c)), Some((k, _)) if k == kind);
            let min = util::minimise(input, same, 20000, true, kind == "alloc-bound", false);
            let o2 = (e.dec)(&min);
            let (k2, d2) = judge(e, &min, &o2).unwrap_or((kind, detail));
            sh.violate(idx, k2, format!("{}:{}:{}", k2, e.name, util::hex_sig(&min)), d2, json!({"mode": "decode", "type": e.name, "input_hex": vmon_core::hex(&min), "found_by_mutation": mkind}));
        } else {
            sh.hit(&format!("violation.{}", kind));
        }
        return true;
    }
    false
}

fn case_binary(sh: &mut Shard, reg: &[Entry], idx: u64, sub: u64, r: &mut Rng, seen: &mut HashSet<(String, String)>, light: bool) {
    let e = &reg[(sub % reg.len() as u64) as usize];
    let (b, rtres) = (e.gen)(r);
    sh.evaluations += 1;
    sh.hit(&format!("bin.type.{}.roundtrip", e.name));
    sh.hit("bin.roundtrip");
    if let Err(d) = rtres {
        sh.violate(idx, "roundtrip", format!("roundtrip:{}:{}", e.name, util::hex_sig(&b)), format!("{}: {}", e.name, d), json!({"mode": "value", "type": e.name, "input_hex": vmon_core::hex(&b)}));
    }
    if e.zst {
        // hostile inputs with declared lengths kept small: every truncation, extension, and the
        // length field set to values <= 100 000 (at its offset: 0, or 1 for the tuple)
        eval(sh, e, idx, "valid", &b, seen);
        for off in 0..b.len() {
            eval(sh, e, idx, "truncate_at", &b[..off], seen);
        }
        let at = if e.name.starts_with('(') { 1 } else { 0 };
        for _ in 0..40 {
            let mut m = b.clone();
            if m.len() >= at + 4 {
                let v = match r.below(4) {
                    0 => r.below(4),
                    1 => 100_000,
                    _ => r.below(100_000),
                } as u32;
                m[at..at + 4].copy_from_slice(&v.to_le_bytes());
            }
            if r.chance(1, 2) {
                let k = r.below(6) as usize;
                m.extend(r.bytes(k));
            }
            if at == 1 && r.chance(1, 3) {
                m[0] = r.next() as u8;
            }
            eval(sh, e, idx, "zst_length", &m, seen);
        }
        util::nt(sh, vmon_core::mix(&[1, vmon_core::fnv(e.name.as_bytes()), vmon_core::fast_hash(&b)]));
        return;
    }
    let (other, _) = (e.gen)(r);
    let n = b.len();
    eval(sh, e, idx, "valid", &b, seen);
    for off in 0..n.min(if light { 16 } else { 64 }) {
        eval(sh, e, idx, "truncate_at", &b[..off], seen);
    }
    if n > 0 {
        let mut m = b.clone();
        for t in (0..=255u8).step_by(if light { 17 } else { 1 }) {
            m[0] = t;
            eval(sh, e, idx, "tag_sweep", &m, seen);
        }
        for _ in 0..(if light { 4 } else { 16 }) {
            let w = *r.pick(&[1usize, 2, 4, 8]);
            if w > n {
                continue;
            }
            let off = r.below((n - w) as u64 + 1) as usize;
            let mut m = b.clone();
            // little-endian length fields: write the value little-endian
            for v in util::inflate_values(w) {
                let le = v.to_le_bytes();
                m[off..off + w].copy_from_slice(&le[..w]);
                if eval(sh, e, idx, "inflate_le", &m, seen) {
                    break;
                }
            }
        }
    }
    let mut changed_ok = false;
    for _ in 0..(if light { 24 } else { 200 }) {
        let (k, m) = util::mutate(r, &b, &other);
        let before = sh.get("bin.decode_ok");
        eval(sh, e, idx, k, &m, seen);
        if sh.get("bin.decode_ok") > before && m != b {
            changed_ok = true;
        }
    }
    if changed_ok {
        util::nt(sh, vmon_core::mix(&[1, vmon_core::fnv(e.name.as_bytes()), vmon_core::fast_hash(&b)]));
    }
    sh.sample(|| json!({"kind": "binary", "type": e.name, "valid_encoding_hex": vmon_core::hex_short(&b, 80)}));
}

// ------------------------------------------------------------------ ordered collections
fn le_len(len: usize, sl: SizeLength) -> Vec<u8> {
    match sl {
        SizeLength::U8 => vec![len as u8],
        SizeLength::U16 => (len as u16).to_le_bytes().to_vec(),
        SizeLength::U32 => (len as u32).to_le_bytes().to_vec(),
        SizeLength::U64 => (len as u64).to_le_bytes().to_vec(),
    }
}

fn case_ordered(sh: &mut Shard, idx: u64, r: &mut Rng) {
    // strictly increasing u32 keys; the expected bytes are written by the harness (little-endian)
    let n = r.range(2, 12) as usize;
    let mut keys: Vec<u32> = BTreeSet::<u32>::from_iter((0..n * 2).map(|_| match r.below(3) {
        0 => r.below(20) as u32,
        _ => r.next() as u32,
    }))
    .into_iter()
    .take(n)
    .collect();
    keys.sort();
    let n = keys.len();
    if n < 2 {
        return;
    }
    let vals: Vec<u16> = (0..n).map(|_| r.next() as u16).collect();
    let sl = *r.pick(&[SizeLength::U8, SizeLength::U16, SizeLength::U32, SizeLength::U64]);
    let enc_set = |ks: &[u32], with_len: Option<SizeLength>| {
        let mut b = with_len.map(|s| le_len(ks.len(), s)).unwrap_or_default();
        for k in ks {
            b.extend_from_slice(&k.to_le_bytes());
        }
        b
    };
    let enc_map = |ks: &[u32], vs: &[u16], with_len: Option<SizeLength>| {
        let mut b = with_len.map(|s| le_len(ks.len(), s)).unwrap_or_default();
        for (k, v) in ks.iter().zip(vs) {
            b.extend_from_slice(&k.to_le_bytes());
            b.extend_from_slice(&v.to_le_bytes());
        }
        b
    };
    let i = r.below(n as u64 - 1) as usize;
    let mut dup = keys.clone();
    dup[i + 1] = dup[i];
    let mut swp = keys.clone();
    swp.swap(i, i + 1);
    let set_ok: BTreeSet<u32> = keys.iter().copied().collect();
    let map_ok: BTreeMap<u32, u16> = keys.iter().copied().zip(vals.iter().copied()).collect();
    let mut check = |name: &str, what: &str, got_ok: Option<bool>, want_ok: bool, bytes: &[u8]| {
        sh.evaluations += 1;
        sh.hit(&format!("ordered.{}.{}", name, what));
        match got_ok {
            None => sh.violate(idx, "decode-panic", format!("ordered-panic:{}:{}:{}", name, what, vmon_core::hex(bytes)), format!("{} panicked on {} input", name, what), json!({"api": name, "input": what, "bytes_hex": vmon_core::hex(bytes)})),
            Some(g) if g != want_ok => sh.violate(
                idx,
                "ordered-collection",
                format!("ordered:{}:{}:{}", name, what, vmon_core::hex(bytes)),
                format!("{}: {} input is {} but must be {}", name, what, if g { "accepted (or decoded to a different value)" } else { "rejected" }, if want_ok { "accepted with the expected value" } else { "rejected" }),
                json!({"api": name, "input": what, "bytes_hex": vmon_core::hex(bytes)}),
            ),
            _ => {}
        }
    };
    // accepted-with-expected-value is encoded as Some(true); rejected as Some(false)
    macro_rules! run {
        ($name:expr, $what:expr, $want:expr, $bytes:expr, $call:expr, $expect:expr) => {{
            let b: Vec<u8> = $bytes;
            let got = vmon_core::catch(|| {
                let mut c = Cursor::new(&b[..]);
                let x = $call(&mut c);
                (x, c.offset)
            });
            let g = match got {
                Err(_) => None,
                Ok((Ok(v), off)) => Some(if $want { v == $expect && off == b.len() } else { true }),
                Ok((Err(_), _)) => Some(false),
            };
            check($name, $what, g, $want, &b);
        }};
    }
    // sets
    run!("deserial_set_no_length", "sorted", true, enc_set(&keys, None), |c: &mut Cursor<&[u8]>| deserial_set_no_length::<_, u32>(c, n), set_ok);
    run!("deserial_set_no_length", "duplicate", false, enc_set(&dup, None), |c: &mut Cursor<&[u8]>| deserial_set_no_length::<_, u32>(c, n), set_ok);
    run!("deserial_set_no_length", "unordered", false, enc_set(&swp, None), |c: &mut Cursor<&[u8]>| deserial_set_no_length::<_, u32>(c, n), set_ok);
    run!("deserial_set_no_length_no_order_check", "unordered", true, enc_set(&swp, None), |c: &mut Cursor<&[u8]>| deserial_set_no_length_no_order_check::<_, u32>(c, n), set_ok);
    run!("deserial_set_no_length_no_order_check", "duplicate", false, enc_set(&dup, None), |c: &mut Cursor<&[u8]>| deserial_set_no_length_no_order_check::<_, u32>(c, n), set_ok);
    run!("BTreeSet::deserial_ctx(ordered)", "sorted", true, enc_set(&keys, Some(sl)), |c: &mut Cursor<&[u8]>| BTreeSet::<u32>::deserial_ctx(sl, true, c), set_ok);
    run!("BTreeSet::deserial_ctx(ordered)", "duplicate", false, enc_set(&dup, Some(sl)), |c: &mut Cursor<&[u8]>| BTreeSet::<u32>::deserial_ctx(sl, true, c), set_ok);
    run!("BTreeSet::deserial_ctx(ordered)", "unordered", false, enc_set(&swp, Some(sl)), |c: &mut Cursor<&[u8]>| BTreeSet::<u32>::deserial_ctx(sl, true, c), set_ok);
    run!("BTreeSet::deserial_ctx(unordered)", "unordered", true, enc_set(&swp, Some(sl)), |c: &mut Cursor<&[u8]>| BTreeSet::<u32>::deserial_ctx(sl, false, c), set_ok);
    run!("BTreeSet::deserial_ctx(unordered)", "duplicate", false, enc_set(&dup, Some(sl)), |c: &mut Cursor<&[u8]>| BTreeSet::<u32>::deserial_ctx(sl, false, c), set_ok);
    run!("BTreeSet::deserial", "unordered", true, enc_set(&swp, Some(SizeLength::U32)), |c: &mut Cursor<&[u8]>| BTreeSet::<u32>::deserial(c), set_ok);
    run!("BTreeSet::deserial", "duplicate", false, enc_set(&dup, Some(SizeLength::U32)), |c: &mut Cursor<&[u8]>| BTreeSet::<u32>::deserial(c), set_ok);
    run!("HashSet::deserial", "duplicate", false, enc_set(&dup, Some(SizeLength::U32)), |c: &mut Cursor<&[u8]>| cc::HashSet::<u32>::deserial(c), cc::HashSet::<u32>::default());
    run!("HashSet::deserial", "unordered", true, enc_set(&swp, Some(SizeLength::U32)), |c: &mut Cursor<&[u8]>| cc::HashSet::<u32>::deserial(c), keys.iter().copied().collect::<cc::HashSet<u32>>());
    // maps
    run!("deserial_map_no_length", "sorted", true, enc_map(&keys, &vals, None), |c: &mut Cursor<&[u8]>| deserial_map_no_length::<_, u32, u16>(c, n), map_ok);
    run!("deserial_map_no_length", "duplicate", false, enc_map(&dup, &vals, None), |c: &mut Cursor<&[u8]>| deserial_map_no_length::<_, u32, u16>(c, n), map_ok);
    run!("deserial_map_no_length", "unordered", false, enc_map(&swp, &vals, None), |c: &mut Cursor<&[u8]>| deserial_map_no_length::<_, u32, u16>(c, n), map_ok);
    run!("deserial_map_no_length_no_order_check", "duplicate", false, enc_map(&dup, &vals, None), |c: &mut Cursor<&[u8]>| deserial_map_no_length_no_order_check::<_, u32, u16>(c, n), map_ok);
    run!("BTreeMap::deserial_ctx(ordered)", "sorted", true, enc_map(&keys, &vals, Some(sl)), |c: &mut Cursor<&[u8]>| BTreeMap::<u32, u16>::deserial_ctx(sl, true, c), map_ok);
    run!("BTreeMap::deserial_ctx(ordered)", "duplicate", false, enc_map(&dup, &vals, Some(sl)), |c: &mut Cursor<&[u8]>| BTreeMap::<u32, u16>::deserial_ctx(sl, true, c), map_ok);
    run!("BTreeMap::deserial_ctx(ordered)", "unordered", false, enc_map(&swp, &vals, Some(sl)), |c: &mut Cursor<&[u8]>| BTreeMap::<u32, u16>::deserial_ctx(sl, true, c), map_ok);
    run!("BTreeMap::deserial_ctx(unordered)", "duplicate", false, enc_map(&dup, &vals, Some(sl)), |c: &mut Cursor<&[u8]>| BTreeMap::<u32, u16>::deserial_ctx(sl, false, c), map_ok);
    run!("BTreeMap::deserial", "sorted", true, enc_map(&keys, &vals, Some(SizeLength::U32)), |c: &mut Cursor<&[u8]>| BTreeMap::<u32, u16>::deserial(c), map_ok);
    run!("BTreeMap::deserial", "duplicate", false, enc_map(&dup, &vals, Some(SizeLength::U32)), |c: &mut Cursor<&[u8]>| BTreeMap::<u32, u16>::deserial(c), map_ok);
    run!("HashMap::deserial", "duplicate", false, enc_map(&dup, &vals, Some(SizeLength::U32)), |c: &mut Cursor<&[u8]>| cc::HashMap::<u32, u16>::deserial(c), cc::HashMap::<u32, u16>::default());
    // the encoders must produce exactly the harness bytes (sorted, little-endian, declared size length)
    let mut out = vec![];
    let ok = set_ok.serial_ctx(sl, &mut Cursor::new(&mut out)).is_ok();
    sh.evaluations += 1;
    if !ok || out != enc_set(&keys, Some(sl)) {
        sh.violate(idx, "encode", format!("ordered-encode:set:{:?}:{}", sl, vmon_core::hex(&out)), "BTreeSet::serial_ctx does not produce length + sorted little-endian elements".into(), json!({"got_hex": vmon_core::hex(&out), "want_hex": vmon_core::hex(&enc_set(&keys, Some(sl)))}));
    }
    util::nt(sh, vmon_core::mix(&[2, vmon_core::fast_hash(&enc_map(&keys, &vals, None))]));
}

// ------------------------------------------------------------------ text forms
pub fn b58check_v1(payload: &[u8; 32]) -> String {
    // independent base58check: version byte 1, 4-byte double-SHA256 checksum
    const A: &[u8] = b"123456789ABCDEFGHJKLMNPQRSTUVWXYZabcdefghijkmnopqrstuvwxyz";
    let mut data = vec![1u8];
    data.extend_from_slice(payload);
    let h = Sha256::digest(Sha256::digest(&data));
    data.extend_from_slice(&h[..4]);
    let mut n = num_bigint::BigUint::from_bytes_be(&data);
    let mut out = vec![];
    let base = num_bigint::BigUint::from(58u32);
    while n > num_bigint::BigUint::from(0u32) {
        let d = (&n % &base).to_u32_digits().first().copied().unwrap_or(0);
        out.push(A[d as usize]);
        n /= &base;
    }
    for b in &data {
        if *b == 0 {
            out.push(b'1');
        } else {
            break;
        }
    }
    out.reverse();
    String::from_utf8(out).unwrap()
}

fn valid_name_char(c: char) -> bool {
    // ASCII alphanumeric or punctuation: written out from the ASCII table
    matches!(c, 'a'..='z' | 'A'..='Z' | '0'..='9') || matches!(c as u32, 0x21..=0x2f | 0x3a..=0x40 | 0x5b..=0x60 | 0x7b..=0x7e)
}
fn rec_contract_name(s: &str) -> bool { s.starts_with("init_") && s.len() <= 100 && (!s.contains('.') || util::selftest("c16")) && s.chars().all(valid_name_char) }
fn rec_receive_name(s: &str) -> bool { s.contains('.') && s.len() <= 100 && s.chars().all(valid_name_char) }
fn rec_entrypoint_name(s: &str) -> bool { s.len() < 100 && s.chars().all(valid_name_char) }

/// `n[.m]`: n digits without superfluous leading zero, m 1..=6 digits; value in micro CCD fits u64
fn rec_amount(s: &str) -> Option<u64> {
    let (n, m) = match s.split_once('.') {
        Some((n, m)) => (n, Some(m)),
        None => (s, None),
    };
    if n.is_empty() || !n.bytes().all(|b| b.is_ascii_digit()) || (n.len() > 1 && n.starts_with('0')) {
        return None;
    }
    let mut frac: u128 = 0;
    if let Some(m) = m {
        if m.is_empty() || m.len() > 6 || !m.bytes().all(|b| b.is_ascii_digit()) {
            return None;
        }
        frac = m.parse::<u128>().ok()? * 10u128.pow(6 - m.len() as u32);
    }
    if n.len() > 30 {
        return None;
    }
    let total = n.parse::<u128>().ok()? * 1_000_000 + frac;
    u64::try_from(total).ok()
}

/// whitespace separated `<digits><unit>`; None = outside the grammar; Some(None) = inside the grammar but total beyond u64 (outside the claim)
fn rec_duration(s: &str) -> Option<Option<u64>> {
    let mut total: u128 = 0;
    // once the running total has left u64 the string is outside the claim (O4), whatever follows
    let bad = |total: u128| if total > u64::MAX as u128 { Some(None) } else { None };
    for tok in s.split(char::is_whitespace).filter(|t| !t.is_empty()) {
        let Some(i) = tok.find(|c: char| !c.is_ascii_digit()) else { return bad(total) };
        let (n, unit) = tok.split_at(i);
        if n.is_empty() || n.len() > 25 {
            return bad(total);
        }
        let Ok(n) = n.parse::<u128>() else { return bad(total) };
        if n > u64::MAX as u128 {
            return bad(total);
        }
        let u: u128 = match unit {
            "ms" => 1,
            "s" => 1000,
            "m" => 60_000,
            "h" => 3_600_000,
            "d" => 86_400_000,
            _ => return bad(total),
        };
        total += n * u;
    }
    Some(u64::try_from(total).ok())
}

fn rec_u64(s: &str) -> Option<u64> {
    let d = s.strip_prefix('+').unwrap_or(s);
    if d.is_empty() || d.len() > 40 || !d.bytes().all(|b| b.is_ascii_digit()) {
        return None;
    }
    u64::try_from(d.parse::<u128>().ok()?).ok()
}
fn rec_contract_address(s: &str) -> Option<(u64, u64)> {
    let t = s.strip_prefix('<')?.strip_suffix('>')?;
    let (a, b) = t.split_once(',')?;
    Some((rec_u64(a)?, rec_u64(b)?))
}

fn mutate_str(r: &mut Rng, s: &str) -> String {
    let mut cs: Vec<char> = s.chars().collect();
    const POOL: &[char] = &['.', '_', 'a', 'Z', '0', '9', ' ', '\t', '\n', '-', '+', ',', '<', '>', 'é', '\u{7f}', '\u{0}', '~', '!', '/', ':', 'm', 's', 'h', 'd', '1', '\u{a0}', '٣'];
    match r.below(4) {
        0 if !cs.is_empty() => {
            let i = r.below(cs.len() as u64) as usize;
            cs[i] = *r.pick(POOL);
        }
        1 => {
            let i = r.below(cs.len() as u64 + 1) as usize;
            cs.insert(i, *r.pick(POOL));
        }
        2 if !cs.is_empty() => {
            let i = r.below(cs.len() as u64) as usize;
            cs.remove(i);
        }
        _ => {
            if cs.len() >= 2 {
                let i = r.below(cs.len() as u64 - 1) as usize;
                cs.swap(i, i + 1);
            } else {
                cs.push(*r.pick(POOL));
            }
        }
    }
    cs.into_iter().collect()
}

fn digits(r: &mut Rng, n: usize) -> String { (0..n).map(|_| (b'0' + r.below(10) as u8) as char).collect() }

fn gen_amount_str(r: &mut Rng) -> String {
    let n = match r.below(8) {
        0 => "0".to_string(),
        1 => "18446744073709".to_string(),
        2 => "18446744073710".to_string(),
        3 => format!("0{}", digits(r, 2)),
        _ => {
            let k = r.range(1, 15) as usize;
            let d = digits(r, k);
            d.trim_start_matches('0').to_string() + if r.chance(1, 2) { "7" } else { "" }
        }
    };
    match r.below(8) {
        0 => n,
        1 => format!("{}.", n),
        2 => format!("{}.551615", n),
        3 => format!("{}.551616", n),
        4 => format!("{}.{}", n, digits(r, 7)),
        _ => {
            let k = r.range(1, 6) as usize;
            format!("{}.{}", n, digits(r, k))
        }
    }
}

fn gen_duration_str(r: &mut Rng) -> String {
    let k = r.below(6);
    let mut parts = vec![];
    let mut budget: u128 = u64::MAX as u128;
    for _ in 0..k {
        let (u, mul): (&str, u128) = *r.pick(&[("ms", 1), ("s", 1000), ("m", 60_000), ("h", 3_600_000), ("d", 86_400_000)]);
        let max = (budget / mul).min(u64::MAX as u128) as u64;
        let n = match r.below(4) {
            0 => max,
            1 => r.below(100).min(max),
            _ => r.below(max.saturating_add(1).max(1)),
        };
        budget -= n as u128 * mul;
        parts.push(if r.chance(1, 6) { format!("00{}{}", n, u) } else { format!("{}{}", n, u) });
    }
    parts.join(*r.pick(&[" ", "  ", "\t", " \n "]))
}

fn case_text(sh: &mut Shard, idx: u64, r: &mut Rng) {
    macro_rules! viol {
        ($kind:expr, $sig:expr, $detail:expr, $case:expr) => {
            sh.violate(idx, $kind, $sig, $detail, $case)
        };
    }
    // ---- FromStr(Display(v)) == v
    macro_rules! text_rt {
        ($name:literal, $v:expr, $parse:expr) => {{
            let v = $v;
            sh.evaluations += 1;
            sh.hit(concat!("text.roundtrip.", $name));
            let r2 = vmon_core::catch(|| {
                let s = v.to_string();
                let p = $parse(&s);
                (s, p)
            });
            match r2 {
                Err(p) => viol!("text-panic", format!("text-panic:{}:{:?}", $name, v), format!("{}: Display/FromStr panicked for {:?}: {}", $name, v, p), json!({"type": $name, "value": format!("{:?}", v)})),
                Ok((s, Ok(v2))) if v2 == v => {
                    let _ = s;
                }
                Ok((s, Ok(v2))) => viol!("text-roundtrip", format!("text-roundtrip:{}:{}", $name, s), format!("{}: {:?} prints as {:?} which parses as {:?}", $name, v, s, v2), json!({"type": $name, "value": format!("{:?}", v), "text": s})),
                Ok((s, Err(e))) => viol!("text-roundtrip", format!("text-roundtrip:{}:{}", $name, s), format!("{}: {:?} prints as {:?} which is rejected by FromStr: {}", $name, v, s, e), json!({"type": $name, "value": format!("{:?}", v), "text": s})),
            }
        }};
    }
    let es = |e: &dyn std::fmt::Debug| format!("{:?}", e);
    text_rt!("Amount", Amount::g(r), |s: &str| Amount::from_str(s).map_err(|e| es(&e)));
    text_rt!("Duration", Duration::g(r), |s: &str| Duration::from_str(s).map_err(|e| es(&e)));
    // timestamps: boundary weighted (year 9999/10000, i64::MAX, u64::MAX)
    let ts = Timestamp::from_timestamp_millis(match r.below(8) {
        0 => 253_402_300_799_999,
        1 => 253_402_300_800_000,
        2 => i64::MAX as u64,
        3 => u64::MAX,
        4 => r.below(4_102_444_800_000),
        5 => r.below(253_402_300_800_000),
        _ => r.u64v(),
    });
    // a failing instant is reported through the boundary witness of its class (year >= 10000, or
    // >= 2^63 where Display casts to i64), so that the signature does not depend on the seed
    let ts_ok = |t: Timestamp| matches!(vmon_core::catch(|| Timestamp::from_str(&t.to_string())), Ok(Ok(t2)) if t2 == t);
    // only instants outside the documented-good range (year <= 9999, below 2^63) are folded into
    // the two boundary witnesses; a failing instant inside the range keeps its own signature
    let ms = ts.timestamp_millis();
    let ts = if ts_ok(ts) || ms < 253_402_300_800_000 {
        ts
    } else {
        let pin = Timestamp::from_timestamp_millis(if ms > i64::MAX as u64 { u64::MAX } else { 253_402_300_800_000 });
        if ts_ok(pin) {
            ts
        } else {
            pin
        }
    };
    text_rt!("Timestamp", ts, |s: &str| Timestamp::from_str(s).map_err(|e| es(&e)));
    text_rt!("AccountAddress", AccountAddress::g(r), |s: &str| AccountAddress::from_str(s).map_err(|e| es(&e)));
    text_rt!("ContractAddress", ContractAddress::g(r), |s: &str| ContractAddress::from_str(s).map_err(|e| es(&e)));
    text_rt!("Address", Address::g(r), |s: &str| Address::from_str(s).map_err(|e| es(&e)));
    text_rt!("OwnedReceiveName", OwnedReceiveName::g(r), |s: &str| OwnedReceiveName::from_str(s).map_err(|e| es(&e)));
    text_rt!("OwnedContractName", OwnedContractName::g(r), |s: &str| OwnedContractName::new(s.to_string()).map_err(|e| es(&e)));
    text_rt!("OwnedEntrypointName", OwnedEntrypointName::g(r), |s: &str| OwnedEntrypointName::new(s.to_string()).map_err(|e| es(&e)));
    text_rt!("PublicKeyEd25519", PublicKeyEd25519::g(r), |s: &str| PublicKeyEd25519::from_str(s).map_err(|e| es(&e)));
    text_rt!("PublicKeyEcdsaSecp256k1", PublicKeyEcdsaSecp256k1::g(r), |s: &str| PublicKeyEcdsaSecp256k1::from_str(s).map_err(|e| es(&e)));
    text_rt!("SignatureEd25519", SignatureEd25519::g(r), |s: &str| SignatureEd25519::from_str(s).map_err(|e| es(&e)));
    text_rt!("SignatureEcdsaSecp256k1", SignatureEcdsaSecp256k1::g(r), |s: &str| SignatureEcdsaSecp256k1::from_str(s).map_err(|e| es(&e)));
    text_rt!("ModuleReference", hashes::ModuleReference::g(r), |s: &str| hashes::ModuleReference::from_str(s).map_err(|e| es(&e)));
    // account address against the independent base58check encoder
    {
        let a = AccountAddress::g(r);
        let want = b58check_v1(&a.0);
        sh.evaluations += 1;
        sh.hit("text.base58.independent");
        if a.to_string() != want {
            viol!("text-grammar", format!("base58-display:{}", vmon_core::hex(&a.0)), format!("AccountAddress {:?} displays as {} but base58check(version 1) is {}", a, a, want), json!({"address_hex": vmon_core::hex(&a.0)}));
        }
        match vmon_core::catch(|| AccountAddress::from_str(&want)) {
            Ok(Ok(b)) if b == a => {}
            other => viol!("text-grammar", format!("base58-parse:{}", want), format!("independent base58check string {} parses as {:?}", want, other.map(|x| x.map_err(|e| es(&e)))), json!({"text": want})),
        }
        // a single character change must be rejected (the checksum collision probability is 2^-32)
        let m = mutate_str(r, &want);
        if m != want {
            sh.evaluations += 1;
            sh.hit("text.base58.mutated");
            match vmon_core::catch(|| AccountAddress::from_str(&m)) {
                Err(p) => viol!("text-panic", format!("text-panic:AccountAddress:{}", m), format!("AccountAddress::from_str panicked on {:?}: {}", m, p), json!({"text": m})),
                Ok(Ok(b)) => {
                    if b58check_v1(&b.0) != m {
                        viol!("text-grammar", format!("base58-accept:{}", m), format!("AccountAddress::from_str accepts {:?} which is not the base58check form of the value it returns ({})", m, b), json!({"text": m}));
                    }
                }
                Ok(Err(_)) => {}
            }
        }
    }
    // ---- RFC 3339 strings with UTC offsets denote the instant computed by the harness
    for _ in 0..4 {
        let (ms, off_min, text) = util::gen_offset_timestamp(r);
        sh.evaluations += 1;
        sh.hit(if off_min == 0 { "text.timestamp_offset.zero" } else if off_min > 0 { "text.timestamp_offset.positive" } else { "text.timestamp_offset.negative" });
        match vmon_core::catch(|| Timestamp::from_str(&text)) {
            Ok(Ok(t)) if t.timestamp_millis() == ms => {}
            other => viol!("text-timestamp-offset", format!("timestamp-offset:{}", text), format!("Timestamp::from_str({:?}) = {:?}, the instant is {} ms after the epoch (offset {} minutes)", text, other.map(|x| x.map(|t| t.timestamp_millis()).map_err(|e| es(&e))), ms, off_min), json!({"text": text, "millis": ms, "offset_minutes": off_min})),
        }
    }
    // ---- receive names: construct(contract, entrypoint) and the split at the FIRST dot
    for _ in 0..4 {
        let cn = match r.below(8) {
            0 => 0,
            1 => 94,
            _ => r.below(30) as usize,
        };
        let contract = name_chars(r, cn, false);
        // entrypoints with 0, 1, 2 dots, also leading / trailing / adjacent
        let en = match r.below(8) {
            0 => 0,
            1 => 99usize.saturating_sub(cn + 1),
            2 => 100usize.saturating_sub(cn + 1),
            3 => 101usize.saturating_sub(cn + 1),
            _ => r.below(30) as usize,
        };
        let mut ep: Vec<char> = name_chars(r, en, false).chars().collect();
        let dots = r.below(4) as usize;
        for _ in 0..dots.min(ep.len()) {
            let i = match r.below(3) {
                0 => 0,
                1 => ep.len() - 1,
                _ => r.below(ep.len() as u64) as usize,
            };
            ep[i] = '.';
        }
        let ep: String = ep.into_iter().collect();
        let ndots = ep.matches('.').count();
        sh.evaluations += 1;
        let full = format!("{}.{}", contract, ep);
        let init = format!("init_{}", contract);
        let case = || json!({"contract": contract, "entrypoint": ep});
        let got = vmon_core::catch(|| {
            let c = ContractName::new(&init).map_err(|e| format!("contract name: {:?}", e))?;
            let e = EntrypointName::new(&ep).map_err(|e| format!("entrypoint name: {:?}", e))?;
            let rn = OwnedReceiveName::construct(c, e).map_err(|e| format!("construct: {:?}", e))?;
            let r2 = rn.as_receive_name();
            let en: &str = r2.entrypoint_name().into();
            Ok::<_, String>((r2.get_chain_name().to_string(), r2.contract_name().to_string(), en.to_string()))
        });
        let valid = init.len() <= 100 && ep.len() < 100 && full.len() <= 100;
        match got {
            Err(p) => viol!("text-panic", format!("text-panic:ReceiveName::construct:{}", full), format!("constructing / decomposing the receive name {:?} panicked: {}", full, p), case()),
            Ok(Err(m)) => {
                sh.hit("receive_name.construct.rejected");
                if valid {
                    viol!("text-grammar", format!("receive-construct-reject:{}", full), format!("construct rejects contract {:?} entrypoint {:?}: {}", contract, ep, m), case());
                }
            }
            Ok(Ok((chain, c2, e2))) => {
                sh.hit("receive_name.construct.ok");
                sh.hit(&format!("receive_name.entrypoint_dots.{}", ndots.min(2)));
                if !valid || chain != full || c2 != contract || e2 != ep {
                    viol!("receive-name-parts", format!("receive-parts:{}", full), format!("construct({:?}, {:?}) gives chain name {:?}, contract_name() {:?}, entrypoint_name() {:?}", contract, ep, chain, c2, e2), case());
                }
            }
        }
        // an arbitrary valid receive name splits at its first dot
        let rn = OwnedReceiveName::g(r);
        let chain = rn.to_string();
        let (wc, we) = chain.split_once('.').expect("generated with a dot");
        sh.evaluations += 1;
        sh.hit("receive_name.split_first_dot");
        if chain.matches('.').count() >= 2 {
            sh.hit("receive_name.split_first_dot.several_dots");
        }
        match vmon_core::catch(|| {
            let r2 = rn.as_receive_name();
            let en: &str = r2.entrypoint_name().into();
            (r2.contract_name().to_string(), en.to_string())
        }) {
            Ok((c2, e2)) if c2 == wc && e2 == we => {}
            other => viol!("receive-name-parts", format!("receive-split:{}", chain), format!("receive name {:?} decomposes into {:?}, expected ({:?}, {:?})", chain, other, wc, we), json!({"receive_name": chain})),
        }
    }
    // ---- grammar recognisers vs validators
    macro_rules! grammar {
        ($name:literal, $s:expr, $want:expr, $got:expr) => {{
            let s: String = $s;
            sh.evaluations += 1;
            let want = $want(&s);
            match vmon_core::catch(|| $got(&s)) {
                Err(p) => viol!("text-panic", format!("text-panic:{}:{}", $name, s), format!("{} validator panicked on {:?}: {}", $name, s, p), json!({"validator": $name, "text": s})),
                Ok(got) => {
                    sh.hit(if want.is_some() { concat!("grammar.", $name, ".accept") } else { concat!("grammar.", $name, ".reject") });
                    if got != want {
                        viol!("text-grammar", format!("grammar:{}:{}", $name, s), format!("{}: {:?} -> library {:?}, documented grammar {:?}", $name, s, got, want), json!({"validator": $name, "text": s}));
                    }
                }
            }
        }};
    }
    for round in 0..6 {
        let mutated = round % 2 == 1;
        let m = |r: &mut Rng, s: String| if mutated { mutate_str(r, &s) } else { s };
        // names
        let n = match r.below(6) {
            0 => 95,
            1 => 96,
            2 => 94,
            _ => r.below(30) as usize,
        };
        let s0 = format!("init_{}", name_chars(r, n, false));
        let s = m(r, s0);
        grammar!("ContractName", s, |s: &str| rec_contract_name(s).then_some(()), |s: &str| ContractName::new(s).ok().map(|_| ()));
        let n = match r.below(6) {
            0 => 100,
            1 => 101,
            2 => 99,
            _ => r.range(1, 40) as usize,
        };
        let mut s = name_chars(r, n, false);
        if !s.is_empty() && !r.chance(1, 8) {
            let i = r.below(s.len() as u64) as usize;
            s.replace_range(i..i + 1, ".");
        }
        let s = m(r, s);
        grammar!("ReceiveName", s.clone(), |s: &str| rec_receive_name(s).then_some(()), |s: &str| ReceiveName::new(s).ok().map(|_| ()));
        grammar!("OwnedReceiveName", s, |s: &str| rec_receive_name(s).then_some(()), |s: &str| OwnedReceiveName::new(s.to_string()).ok().map(|_| ()));
        let n = match r.below(6) {
            0 => 99,
            1 => 100,
            2 => 98,
            _ => r.below(40) as usize,
        };
        let s0 = name_chars(r, n, true);
        let s = m(r, s0);
        grammar!("EntrypointName", s, |s: &str| rec_entrypoint_name(s).then_some(()), |s: &str| EntrypointName::new(s).ok().map(|_| ()));
        // amounts
        let s0 = gen_amount_str(r);
        let s = m(r, s0);
        grammar!("Amount", s, rec_amount, |s: &str| Amount::from_str(s).ok().map(|a| a.micro_ccd()));
        // durations (total <= u64::MAX by construction; a mutation could push it beyond: skip those)
        let s0 = gen_duration_str(r);
        let s = m(r, s0);
        match rec_duration(&s) {
            Some(None) => sh.hit("grammar.Duration.skipped_beyond_u64"),
            w => {
                let w2 = w.flatten();
                grammar!("Duration", s, |_: &str| w2, |s: &str| Duration::from_str(s).ok().map(|d| d.millis()));
            }
        }
        // contract addresses
        let s0 = match r.below(5) {
            0 => format!("<{},{}>", u64::MAX, 0),
            1 => "<18446744073709551616,0>".to_string(),
            2 => format!("<+{},{}>", r.below(100), r.below(100)),
            _ => format!("<{},{}>", r.u64v(), r.u64v()),
        };
        let s = m(r, s0);
        grammar!("ContractAddress", s, rec_contract_address, |s: &str| ContractAddress::from_str(s).ok().map(|c| (c.index, c.subindex)));
        // hex keys and signatures: exactly N hexadecimal digits (either case), nothing else
        for which in 0..4usize {
            let nbytes = [32usize, 33, 64, 64][which];
            let mut s = vmon_core::hex(&r.bytes(nbytes));
            match r.below(10) {
                0 => s = s.to_uppercase(),
                1 => {
                    // mixed case
                    s = s.chars().map(|c| if r.chance(1, 2) { c.to_ascii_uppercase() } else { c }).collect();
                }
                2 => {
                    // a sign in front of a digit pair (accepted by u8::from_str_radix)
                    let k = 2 * r.below(nbytes as u64) as usize;
                    s.replace_range(k..k + 1, "+");
                }
                3 => {
                    // same byte length, a two-byte character at an arbitrary offset
                    let k = r.below(2 * nbytes as u64 - 2) as usize;
                    s.replace_range(k..k + 2, "\u{e9}");
                }
                4 => {
                    let k = r.below(3) as usize + 1;
                    if r.chance(1, 2) {
                        s.truncate(s.len() - k);
                    } else {
                        s.push_str(&"0".repeat(k));
                    }
                }
                5 => s = mutate_str(r, &s),
                _ => {}
            }
            let want = |s: &str| -> Option<Vec<u8>> {
                if s.len() != 2 * nbytes || !s.bytes().all(|b| matches!(b, b'0'..=b'9' | b'a'..=b'f' | b'A'..=b'F')) {
                    return None;
                }
                vmon_core::unhex(&s.to_lowercase())
            };
            match which {
                0 => grammar!("PublicKeyEd25519", s, want, |s: &str| PublicKeyEd25519::from_str(s).ok().map(|k| k.0.to_vec())),
                1 => grammar!("PublicKeyEcdsaSecp256k1", s, want, |s: &str| PublicKeyEcdsaSecp256k1::from_str(s).ok().map(|k| k.0.to_vec())),
                2 => grammar!("SignatureEd25519", s, want, |s: &str| SignatureEd25519::from_str(s).ok().map(|k| k.0.to_vec())),
                _ => grammar!("SignatureEcdsaSecp256k1", s, want, |s: &str| SignatureEcdsaSecp256k1::from_str(s).ok().map(|k| k.0.to_vec())),
            }
        }
    }
    util::nt(sh, vmon_core::mix(&[3, r.next()]));
}

// ------------------------------------------------------------------ arithmetic
fn case_arith(sh: &mut Shard, idx: u64, r: &mut Rng) {
    let mut check = |name: &str, got: Option<u64>, want: i128, a: u64, b: u64| {
        sh.evaluations += 1;
        let want_o = if (0..=u64::MAX as i128).contains(&want) { Some(want as u64) } else { None };
        sh.hit(if want_o.is_some() { "arith.in_range" } else { "arith.overflow" });
        sh.hit(&format!("arith.{}", name));
        if got != want_o {
            sh.violate(idx, "arithmetic", format!("arith:{}:{}:{}", name, a, b), format!("{}({}, {}) = {:?}, wide-integer reference {:?}", name, a, b, got, want_o), json!({"op": name, "a": a, "b": b}));
        }
    };
    for _ in 0..40 {
        let (a, b) = (r.u64v(), r.u64v());
        let (a, b) = if r.chance(1, 4) { (u64::MAX - r.below(3), r.below(5)) } else { (a, b) };
        check("Amount::checked_add", Amount::from_micro_ccd(a).checked_add(Amount::from_micro_ccd(b)).map(|x| x.micro_ccd()), a as i128 + b as i128, a, b);
        check("Amount::checked_sub", Amount::from_micro_ccd(a).checked_sub(Amount::from_micro_ccd(b)).map(|x| x.micro_ccd()), a as i128 - b as i128, a, b);
        check("Duration::checked_add", Duration::from_millis(a).checked_add(Duration::from_millis(b)).map(|x| x.millis()), a as i128 + b as i128, a, b);
        check("Duration::checked_sub", Duration::from_millis(a).checked_sub(Duration::from_millis(b)).map(|x| x.millis()), a as i128 - b as i128, a, b);
        check("Timestamp::checked_add", Timestamp::from_timestamp_millis(a).checked_add(Duration::from_millis(b)).map(|x| x.timestamp_millis()), a as i128 + b as i128, a, b);
        check("Timestamp::checked_sub", Timestamp::from_timestamp_millis(a).checked_sub(Duration::from_millis(b)).map(|x| x.timestamp_millis()), a as i128 - b as i128, a, b);
        check("Timestamp::duration_since", Timestamp::from_timestamp_millis(a).duration_since(Timestamp::from_timestamp_millis(b)).map(|x| x.millis()), a as i128 - b as i128, a, b);
        check("Timestamp::duration_between", Some(Timestamp::from_timestamp_millis(a).duration_between(Timestamp::from_timestamp_millis(b)).millis()), (a as i128 - b as i128).abs(), a, b);
        if b != 0 {
            let (q, m) = Amount::from_micro_ccd(a).quotient_remainder(b);
            check("Amount::quotient_remainder.q", Some(q.micro_ccd()), (a / b) as i128, a, b);
            check("Amount::quotient_remainder.r", Some(m.micro_ccd()), (a % b) as i128, a, b);
        }
        // exchange rate conversions, only where the exact result fits u64
        let rates = ExchangeRates::g(r);
        let (n, d) = (rates.micro_ccd_per_euro.numerator() as u128, rates.micro_ccd_per_euro.denominator() as u128);
        let cents = r.u64v();
        // floor(n * cents / (d * 100)) computed without overflow through big integers
        let exact = num_bigint::BigUint::from(n) * num_bigint::BigUint::from(cents) / (num_bigint::BigUint::from(d) * 100u32);
        if let (Ok(w), true) = (u64::try_from(exact), n.checked_mul(cents as u128).is_some() && d.checked_mul(100).is_some()) {
            check("ExchangeRates::convert_euro_cent_to_amount", Some(rates.convert_euro_cent_to_amount(cents).micro_ccd()), w as i128, cents, rates.micro_ccd_per_euro.numerator());
        }
    }
    util::nt(sh, vmon_core::mix(&[4, r.next()]));
}

fn replay(reg: &[Entry], case: &vmon_core::Value, sh: &mut Shard) -> bool {
    let (Some(ty), Some(hx)) = (case.get("type").and_then(|x| x.as_str()), case.get("input_hex").and_then(|x| x.as_str())) else { return false };
    let Some(e) = reg.iter().find(|e| e.name == ty) else { return false };
    let Some(input) = vmon_core::unhex(hx) else { return false };
    let o = (e.dec)(&input);
    sh.evaluations += 1;
    println!("replaying stored witness: type {} input {}", ty, vmon_core::hex_short(&input, 200));
    match &o.res {
        Ok((pos, re, same)) => println!("  decode: ok, consumed {} of {}, re-encoding {} (decodes to the same value: {})", pos, input.len(), vmon_core::hex_short(re, 200), same),
        Err(m) => println!("  decode: {}", m),
    }
    println!("  allocation: peak {} largest {}", o.stats.peak, o.stats.largest);
    if case.get("mode").and_then(|x| x.as_str()) == Some("value") && !matches!(&o.res, Ok((pos, re, _)) if *pos == input.len() && (e.canon == Canon::Value || re == &input)) {
        sh.violate(0, "roundtrip", format!("roundtrip:{}:{}", e.name, util::hex_sig(&input)), format!("{}: the encoding of a valid value does not round-trip", e.name), case.clone());
    }
    if let Some((k, d)) = judge(e, &input, &o) {
        sh.violate(0, k, format!("{}:{}:{}", k, e.name, util::hex_sig(&input)), d, case.clone());
    }
    true
}

pub fn run(ctx: &ChildCtx, sh: &mut Shard) {
    let reg = registry();
    if ctx.replaying() {
        if let Some(case) = util::replay_case() {
            if replay(&reg, &case, sh) {
                return;
            }
        }
    }
    let mut seen = HashSet::new();
    // Under Miri (unsafe blocks of impls.rs / traits.rs: MaybeUninit arrays, from_raw_parts_mut read
    // buffers, transmuted chunks, AttributeValue::new_unchecked) only the binary cases run, every type of
    // the registry in turn, with fewer hostile inputs per case.
    let miri = ctx.san == "miri";
    for idx in ctx.indices() {
        ctx.begin_case(idx);
        let mut r = ctx.case_rng(idx);
        if miri {
            case_binary(sh, &reg, idx, idx * 16 + ctx.shard as u64, &mut r, &mut seen, true);
            continue;
        }
        match idx % 4 {
            0 | 1 => case_binary(sh, &reg, idx, idx / 2 + ctx.shard as u64 * 5, &mut r, &mut seen, false),
            2 => {
                for _ in 0..8 {
                    case_ordered(sh, idx, &mut r);
                }
                case_arith(sh, idx, &mut r);
            }
            _ => case_text(sh, idx, &mut r),
        }
    }
    sh.max("max.bin.types.registered", reg.len() as u64);
    let _ = cc::constants::MAX_FUNC_NAME_SIZE;
}
