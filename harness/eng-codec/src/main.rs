//! eng-codec: runtime monitors for the binary / schema / CBOR codecs
//! (C05, C16, C10, C17). See /verif/DESIGN.md section 5 and ENGINE_GUIDE.md.
mod c05;
mod c05_fx;
mod c05_gen;
mod c05_id;
mod c05_tx;
mod c10;
mod c16;
mod c17;
mod util;

use vmon_core::{ChildCtx, Engine, Plan, SanTier, Shard, Tier};

#[global_allocator]
static A: vmon_core::alloc::Counting = vmon_core::alloc::Counting;

struct E;

impl Engine for E {
    fn name(&self) -> &'static str { "eng-codec" }

    fn props(&self) -> Vec<&'static str> { vec!["C05", "C16", "C10", "C17"] }

    fn plan(&self, prop: &str, tier: Tier) -> Plan {
        let quick = tier == Tier::Quick;
        let mut p = Plan { crash_is_violation: true, hang_is_violation: true, ..Plan::default() };
        match prop {
            "C05" => {
                let n = c05_gen::registry().len() as u64;
                p.cases = if quick { n * 2 } else { n * 60 };
                p.timeout_s = if quick { 600 } else { 3600 };
                p.isolated_timeout_s = 120;
                p.san = vec![SanTier { name: "nodebug", shards: 16, cases: if quick { n / 2 } else { n * 6 }, timeout_s: if quick { 600 } else { 3600 }, budget_s: 0 }];
                p.rule = "pre-flight per shard: one value per (type, variant) from fixed generator streams is probed with 8-byte length windows (abort-safe ladder); then case = one registered type (round-robin over the registry): a value built with the library's constructors is round-tripped, then its encoding is decoded under truncation at sampled offsets, a 0..255 sweep of the first byte, length-field inflation (1/2/4/8-byte big-endian windows set to 2^k, 2^32-1, 2^64-1), 16-bit bitmap sweeps, and ~260 (30 for crypto-heavy types) random mutations (bit flips, byte sets, splices with a second value, block swaps/duplications, insert/delete, pure random bytes); evaluations = judged decodes + judged value round-trips; distinct_nontrivial = distinct (type, valid encoding) seeds for which at least one mutated input decoded successfully".into();
                p.assumptions = vec![
                    "counting global allocator (vmon_core::alloc) measures peak live bytes per decode on the decoding thread".into(),
                    "values without PartialEq are compared through Debug rendering and re-encoding".into(),
                    "identity-pipeline fixtures use library functions that draw from thread_rng; witnesses are stored in full in the replay file".into(),
                ];
                p.floors = vec![("max.types.exercised".into(), n), ("roundtrip".into(), if quick { 5000 } else { 100_000 }), ("decode_ok_changed".into(), if quick { 50_000 } else { 1_000_000 }), ("mut.inflate".into(), 10_000), ("mut.tag_sweep".into(), 10_000), ("mut.truncate_at".into(), 10_000)];
                for e in c05_gen::registry() {
                    p.floors.push((format!("type.{}.decode_ok", e.name), 50));
                    p.floors.push((format!("type.{}.roundtrip", e.name), 20));
                }
            }
            "C16" => {
                p.cases = if quick { 18_000 } else { 400_000 };
                p.timeout_s = if quick { 600 } else { 3600 };
                p.san = vec![
                    SanTier { name: "nodebug", shards: 16, cases: if quick { 1800 } else { 40_000 }, timeout_s: if quick { 600 } else { 3600 }, budget_s: 0 },
                    SanTier { name: "miri", shards: 16, cases: if quick { 8 } else { 400 }, timeout_s: if quick { 1200 } else { 2 * 3600 }, budget_s: if quick { 45 } else { 600 } },
                ];
                p.rule = "cases rotate over four kinds: (binary, x2) one registered contract-side type: value round-trip, then its little-endian encoding decoded under truncation at every offset, a 0..255 sweep of the first byte, little-endian length inflation and 200 random mutations, judged for panic, allocation bound, canonicity (byte-exact, or value-exact for the collections documented as unordered); (ordered) 8 rounds of sorted/duplicate/unordered inputs against every ordered and unordered collection decoder, plus 40 rounds of checked arithmetic against 128-bit integers; (text) Display/FromStr round-trips and grammar recognisers on grammar-generated and single-character-mutated strings. evaluations = judged decodes, round-trips, accept/reject comparisons and arithmetic comparisons; distinct_nontrivial = distinct cases of each kind (binary: a mutated input decoded successfully)".into();
                p.assumptions = vec![
                    "harness recognisers for names, amounts, durations, contract addresses and base58check are transcribed from the doc comments and share no code with the library (sha2 and num-bigint only)".into(),
                    "counting global allocator measures peak live bytes per decode".into(),
                ];
                p.floors = vec![
                    ("bin.roundtrip".into(), if quick { 5000 } else { 100_000 }),
                    ("bin.decode_ok".into(), if quick { 100_000 } else { 1_000_000 }),
                    ("max.bin.types.registered".into(), 60),
                    ("ordered.deserial_map_no_length.unordered".into(), 1000),
                    ("ordered.BTreeSet::deserial_ctx(ordered).duplicate".into(), 1000),
                    ("arith.overflow".into(), 10_000),
                    ("arith.in_range".into(), 10_000),
                    ("grammar.ContractName.accept".into(), 500),
                    ("grammar.ContractName.reject".into(), 500),
                    ("grammar.ReceiveName.accept".into(), 500),
                    ("grammar.ReceiveName.reject".into(), 500),
                    ("grammar.EntrypointName.accept".into(), 500),
                    ("grammar.EntrypointName.reject".into(), 200),
                    ("grammar.Amount.accept".into(), 500),
                    ("grammar.Amount.reject".into(), 500),
                    ("grammar.Duration.accept".into(), 500),
                    ("grammar.Duration.reject".into(), 300),
                    ("grammar.ContractAddress.accept".into(), 500),
                    ("grammar.ContractAddress.reject".into(), 300),
                    ("text.roundtrip.Timestamp".into(), 1000),
                    ("text.base58.independent".into(), 1000),
                    ("text.timestamp_offset.positive".into(), 1000),
                    ("text.timestamp_offset.negative".into(), 1000),
                    ("receive_name.construct.ok".into(), 1000),
                    ("receive_name.construct.rejected".into(), 100),
                    ("receive_name.entrypoint_dots.2".into(), 200),
                    ("receive_name.split_first_dot.several_dots".into(), 500),
                    ("bin.mut.zst_length".into(), 1000),
                    ("grammar.PublicKeyEd25519.accept".into(), 500),
                    ("grammar.PublicKeyEd25519.reject".into(), 500),
                    ("grammar.PublicKeyEcdsaSecp256k1.accept".into(), 500),
                    ("grammar.SignatureEd25519.accept".into(), 500),
                    ("grammar.SignatureEcdsaSecp256k1.reject".into(), 500),
                ];
                for e in c16::registry() {
                    p.floors.push((format!("bin.type.{}.decode_ok", e.name), 50));
                }
            }
            "C10" => {
                p.cases = if quick { 4000 } else { 40_000 };
                p.timeout_s = if quick { 600 } else { 3600 };
                p.san = vec![SanTier { name: "nodebug", shards: 16, cases: if quick { 400 } else { 4000 }, timeout_s: if quick { 600 } else { 3600 }, budget_s: 0 }];
                p.rule = "4 of 5 cases: a generated schema Type (nesting <= 32, all constructors and size lengths) with 4 generated conforming values; for each value the JSON input, the expected normal-form JSON and the expected bytes are derived side by side from the same primitives (harness encoder); judged: serial_value(json) == bytes, to_json(bytes) == normal form consuming everything, serial_value(normal form) == bytes; then 16 mutated and 6 random byte strings are converted under the same type (no panic). 1 of 5 cases: a generated module schema V0..V3 through to_bytes/from_bytes, VersionedModuleSchema::new with and without prefix, from_base64_str, and one Type of nesting up to 32 through its binary form. evaluations = judged conversions; distinct_nontrivial = distinct (type, value) pairs with >= 4 bytes, and distinct module schemas".into();
                p.assumptions = vec![
                    "harness encoder of the contract-side format (little-endian, size lengths, LEB128, enum tags), base58check and base64 are written from the format rules; chrono (shared with the library) renders the expected RFC 3339 text".into(),
                    "collections of zero-width elements only with small declared lengths; hostile bytes only under types without such collections (O2); nesting <= 32 (O1)".into(),
                ];
                p.floors = vec![("convert.serial_value".into(), if quick { 10_000 } else { 1_000_000 }), ("convert.to_json".into(), if quick { 10_000 } else { 1_000_000 }), ("hostile.accepted".into(), 5000), ("hostile.rejected".into(), 20_000), ("long_collection.4096".into(), 30), ("long_collection.4097".into(), 30), ("long_collection.gt4097".into(), 30), ("long_collection.to_json".into(), 300), ("text_values.string.non_ascii".into(), 1000), ("text_values.timestamp.nonzero_offset".into(), 1000), ("enum_boundary.serial_value".into(), 1000), ("enum_boundary.variants.255".into(), 20), ("enum_boundary.variants.256".into(), 20), ("enum_boundary.variants.257".into(), 20), ("enum_boundary.variants.65535".into(), 10), ("enum_boundary.variants.65536".into(), 10), ("enum_boundary.variants.65537".into(), 10), ("hostile.declared_bytelist_beyond_input".into(), 500), ("hostile.declared_bytearray_beyond_input".into(), 200), ("max.hostile.declared_len".into(), u32::MAX as u64), ("max.convert.type_depth".into(), 32), ("convert.depth.32".into(), 100), ("ctor.Enum>256".into(), 20)];
                for c in ["Unit", "Bool", "U8", "U16", "U32", "U64", "U128", "I8", "I16", "I32", "I64", "I128", "Amount", "AccountAddress", "ContractAddress", "Timestamp", "Duration", "Pair", "List", "Set", "Map", "Array", "Struct", "Enum", "String", "ContractName", "ReceiveName", "ULeb128", "ILeb128", "ByteList", "ByteArray", "TaggedEnum"] {
                    p.floors.push((format!("ctor.{}", c), 200));
                }
                for sl in ["U8", "U16", "U32", "U64"] {
                    p.floors.push((format!("sizelen.{}", sl), 500));
                }
                for v in 0..4 {
                    for w in ["from_bytes", "new(prefixed,None)", "new(unprefixed,Some(v))", "from_base64_str"] {
                        p.floors.push((format!("schema.v{}.{}", v, w), 100));
                    }
                }
            }
            "C17" => {
                p.cases = if quick { 36_000 } else { 400_000 };
                p.timeout_s = if quick { 600 } else { 3600 };
                p.san = vec![SanTier { name: "nodebug", shards: 16, cases: if quick { 3600 } else { 40_000 }, timeout_s: if quick { 600 } else { 3600 }, budget_s: 0 }];
                p.rule = "cases rotate: (2 of 5) a generated CBOR item tree (nesting <= 64, integers at head-width boundaries) converted to value::Value: cbor_encode must equal the harness emitter's deterministic encoding, pass the independent checker, be deterministic, round-trip, reject a trailing byte, then 30 mutated inputs are decoded (no panic, allocation bound); (2 of 5) one registered token/primitive type: round-trip, determinism, checker, and the negative edits (trailing byte, truncation, inflated length, changed major type, removed mandatory key, undeclared key under both options), then 46 hostile inputs; (1 of 5) unknown operations/tags through CborUpward and bare types, TokenAmount across CBOR / decimal string / JSON, random bytes. evaluations = judged encodes, decodes and accept/reject comparisons; distinct_nontrivial = distinct encodings of more than two bytes".into();
                p.assumptions = vec![
                    "harness CBOR emitter/parser/checker written from RFC 8949; shares no code with ciborium or the library".into(),
                    "the table of mandatory keys, #[cbor(other)] fields and tags is transcribed from the type definitions; a key that is not found in an encoding is counted, not judged".into(),
                ];
                p.floors = vec![
                    ("value.encode".into(), if quick { 4000 } else { 100_000 }),
                    ("value.depth.60-64".into(), 100),
                    ("max.value.depth".into(), 64),
                    ("typed.roundtrip".into(), if quick { 4000 } else { 100_000 }),
                    ("neg.append_byte".into(), 4000),
                    ("neg.remove_mandatory_key".into(), 1000),
                    ("neg.undeclared_key_fail_option".into(), 1000),
                    ("neg.undeclared_key_ignore_option".into(), 1000),
                    ("neg.undeclared_key_preserved".into(), 300),
                    ("neg.major_type_map_to_array".into(), 1000),
                    ("neg.inflate_length".into(), 1000),
                    ("upward.unknown_operation".into(), 1000),
                    ("amount.forms".into(), 10_000),
                    ("amount.from_str".into(), 5000),
                    ("amount.fraction.positive_exponent".into(), 5000),
                    ("amount.fraction.accepted".into(), 2000),
                    ("amount.fraction.rejected".into(), 2000),
                    ("neg.fixed_bytes_definite_short".into(), 1000),
                    ("neg.fixed_bytes_indefinite_short".into(), 1000),
                    ("neg.fixed_bytes_indefinite_empty".into(), 1000),
                    ("neg.fixed_bytes_indefinite_exact_chunks".into(), 1000),
                    ("hostile.accepted".into(), 5000),
                    ("hostile.rejected".into(), 50_000),
                ];
                for e in c17::registry() {
                    p.floors.push((format!("typed.{}.roundtrip", e.name), 30));
                }
            }
            _ => {}
        }
        p
    }

    fn run_child(&self, ctx: &ChildCtx, out: &mut Shard) {
        match ctx.prop.as_str() {
            "C05" => c05::run(ctx, out),
            "C16" => c16::run(ctx, out),
            "C10" => c10::run(ctx, out),
            "C17" => c17::run(ctx, out),
            _ => out.inconclusive.push("unknown property".into()),
        }
    }
}

fn main() { vmon_core::main_engine(&E) }
