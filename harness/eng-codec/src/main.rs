//! eng-codec: runtime monitors for the binary / schema / CBOR codecs
//! (C05, C16, C10, C17). See /verif/DESIGN.md section 5 and ENGINE_GUIDE.md.
mod c05;
mod c05_fx;
mod c05_gen;
mod c05_id;
mod c05_tx;
mod util;

use vmon_core::{ChildCtx, Engine, Plan, SanTier, Shard, Tier};

#[global_allocator]
static A: vmon_core::alloc::Counting = vmon_core::alloc::Counting;

struct E;

impl Engine for E {
    fn name(&self) -> &'static str { "eng-codec" }

    fn props(&self) -> Vec<&'static str> { vec!["C05"] }

    fn plan(&self, prop: &str, tier: Tier) -> Plan {
        let quick = tier == Tier::Quick;
        let mut p = Plan { crash_is_violation: true, hang_is_violation: true, ..Plan::default() };
        match prop {
            "C05" => {
                let n = c05_gen::registry().len() as u64;
                p.cases = if quick { n * 3 } else { n * 60 };
                p.timeout_s = if quick { 600 } else { 3600 };
                p.isolated_timeout_s = 120;
                p.san = vec![SanTier { name: "nodebug", shards: 16, cases: if quick { n } else { n * 12 }, timeout_s: if quick { 600 } else { 3600 }, budget_s: 0 }];
                p.rule = "case = one registered type (round-robin over the registry): a value built with the library's constructors is round-tripped, then its encoding is decoded under truncation at sampled offsets, a 0..255 sweep of the first byte, length-field inflation (1/2/4/8-byte big-endian windows set to 2^k, 2^32-1, 2^64-1), 16-bit bitmap sweeps, and ~260 (30 for crypto-heavy types) random mutations (bit flips, byte sets, splices with a second value, block swaps/duplications, insert/delete, pure random bytes); evaluations = judged decodes + judged value round-trips; distinct_nontrivial = distinct (type, valid encoding) seeds for which at least one mutated input decoded successfully".into();
                p.assumptions = vec![
                    "counting global allocator (vmon_core::alloc) measures peak live bytes per decode on the decoding thread".into(),
                    "values without PartialEq are compared through Debug rendering and re-encoding".into(),
                    "identity-pipeline fixtures use library functions that draw from thread_rng; witnesses are stored in full in the replay file".into(),
                ];
                p.floors = vec![("max.types.exercised".into(), n), ("roundtrip".into(), if quick { 5000 } else { 100_000 }), ("decode_ok_changed".into(), if quick { 50_000 } else { 1_000_000 }), ("mut.inflate".into(), 10_000), ("mut.tag_sweep".into(), 10_000), ("mut.truncate_at".into(), 10_000)];
                for e in c05_gen::registry() {
                    p.floors.push((format!("type.{}.decode_ok", e.name), 50));
                    p.floors.push((format!("type.{}.roundtrip", e.name), 20));
                }
            }
            _ => {}
        }
        p
    }

    fn run_child(&self, ctx: &ChildCtx, out: &mut Shard) {
        match ctx.prop.as_str() {
            "C05" => c05::run(ctx, out),
            _ => out.inconclusive.push("unknown property".into()),
        }
    }
}

fn main() { vmon_core::main_engine(&E) }
