//! Shared helpers of the codec engine: rand adaptor, byte-string mutators,
//! witness minimiser, replay-file access.
use vmon_core::{Rng, Value};

/// `rand_core` view of the harness PRNG (all randomness of a case still comes
/// from `ctx.case_rng(idx)`).
pub struct RandAdaptor<'a>(pub &'a mut Rng);

impl rand_core::RngCore for RandAdaptor<'_> {
    fn next_u32(&mut self) -> u32 { self.0.next() as u32 }

    fn next_u64(&mut self) -> u64 { self.0.next() }

    fn fill_bytes(&mut self, dest: &mut [u8]) {
        for c in dest.chunks_mut(8) {
            let x = self.0.next().to_le_bytes();
            c.copy_from_slice(&x[..c.len()]);
        }
    }

    fn try_fill_bytes(&mut self, dest: &mut [u8]) -> Result<(), rand_core::Error> {
        self.fill_bytes(dest);
        Ok(())
    }
}
impl rand_core::CryptoRng for RandAdaptor<'_> {}

/// The `case` object of the replay file named by `--replay <path>` (replay
/// mode only). Witnesses are stored in full, so a replay judges the stored
/// bytes instead of regenerating them.
pub fn replay_case() -> Option<Value> {
    let args: Vec<String> = std::env::args().collect();
    let p = args.iter().position(|a| a == "--replay").and_then(|i| args.get(i + 1))?;
    let v: Value = serde_json::from_slice(&std::fs::read(p).ok()?).ok()?;
    v.get("case").cloned()
}

/// Self-test switch: `VMON_SELFTEST_BREAK=<prop>` plants a break into the harness's *own*
/// reference for that property (never set by ./vcheck); used to see that the violation path,
/// the replay file and `--replay` work end to end.
pub fn selftest(prop: &str) -> bool {
    static V: std::sync::OnceLock<String> = std::sync::OnceLock::new();
    V.get_or_init(|| std::env::var("VMON_SELFTEST_BREAK").unwrap_or_default()) == prop
}

/// record a distinct non-trivial case; capped per shard so that the shard report stays small in
/// the thorough tier (the merged count is then a lower bound)
pub fn nt(sh: &mut vmon_core::Shard, h: u64) {
    if sh.distinct.len() < 150_000 {
        sh.nontrivial(h);
    } else {
        sh.hit("distinct.cap_reached");
    }
}

/// RFC 3339 text of the instant `ms` (milliseconds since the Unix epoch) as seen at UTC offset
/// `off_min` minutes, rendered without any date library (civil-from-days algorithm). `frac`
/// selects the number of fractional digits written (0 only if the milliseconds are zero).
pub fn rfc3339_with_offset(ms: u64, off_min: i32, frac_digits: usize, zulu: bool) -> String {
    let local = ms as i128 + off_min as i128 * 60_000;
    let (days, rem) = (local.div_euclid(86_400_000), local.rem_euclid(86_400_000));
    // days since 1970-01-01 -> (y, m, d)
    let z = days + 719_468;
    let era = z.div_euclid(146_097);
    let doe = z.rem_euclid(146_097);
    let yoe = (doe - doe / 1460 + doe / 36_524 - doe / 146_096) / 365;
    let doy = doe - (365 * yoe + yoe / 4 - yoe / 100);
    let mp = (5 * doy + 2) / 153;
    let d = doy - (153 * mp + 2) / 5 + 1;
    let m = if mp < 10 { mp + 3 } else { mp - 9 };
    let y = yoe + era * 400 + if m <= 2 { 1 } else { 0 };
    let (h, mi, se, msec) = (rem / 3_600_000, rem / 60_000 % 60, rem / 1000 % 60, rem % 1000);
    let frac = match frac_digits {
        0 => String::new(),
        1 => format!(".{}", msec / 100),
        2 => format!(".{:02}", msec / 10),
        3 => format!(".{:03}", msec),
        n => format!(".{:03}{}", msec, "0".repeat(n - 3)),
    };
    let off = if zulu && off_min == 0 { "Z".to_string() } else { format!("{}{:02}:{:02}", if off_min < 0 { '-' } else { '+' }, off_min.abs() / 60, off_min.abs() % 60) };
    format!("{:04}-{:02}-{:02}T{:02}:{:02}:{:02}{}{}", y, m, d, h, mi, se, frac, off)
}

/// an instant (ms, within years 1971..9998), a UTC offset in minutes and a text form of it
pub fn gen_offset_timestamp(r: &mut Rng) -> (u64, i32, String) {
    let ms = match r.below(4) {
        0 => r.range(40_000_000_000, 4_102_444_800_000),
        _ => r.range(40_000_000_000, 253_300_000_000_000),
    };
    let off_min: i32 = match r.below(8) {
        0 => 0,
        1 => 120,
        2 => -330,
        3 => 14 * 60,
        4 => -12 * 60,
        5 => 1,
        _ => r.range(0, 28 * 60) as i32 - 14 * 60,
    };
    // keep the precision that the written digits can carry
    let (ms, digits) = match r.below(5) {
        0 => (ms / 1000 * 1000, 0),
        1 => (ms / 100 * 100, 1),
        2 => (ms / 10 * 10, 2),
        3 => (ms, 6),
        _ => (ms, 3),
    };
    let zulu = r.chance(1, 2);
    (ms, off_min, rfc3339_with_offset(ms, off_min, digits, zulu))
}

pub fn hex_sig(b: &[u8]) -> String {
    if b.len() <= 2048 {
        vmon_core::hex(b)
    } else {
        format!("len{}-fnv{:016x}-{}", b.len(), vmon_core::fnv(b), vmon_core::hex(&b[..64]))
    }
}

/// Values written into length-like windows, ascending. `width` in bytes.
pub fn inflate_values(width: usize) -> Vec<u64> {
    let bits = width * 8;
    let mut v: Vec<u64> = vec![];
    for k in 0..bits {
        v.push(1u64 << k);
    }
    if bits >= 32 {
        v.push((1u64 << 32) - 1);
    }
    v.push(if bits == 64 { u64::MAX } else { (1u64 << bits) - 1 });
    v.sort();
    v.dedup();
    v
}

pub fn write_be(buf: &mut [u8], off: usize, width: usize, val: u64) {
    let b = val.to_be_bytes();
    buf[off..off + width].copy_from_slice(&b[8 - width..]);
}

pub fn read_be(buf: &[u8], off: usize, width: usize) -> u64 {
    let mut b = [0u8; 8];
    b[8 - width..].copy_from_slice(&buf[off..off + width]);
    u64::from_be_bytes(b)
}

pub const MUT_KINDS: &[&str] = &["bitflip", "byteset", "truncate", "extend", "splice", "random", "blockswap", "blockdup", "delete", "insert", "arith"];

/// One random mutation of `b` (never returns `b` itself unless unavoidable).
/// `other` is another corpus entry (for splicing). Returns (kind, bytes).
pub fn mutate(r: &mut Rng, b: &[u8], other: &[u8]) -> (&'static str, Vec<u8>) {
    let mut out = b.to_vec();
    let n = b.len();
    let k = r.below(MUT_KINDS.len() as u64) as usize;
    let kind = MUT_KINDS[k];
    match kind {
        "bitflip" if n > 0 => {
            for _ in 0..r.range(1, 3) {
                let i = r.below(n as u64) as usize;
                out[i] ^= 1 << r.below(8);
            }
        }
        "byteset" if n > 0 => {
            let i = r.below(n as u64) as usize;
            out[i] = match r.below(6) {
                0 => 0,
                1 => 1,
                2 => 0x7f,
                3 => 0x80,
                4 => 0xff,
                _ => r.next() as u8,
            };
        }
        "truncate" if n > 0 => {
            out.truncate(r.below(n as u64) as usize);
        }
        "extend" => {
            let m = r.range(1, 16) as usize;
            out.extend(r.bytes(m));
        }
        "splice" if n > 0 && !other.is_empty() => {
            let i = r.below(n as u64 + 1) as usize;
            let j = r.below(other.len() as u64) as usize;
            out.truncate(i);
            out.extend_from_slice(&other[j..]);
        }
        "random" => {
            let m = r.below(2 * n as u64 + 8) as usize;
            out = r.bytes(m);
            // keep the leading tag half of the time so that deeper decoders are reached
            if n > 0 && !out.is_empty() && r.chance(1, 2) {
                out[0] = b[0];
            }
        }
        "blockswap" if n >= 4 => {
            let w = *r.pick(&[1usize, 2, 4, 8, 16, 32, 33, 48]);
            if 2 * w <= n {
                let i = r.below((n - 2 * w) as u64 + 1) as usize;
                let (a, c) = out.split_at_mut(i + w);
                a[i..i + w].swap_with_slice(&mut c[..w]);
            }
        }
        "blockdup" if n >= 2 => {
            let w = *r.pick(&[1usize, 2, 4, 8, 16, 32, 33, 48]);
            if w <= n {
                let i = r.below((n - w) as u64 + 1) as usize;
                let blk = out[i..i + w].to_vec();
                let at = i + w;
                out.splice(at..at, blk);
            }
        }
        "delete" if n >= 2 => {
            let w = r.range(1, 8.min(n as u64 - 1)) as usize;
            let i = r.below((n - w) as u64 + 1) as usize;
            out.drain(i..i + w);
        }
        "insert" => {
            let i = r.below(n as u64 + 1) as usize;
            let m = r.range(1, 4) as usize;
            let ins = r.bytes(m);
            out.splice(i..i, ins);
        }
        "arith" if n > 0 => {
            let w = *r.pick(&[1usize, 2, 4, 8]);
            if w <= n {
                let i = r.below((n - w) as u64 + 1) as usize;
                let v = read_be(&out, i, w);
                let d = r.range(1, 3);
                let nv = if r.chance(1, 2) { v.wrapping_add(d) } else { v.wrapping_sub(d) };
                write_be(&mut out, i, w, nv);
            }
        }
        _ => {
            out.push(r.next() as u8);
        }
    }
    (kind, out)
}

/// Deterministic witness minimiser for byte-string inputs. `bad(candidate)`
/// must return true iff the candidate still shows the same violation.
/// Steps: shortest violating prefix; (optionally) chunk removal; smallest
/// value of every 8/4/2-byte big-endian window (binary search); smallest byte
/// values left to right; shortest prefix again.
/// `budget` bounds the number of predicate calls. `numeric_only` skips chunk
/// removal and the window search, so that no big-endian field of the candidate ever exceeds the
/// corresponding field of the input (truncation and lowering single bytes are monotone) (used for allocation witnesses, where a
/// shifted length field could demand an allocation that aborts the process).
pub fn minimise(input: &[u8], mut bad: impl FnMut(&[u8]) -> bool, budget: usize, full_scan: bool, numeric_only: bool, truncate_only: bool) -> Vec<u8> {
    let mut cur = input.to_vec();
    let mut calls = 0usize;
    // 1. shortest prefix
    for l in 0..cur.len() {
        if calls >= budget {
            break;
        }
        calls += 1;
        if bad(&cur[..l]) {
            cur.truncate(l);
            break;
        }
    }
    // 2. remove chunks (right to left)
    if !numeric_only && !truncate_only {
        for w in [32usize, 8, 4, 2, 1] {
            let mut i = cur.len();
            while i >= w && calls < budget {
                let start = i - w;
                let mut c = cur.clone();
                c.drain(start..i);
                calls += 1;
                if bad(&c) {
                    cur = c;
                    i = start.min(cur.len());
                } else {
                    i -= 1;
                }
            }
        }
    }
    // 3a. the shortest violating prefix ends right after the field that drives the violation:
    // minimise the windows that end at the end of the prefix first (binary search, only verified
    // candidates are kept)
    let mut search = |cur: &mut Vec<u8>, off: usize, w: usize, calls: &mut usize, bad: &mut dyn FnMut(&[u8]) -> bool| {
        let hi0 = read_be(cur, off, w);
        if hi0 == 0 {
            return;
        }
        let (mut lo, mut hi) = (0u64, hi0); // invariant: hi is known bad
        while lo < hi {
            let mid = lo + (hi - lo) / 2;
            let mut c = cur.clone();
            write_be(&mut c, off, w, mid);
            *calls += 1;
            if bad(&c) {
                hi = mid;
            } else {
                lo = mid + 1;
            }
        }
        write_be(cur, off, w, hi);
    };
    let mut restarts = 0;
    'again: loop {
        if !truncate_only {
            for w in [4usize, 2, 1, 8, 4, 2, 1] {
                if cur.len() >= w && calls + 70 < budget {
                    let off = cur.len() - w;
                    search(&mut cur, off, w, &mut calls, &mut bad);
                }
            }
        }
        // 3b. smallest window values everywhere; not field-monotone (a window may straddle a field
        // boundary), hence skipped in truncate_only mode. When a window changes, a shorter prefix
        // may have become sufficient: truncate and start over from the new tail.
        for w in if truncate_only { vec![] } else { vec![8usize, 4, 2] } {
            let mut off = 0;
            while off + w <= cur.len() && calls + 70 < budget {
                let before = read_be(&cur, off, w);
                search(&mut cur, off, w, &mut calls, &mut bad);
                if read_be(&cur, off, w) != before && off + w < cur.len() && restarts < 6 {
                    if let Some(l) = (0..=off + w).find(|l| {
                        calls += 1;
                        bad(&cur[..*l])
                    }) {
                        cur.truncate(l);
                        restarts += 1;
                        continue 'again;
                    }
                }
                off += 1;
            }
        }
        break;
    }
    // 4. smallest byte values, left to right (lowering a length byte can shift the rest of the
    // parse, so this is skipped in truncate_only mode)
    'bytes: for i in 0..(if truncate_only { 0 } else { cur.len() }) {
        let orig = cur[i];
        if orig == 0 {
            continue;
        }
        let cands: Vec<u8> = if full_scan { (0..orig).collect() } else { [0u8, 1, 2, 0x10, 0x7f, 0x80].iter().copied().filter(|c| *c < orig).collect() };
        for c in cands {
            if calls >= budget {
                cur[i] = orig;
                break 'bytes;
            }
            cur[i] = c;
            calls += 1;
            if bad(&cur) {
                break;
            }
            cur[i] = orig;
        }
    }
    // 5. shortest prefix again (values changed); always affordable: at most len more calls
    for l in 0..cur.len() {
        calls += 1;
        if bad(&cur[..l]) {
            cur.truncate(l);
            break;
        }
    }
    cur
}

/// printable ASCII string of length n from the rng
pub fn ascii(r: &mut Rng, n: usize) -> String { (0..n).map(|_| (0x20 + r.below(0x5f) as u8) as char).collect() }

/// a mostly-ASCII unicode string with occasional multi-byte characters
pub fn unicode(r: &mut Rng, n: usize) -> String {
    (0..n)
        .map(|_| match r.below(12) {
            0 => 'é',
            1 => '€',
            2 => '𝄞',
            3 => '\u{0}',
            _ => (0x20 + r.below(0x5f) as u8) as char,
        })
        .collect()
}
