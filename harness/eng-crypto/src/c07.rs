//! C07: sigma protocols are complete and bound to statement and context; the
//! labelled transcript framing (TranscriptProtocolV1) is injective.
//!
//! D (deliberately not demanded):
//! * `dlogeq` and `dlogaggequal` are private modules of the crate
//!   (`mod dlogeq; mod dlogaggequal;` in sigma_protocols/mod.rs, "not used") and
//!   cannot be reached from outside: not run.
//! * `com_lin`: `ComLinSecret` has private fields and no constructor, so the
//!   library's `compute_response` cannot be driven from outside the crate. The
//!   harness computes the response itself (z_i = alpha_i - c x_i ...) from the
//!   library's `compute_commit_message` state and serializes it into the
//!   library's `Response`; `public`, `compute_commit_message`,
//!   `extract_commit_message` and `verify` are the library's.
//! * The legacy `RandomOracle` is not length prefixed: synthetic sequences such
//!   as ("ab","c") / ("a","bc") collide there by construction and are never
//!   checked. On the legacy oracle only the streams the library's own `public`
//!   functions produce (original vs single-field perturbed statement) are
//!   compared.
//! * Degenerate public parameters (identity points as generators, g == h):
//!   with an identity base a response component does not influence the
//!   verification equation; such parameters are not valid set-ups and are not
//!   generated. Degenerate *witnesses* (0, 1, r-1) are generated.
//! * V1 framing pairs keep the same skeleton of operations and message types
//!   (fixed-width message types of different widths are different protocols).
//! * Soundness against arbitrary provers (DESIGN.md section 7). One concrete
//!   cheating strategy beyond perturbation is implemented: the adaptive choice
//!   of a public value that `public` does not hash (see `forge_com_enc_eq`).
use crate::{common::*, with_tr};
use concordium_base::{
    common::to_bytes,
    curve_arithmetic::{multiexp, Curve, Field, Value},
    elgamal::{self, Cipher},
    encrypted_transfers::types::CHUNK_SIZE,
    id::constants::{ArCurve, BlsG2, IpPairing},
    pedersen_commitment::{Commitment, CommitmentKey, Randomness},
    ps_sig,
    random_oracle::{Challenge, TranscriptProtocol},
    sigma_protocols::{
        aggregate_dlog::AggregateDlog,
        com_enc_eq::{ComEncEq, ComEncEqSecret},
        com_eq::{ComEq, ComEqSecret},
        com_eq_different_groups::{ComEqDiffGroups, ComEqDiffGroupsSecret},
        com_eq_sig::{ComEqSig, ComEqSigSecret},
        com_ineq,
        com_lin::ComLin,
        com_mult::{ComMult, ComMultSecret},
        common::{prove, verify, AndAdapter, ReplicateAdapter, SigmaProof, SigmaProtocol},
        dlog::{Dlog, DlogSecret},
        enc_trans::{ElgDec, EncTrans, EncTransSecret},
        ps_sig_known::{PsSigKnown, PsSigMsg, PsSigWitness, PsSigWitnessMsg},
        vcom_eq::VecComEq,
    },
};
use std::{collections::BTreeMap, rc::Rc};
use vmon_core::{catch, fnv, json, ChildCtx, Shard, Value as Json};

type G1 = ArCurve;
type G2 = BlsG2;
type P = IpPairing;
type Fr = <G1 as Curve>::Scalar;

/// witness scalars: boundary weighted
fn wit(r: &mut CRng) -> Fr {
    match r.0.below(8) {
        0 => Fr::zero(),
        1 => Fr::one(),
        2 => {
            let mut x = Fr::one();
            x.negate();
            x
        }
        _ => G1::generate_scalar(r),
    }
}

fn bump<C: Curve>(p: &mut C) { *p = p.plus_point(&C::one_point()); }

fn bump_key<C: Curve>(k: &mut CommitmentKey<C>, r: &mut CRng) -> &'static str {
    if r.0.chance(1, 2) {
        bump(&mut k.g);
        "g"
    } else {
        bump(&mut k.h);
        "h"
    }
}

fn seq_offsets(n: usize) -> Vec<usize> { (0..n).map(|i| 32 * i).collect() }

/// One length-prefixed vector (or map) inside a serialized response.
#[derive(Clone, Debug)]
pub struct VecDesc {
    pub name: String,
    /// offset and width (2 or 4 bytes, big endian) of the element count
    pub len_off: usize,
    pub len_width: usize,
    /// byte ranges of the elements
    pub elems: Vec<(usize, usize)>,
    /// an element to insert when the vector is empty
    pub template: Vec<u8>,
    /// map: the first byte of an element is its (strictly increasing) key
    pub keyed: bool,
}

impl VecDesc {
    fn shifted(mut self, by: usize, prefix: &str) -> VecDesc {
        self.len_off += by;
        for e in self.elems.iter_mut() {
            e.0 += by;
            e.1 += by;
        }
        self.name = format!("{}{}", prefix, self.name);
        self
    }

    fn fixed(name: &str, len_off: usize, len_width: usize, count: usize, elem_size: usize) -> VecDesc {
        let start = len_off + len_width;
        VecDesc { name: name.into(), len_off, len_width, elems: (0..count).map(|i| (start + i * elem_size, start + (i + 1) * elem_size)).collect(), template: vec![0u8; elem_size], keyed: false }
    }

    fn with_count(&self, b: &mut [u8], n: usize) {
        if self.len_width == 2 {
            b[self.len_off..self.len_off + 2].copy_from_slice(&(n as u16).to_be_bytes());
        } else {
            b[self.len_off..self.len_off + 4].copy_from_slice(&(n as u32).to_be_bytes());
        }
    }

    /// the shape changing variants of `bytes`: (what, new bytes)
    pub fn shape_variants(&self, bytes: &[u8]) -> Vec<(String, Vec<u8>)> {
        let mut out = vec![];
        let n = self.elems.len();
        let end = self.elems.last().map(|e| e.1).unwrap_or(self.len_off + self.len_width);
        // one more element: a copy of the last one (or the template)
        {
            let mut elem = self.elems.last().map(|e| bytes[e.0..e.1].to_vec()).unwrap_or_else(|| self.template.clone());
            let ok = if self.keyed {
                if elem[0] == 255 {
                    false
                } else {
                    elem[0] += 1;
                    true
                }
            } else {
                true
            };
            if ok {
                let mut b = bytes[..end].to_vec();
                b.extend_from_slice(&elem);
                b.extend_from_slice(&bytes[end..]);
                self.with_count(&mut b, n + 1);
                out.push((format!("{}.appended", self.name), b));
            }
        }
        if n > 0 {
            // last element removed
            let (s0, e0) = self.elems[n - 1];
            let mut b = bytes[..s0].to_vec();
            b.extend_from_slice(&bytes[e0..]);
            self.with_count(&mut b, n - 1);
            out.push((format!("{}.removed", self.name), b));
            // first element duplicated in place
            if !self.keyed {
                let (s1, e1) = self.elems[0];
                let mut b = bytes[..e1].to_vec();
                b.extend_from_slice(&bytes[s1..e1]);
                b.extend_from_slice(&bytes[e1..]);
                self.with_count(&mut b, n + 1);
                out.push((format!("{}.duplicated", self.name), b));
            }
            // map: one entry moved to another key, keeping the keys strictly increasing (so it still decodes)
            if self.keyed {
                for i in 0..n {
                    let k = bytes[self.elems[i].0];
                    let prev = if i == 0 { None } else { Some(bytes[self.elems[i - 1].0]) };
                    let next = if i + 1 == n { None } else { Some(bytes[self.elems[i + 1].0]) };
                    let up = k < 255 && next.map_or(true, |x| x > k + 1);
                    let down = k > 0 && prev.map_or(true, |x| x < k - 1);
                    let nk = if up { k + 1 } else if down { k - 1 } else { continue };
                    let mut b = bytes.to_vec();
                    b[self.elems[i].0] = nk;
                    out.push((format!("{}.rekeyed", self.name), b));
                }
            }
            // count says one more than there is (trailing data missing) / one fewer (trailing garbage)
            let mut b = bytes.to_vec();
            self.with_count(&mut b, n + 1);
            out.push((format!("{}.count+1", self.name), b));
            let mut b = bytes.to_vec();
            self.with_count(&mut b, n - 1);
            out.push((format!("{}.count-1", self.name), b));
        }
        out
    }
}

/// A protocol instance generator with per-field perturbation.
pub trait Inst {
    type P: SigmaProtocol;
    fn name() -> String;
    /// the fields of the statement struct
    fn fields() -> Vec<&'static str>;
    fn gen(r: &mut CRng, size: usize) -> (Self::P, <Self::P as SigmaProtocol>::SecretData);
    fn copy(p: &Self::P) -> Self::P;
    /// change `field` of `p`; None when not applicable to this instance (empty vector)
    fn perturb(p: &mut Self::P, field: &str, r: &mut CRng) -> Option<String>;
    /// offsets of the scalars in the serialized response
    fn resp_scalars(p: &Self::P, resp: &[u8]) -> Vec<usize>;
    /// sizes to use (where the protocol has a size parameter)
    fn sizes() -> Vec<usize> { vec![1] }
    /// the variable-length parts (vectors / maps) of the serialized response
    fn resp_vectors(_p: &Self::P, _resp: &[u8]) -> Vec<VecDesc> { vec![] }
    /// every leaf component of the statement that `perturb` can alter (indices
    /// normalised to `[]`); each must be observed to influence the transcript
    fn subs() -> Vec<&'static str> { vec![] }
}

/// `cmms[3]` -> `cmms[]`
fn norm_sub(s: &str) -> String {
    let mut out = String::new();
    let mut skip = false;
    for c in s.chars() {
        if c == '[' {
            out.push('[');
            skip = true;
        } else if c == ']' {
            out.push(']');
            skip = false;
        } else if !skip {
            out.push(c);
        }
    }
    out
}

// ---------------------------------------------------------------- dlog
pub struct DlogI;
impl Inst for DlogI {
    type P = Dlog<G1>;

    fn name() -> String { "dlog".into() }

    fn subs() -> Vec<&'static str> { vec!["public", "coeff"] }

    fn fields() -> Vec<&'static str> { vec!["public", "coeff"] }

    fn gen(r: &mut CRng, _s: usize) -> (Self::P, DlogSecret<G1>) {
        let s = wit(r);
        let coeff = G1::generate(r);
        (Dlog { public: coeff.mul_by_scalar(&s), coeff }, DlogSecret { secret: Value::new(s) })
    }

    fn copy(p: &Self::P) -> Self::P { Dlog { public: p.public, coeff: p.coeff } }

    fn perturb(p: &mut Self::P, f: &str, _r: &mut CRng) -> Option<String> {
        match f {
            "public" => bump(&mut p.public),
            _ => bump(&mut p.coeff),
        }
        Some(f.into())
    }

    fn resp_scalars(_p: &Self::P, _b: &[u8]) -> Vec<usize> { vec![0] }
}

// ---------------------------------------------------------------- com_eq
pub struct ComEqI;
impl ComEqI {
    fn copy_(p: &ComEq<G1, G1>) -> ComEq<G1, G1> { ComEq { commitment: p.commitment, y: p.y, cmm_key: p.cmm_key, g: p.g } }

    fn perturb_(p: &mut ComEq<G1, G1>, f: &str, r: &mut CRng) -> String {
        match f {
            "commitment" => bump(&mut p.commitment.0),
            "y" => bump(&mut p.y),
            "cmm_key" => return format!("cmm_key.{}", bump_key(&mut p.cmm_key, r)),
            _ => bump(&mut p.g),
        }
        f.into()
    }
}
impl Inst for ComEqI {
    type P = ComEq<G1, G1>;

    fn name() -> String { "com_eq".into() }

    fn subs() -> Vec<&'static str> { vec!["commitment", "y", "cmm_key.g", "cmm_key.h", "g"] }

    fn fields() -> Vec<&'static str> { vec!["commitment", "y", "cmm_key", "g"] }

    fn gen(r: &mut CRng, _s: usize) -> (Self::P, ComEqSecret<G1>) {
        let a = Value::<G1>::new(wit(r));
        let cmm_key = CommitmentKey::<G1>::generate(r);
        let (commitment, rd) = cmm_key.commit(&a, r);
        let g = G1::generate(r);
        let y = g.mul_by_scalar(&a);
        (ComEq { commitment, y, cmm_key, g }, ComEqSecret { r: rd, a })
    }

    fn copy(p: &Self::P) -> Self::P { Self::copy_(p) }

    fn perturb(p: &mut Self::P, f: &str, r: &mut CRng) -> Option<String> { Some(Self::perturb_(p, f, r)) }

    fn resp_scalars(_p: &Self::P, _b: &[u8]) -> Vec<usize> { seq_offsets(2) }
}

// ---------------------------------------------------------------- com_eq_different_groups
pub struct ComEqDiffI;
impl Inst for ComEqDiffI {
    type P = ComEqDiffGroups<G1, G2>;

    fn name() -> String { "com_eq_different_groups".into() }

    fn subs() -> Vec<&'static str> { vec!["commitment_1", "commitment_2", "cmm_key_1.g", "cmm_key_1.h", "cmm_key_2.g", "cmm_key_2.h"] }

    fn fields() -> Vec<&'static str> { vec!["commitment_1", "commitment_2", "cmm_key_1", "cmm_key_2"] }

    fn gen(r: &mut CRng, _s: usize) -> (Self::P, ComEqDiffGroupsSecret<G1, G2>) {
        let value = Value::<G2>::new(wit(r));
        let k1 = CommitmentKey::<G1>::generate(r);
        let k2 = CommitmentKey::<G2>::generate(r);
        let (c1, r1) = k1.commit(&value, r);
        let (c2, r2) = k2.commit(&value, r);
        (ComEqDiffGroups { commitment_1: c1, commitment_2: c2, cmm_key_1: k1, cmm_key_2: k2 }, ComEqDiffGroupsSecret { value, rand_cmm_1: r1, rand_cmm_2: r2 })
    }

    fn copy(p: &Self::P) -> Self::P { ComEqDiffGroups { commitment_1: p.commitment_1, commitment_2: p.commitment_2, cmm_key_1: p.cmm_key_1, cmm_key_2: p.cmm_key_2 } }

    fn perturb(p: &mut Self::P, f: &str, r: &mut CRng) -> Option<String> {
        Some(match f {
            "commitment_1" => {
                bump(&mut p.commitment_1.0);
                f.into()
            }
            "commitment_2" => {
                bump(&mut p.commitment_2.0);
                f.into()
            }
            "cmm_key_1" => format!("cmm_key_1.{}", bump_key(&mut p.cmm_key_1, r)),
            _ => format!("cmm_key_2.{}", bump_key(&mut p.cmm_key_2, r)),
        })
    }

    fn resp_scalars(_p: &Self::P, _b: &[u8]) -> Vec<usize> { seq_offsets(3) }
}

// ---------------------------------------------------------------- com_enc_eq
pub struct ComEncEqI;
impl Inst for ComEncEqI {
    type P = ComEncEq<G1>;

    fn name() -> String { "com_enc_eq".into() }

    fn subs() -> Vec<&'static str> { vec!["cipher.0", "cipher.1", "commitment", "pub_key.generator", "pub_key.key", "cmm_key.g", "cmm_key.h", "encryption_in_exponent_generator"] }

    fn fields() -> Vec<&'static str> { vec!["cipher", "commitment", "pub_key", "cmm_key", "encryption_in_exponent_generator"] }

    fn gen(r: &mut CRng, _s: usize) -> (Self::P, ComEncEqSecret<G1>) {
        let sk = elgamal::SecretKey::<G1>::generate_all(r);
        let pk = elgamal::PublicKey::from(&sk);
        let h = G1::generate(r);
        let x = Value::<G1>::new(wit(r));
        let (cipher, er) = pk.encrypt_exponent_rand_given_generator(&x, &h, r);
        let cmm_key = CommitmentKey::<G1>::generate(r);
        let (commitment, pr) = cmm_key.commit(&x, r);
        (ComEncEq { cipher, commitment, pub_key: pk, cmm_key, encryption_in_exponent_generator: h }, ComEncEqSecret { value: x, elgamal_rand: er, pedersen_rand: pr })
    }

    fn copy(p: &Self::P) -> Self::P { ComEncEq { cipher: p.cipher, commitment: p.commitment, pub_key: p.pub_key, cmm_key: p.cmm_key, encryption_in_exponent_generator: p.encryption_in_exponent_generator } }

    fn perturb(p: &mut Self::P, f: &str, r: &mut CRng) -> Option<String> {
        Some(match f {
            "cipher" => {
                if r.0.chance(1, 2) {
                    bump(&mut p.cipher.0);
                    "cipher.0".into()
                } else {
                    bump(&mut p.cipher.1);
                    "cipher.1".into()
                }
            }
            "commitment" => {
                bump(&mut p.commitment.0);
                f.into()
            }
            "pub_key" => {
                if r.0.chance(1, 2) {
                    bump(&mut p.pub_key.generator);
                    "pub_key.generator".into()
                } else {
                    bump(&mut p.pub_key.key);
                    "pub_key.key".into()
                }
            }
            "cmm_key" => format!("cmm_key.{}", bump_key(&mut p.cmm_key, r)),
            _ => {
                bump(&mut p.encryption_in_exponent_generator);
                f.into()
            }
        })
    }

    fn resp_scalars(_p: &Self::P, _b: &[u8]) -> Vec<usize> { seq_offsets(3) }
}

// ---------------------------------------------------------------- com_mult
pub struct ComMultI;
impl Inst for ComMultI {
    type P = ComMult<G1>;

    fn name() -> String { "com_mult".into() }

    fn subs() -> Vec<&'static str> { vec!["cmms[]", "cmm_key.g", "cmm_key.h"] }

    fn fields() -> Vec<&'static str> { vec!["cmms", "cmm_key"] }

    fn gen(r: &mut CRng, _s: usize) -> (Self::P, ComMultSecret<G1>) {
        let x1 = wit(r);
        let x2 = wit(r);
        let mut x3 = x1;
        x3.mul_assign(&x2);
        let cmm_key = CommitmentKey::<G1>::generate(r);
        let (c1, r1) = cmm_key.commit(&Value::<G1>::new(x1), r);
        let (c2, r2) = cmm_key.commit(&Value::<G1>::new(x2), r);
        let (c3, r3) = cmm_key.commit(&Value::<G1>::new(x3), r);
        (ComMult { cmms: [c1, c2, c3], cmm_key }, ComMultSecret { values: [Value::new(x1), Value::new(x2)], rands: [r1, r2, r3] })
    }

    fn copy(p: &Self::P) -> Self::P { ComMult { cmms: p.cmms, cmm_key: p.cmm_key } }

    fn perturb(p: &mut Self::P, f: &str, r: &mut CRng) -> Option<String> {
        Some(match f {
            "cmms" => {
                let i = r.0.below(3) as usize;
                bump(&mut p.cmms[i].0);
                format!("cmms[{}]", i)
            }
            _ => format!("cmm_key.{}", bump_key(&mut p.cmm_key, r)),
        })
    }

    fn resp_scalars(_p: &Self::P, _b: &[u8]) -> Vec<usize> { seq_offsets(5) }
}

// ---------------------------------------------------------------- aggregate_dlog
pub struct AggDlogI;
impl Inst for AggDlogI {
    type P = AggregateDlog<G1>;

    fn name() -> String { "aggregate_dlog".into() }

    fn subs() -> Vec<&'static str> { vec!["public", "coeff[]"] }

    fn fields() -> Vec<&'static str> { vec!["public", "coeff"] }

    fn sizes() -> Vec<usize> { vec![0, 1, 2, 17, 64] }

    fn gen(r: &mut CRng, n: usize) -> (Self::P, Vec<Rc<Fr>>) {
        let coeff: Vec<G1> = (0..n).map(|_| G1::generate(r)).collect();
        let xs: Vec<Fr> = (0..n).map(|_| wit(r)).collect();
        let public = multiexp(&coeff, &xs);
        (AggregateDlog { public, coeff }, xs.into_iter().map(Rc::new).collect())
    }

    fn copy(p: &Self::P) -> Self::P { AggregateDlog { public: p.public, coeff: p.coeff.clone() } }

    fn perturb(p: &mut Self::P, f: &str, r: &mut CRng) -> Option<String> {
        match f {
            "public" => {
                bump(&mut p.public);
                Some(f.into())
            }
            _ => {
                if p.coeff.is_empty() {
                    return None;
                }
                let i = r.0.below(p.coeff.len() as u64) as usize;
                bump(&mut p.coeff[i]);
                Some(format!("coeff[{}]", i))
            }
        }
    }

    fn resp_scalars(p: &Self::P, _b: &[u8]) -> Vec<usize> { (0..p.coeff.len()).map(|i| 4 + 32 * i).collect() }

    fn resp_vectors(p: &Self::P, _b: &[u8]) -> Vec<VecDesc> { vec![VecDesc::fixed("response", 0, 4, p.coeff.len(), 32)] }
}

// ---------------------------------------------------------------- vcom_eq
pub struct VecComEqI;
impl Inst for VecComEqI {
    type P = VecComEq<G1>;

    fn name() -> String { "vcom_eq".into() }

    fn subs() -> Vec<&'static str> { vec!["comm", "comms[]", "gis[]", "h", "g_bar", "h_bar"] }

    fn fields() -> Vec<&'static str> { vec!["comm", "comms", "gis", "h", "g_bar", "h_bar"] }

    fn sizes() -> Vec<usize> { vec![1, 2, 17, 64] }

    #[allow(clippy::type_complexity)]
    fn gen(r: &mut CRng, n: usize) -> (Self::P, (Vec<Fr>, Value<G1>, BTreeMap<u8, Value<G1>>)) {
        let gis: Vec<G1> = (0..n).map(|_| G1::generate(r)).collect();
        let h = G1::generate(r);
        let g_bar = G1::generate(r);
        let h_bar = G1::generate(r);
        let xis: Vec<Fr> = (0..n).map(|_| wit(r)).collect();
        let rr = G1::generate_scalar(r);
        let mut bases = gis.clone();
        bases.push(h);
        let mut sc = xis.clone();
        sc.push(rr);
        let comm = Commitment(multiexp(&bases, &sc));
        let mut comms = BTreeMap::new();
        let mut ris = BTreeMap::new();
        // at least one individual commitment so that the field can be perturbed
        let must = r.0.below(n as u64) as usize;
        for i in 0..n {
            if i == must || r.0.chance(1, 3) {
                let ri = G1::generate_scalar(r);
                comms.insert(i as u8, Commitment(multiexp(&[g_bar, h_bar], &[xis[i], ri])));
                ris.insert(i as u8, Value::<G1>::new(ri));
            }
        }
        (VecComEq { comm, comms, gis, h, g_bar, h_bar }, (xis, Value::new(rr), ris))
    }

    fn copy(p: &Self::P) -> Self::P { p.clone() }

    fn perturb(p: &mut Self::P, f: &str, r: &mut CRng) -> Option<String> {
        Some(match f {
            "comm" => {
                bump(&mut p.comm.0);
                f.into()
            }
            "comms" => {
                let keys: Vec<u8> = p.comms.keys().copied().collect();
                if keys.is_empty() {
                    return None;
                }
                let k = *r.0.pick(&keys);
                bump(&mut p.comms.get_mut(&k).unwrap().0);
                format!("comms[{}]", k)
            }
            "gis" => {
                let i = r.0.below(p.gis.len() as u64) as usize;
                bump(&mut p.gis[i]);
                format!("gis[{}]", i)
            }
            "h" => {
                bump(&mut p.h);
                f.into()
            }
            "g_bar" => {
                bump(&mut p.g_bar);
                f.into()
            }
            _ => {
                bump(&mut p.h_bar);
                f.into()
            }
        })
    }

    fn resp_scalars(p: &Self::P, _b: &[u8]) -> Vec<usize> {
        let n = p.gis.len();
        let mut v: Vec<usize> = (0..n).map(|i| 2 + 32 * i).collect();
        v.push(2 + 32 * n);
        let base = 2 + 32 * n + 32 + 2;
        for j in 0..p.comms.len() {
            v.push(base + 33 * j + 1);
        }
        v
    }

    fn resp_vectors(p: &Self::P, b: &[u8]) -> Vec<VecDesc> {
        let n = p.gis.len();
        let map_len_off = 2 + 32 * n + 32;
        let mut tis = VecDesc::fixed("tis", map_len_off, 2, p.comms.len(), 33);
        tis.keyed = true;
        if map_len_off + 2 + 33 * p.comms.len() != b.len() {
            return vec![];
        }
        vec![VecDesc::fixed("sis", 0, 2, n, 32), tis]
    }
}

// ---------------------------------------------------------------- com_eq_sig
pub struct ComEqSigI;
fn perturb_ps_key(k: &mut ps_sig::PublicKey<P>, r: &mut CRng) -> String {
    loop {
        match r.0.below(5) {
            0 => {
                bump(&mut k.g);
                return "ps_pub_key.g".into();
            }
            1 => {
                bump(&mut k.g_tilda);
                return "ps_pub_key.g_tilda".into();
            }
            2 if !k.ys.is_empty() => {
                let i = r.0.below(k.ys.len() as u64) as usize;
                bump(&mut k.ys[i]);
                return format!("ps_pub_key.ys[{}]", i);
            }
            3 if !k.y_tildas.is_empty() => {
                let i = r.0.below(k.y_tildas.len() as u64) as usize;
                bump(&mut k.y_tildas[i]);
                return format!("ps_pub_key.y_tildas[{}]", i);
            }
            4 => {
                bump(&mut k.x_tilda);
                return "ps_pub_key.x_tilda".into();
            }
            _ => {}
        }
    }
}
fn perturb_blinded(b: &mut ps_sig::BlindedSignature<P>, r: &mut CRng) -> String {
    if r.0.chance(1, 2) {
        bump(&mut b.sig.0);
        "blinded_sig.0".into()
    } else {
        bump(&mut b.sig.1);
        "blinded_sig.1".into()
    }
}
impl Inst for ComEqSigI {
    type P = ComEqSig<P, G1>;

    fn name() -> String { "com_eq_sig".into() }

    fn subs() -> Vec<&'static str> { vec!["blinded_sig.0", "blinded_sig.1", "commitments[]", "ps_pub_key.g", "ps_pub_key.g_tilda", "ps_pub_key.ys[]", "ps_pub_key.y_tildas[]", "ps_pub_key.x_tilda", "comm_key.g", "comm_key.h"] }

    fn fields() -> Vec<&'static str> { vec!["blinded_sig", "commitments", "ps_pub_key", "comm_key"] }

    fn sizes() -> Vec<usize> { vec![0, 1, 2, 17, 40] }

    fn gen(r: &mut CRng, n: usize) -> (Self::P, ComEqSigSecret<P, G1>) {
        let extra = r.0.below(3) as usize;
        let sk = ps_sig::SecretKey::<P>::generate(n + extra, r);
        let pk = ps_sig::PublicKey::from(&sk);
        let comm_key = CommitmentKey::<G1>::generate(r);
        let mask = ps_sig::SigRetrievalRandomness::<P>::generate_non_zero(r);
        let mut to_signer: G1 = pk.g.mul_by_scalar(&mask);
        let mut secrets = vec![];
        let mut commitments = vec![];
        for y in pk.ys.iter().take(n) {
            let v = Value::<G1>::new(wit(r));
            let (c, rd) = comm_key.commit(&v, r);
            to_signer = to_signer.plus_point(&y.mul_by_scalar(&v));
            secrets.push((v, rd));
            commitments.push(c);
        }
        let sig = sk.sign_unknown_message(&ps_sig::UnknownMessage(to_signer), r).retrieve(&mask);
        let (blinded_sig, blind_rand) = sig.blind(r);
        (ComEqSig { blinded_sig, commitments, ps_pub_key: pk, comm_key }, ComEqSigSecret { blind_rand, values_and_rands: secrets })
    }

    fn copy(p: &Self::P) -> Self::P { ComEqSig { blinded_sig: p.blinded_sig.clone(), commitments: p.commitments.clone(), ps_pub_key: p.ps_pub_key.clone(), comm_key: p.comm_key } }

    fn perturb(p: &mut Self::P, f: &str, r: &mut CRng) -> Option<String> {
        Some(match f {
            "blinded_sig" => perturb_blinded(&mut p.blinded_sig, r),
            "commitments" => {
                if p.commitments.is_empty() {
                    return None;
                }
                let i = r.0.below(p.commitments.len() as u64) as usize;
                bump(&mut p.commitments[i].0);
                format!("commitments[{}]", i)
            }
            "ps_pub_key" => perturb_ps_key(&mut p.ps_pub_key, r),
            _ => format!("comm_key.{}", bump_key(&mut p.comm_key, r)),
        })
    }

    fn resp_scalars(p: &Self::P, _b: &[u8]) -> Vec<usize> {
        let mut v = vec![0];
        for i in 0..p.commitments.len() {
            v.push(36 + 64 * i);
            v.push(36 + 64 * i + 32);
        }
        v
    }

    fn resp_vectors(p: &Self::P, _b: &[u8]) -> Vec<VecDesc> { vec![VecDesc::fixed("response_commit", 32, 4, p.commitments.len(), 64)] }
}

// ---------------------------------------------------------------- ps_sig_known
pub struct PsSigKnownI;
impl Inst for PsSigKnownI {
    type P = PsSigKnown<P, G1>;

    fn name() -> String { "ps_sig_known".into() }

    fn subs() -> Vec<&'static str> { vec!["blinded_sig.0", "blinded_sig.1", "msgs[].commitment", "msgs[].public", "ps_pub_key.g", "ps_pub_key.g_tilda", "ps_pub_key.ys[]", "ps_pub_key.y_tildas[]", "ps_pub_key.x_tilda", "cmm_key.g", "cmm_key.h"] }

    fn fields() -> Vec<&'static str> { vec!["blinded_sig", "msgs", "ps_pub_key", "cmm_key"] }

    fn sizes() -> Vec<usize> { vec![0, 1, 2, 3, 17, 40] }

    fn gen(r: &mut CRng, n: usize) -> (Self::P, PsSigWitness<P, G1>) {
        let extra = r.0.below(3) as usize;
        let sk = ps_sig::SecretKey::<P>::generate(n + extra, r);
        let pk = ps_sig::PublicKey::from(&sk);
        let cmm_key = CommitmentKey::<G1>::generate(r);
        let mask = ps_sig::SigRetrievalRandomness::<P>::generate_non_zero(r);
        let mut to_signer: G1 = pk.g.mul_by_scalar(&mask);
        let mut wmsgs = vec![];
        let mut msgs = vec![];
        let rot = r.0.below(3);
        for i in 0..n {
            let m = Value::<G1>::new(wit(r));
            to_signer = to_signer.plus_point(&pk.ys[i].mul_by_scalar(&m));
            match (i as u64 + rot) % 3 {
                0 => {
                    let (c, rd) = cmm_key.commit(&m, r);
                    wmsgs.push(PsSigWitnessMsg::EqualToCommitment(m, rd));
                    msgs.push(PsSigMsg::EqualToCommitment(c));
                }
                1 => {
                    wmsgs.push(PsSigWitnessMsg::Public);
                    msgs.push(PsSigMsg::Public(m));
                }
                _ => {
                    wmsgs.push(PsSigWitnessMsg::Known(m));
                    msgs.push(PsSigMsg::Known);
                }
            }
        }
        let sig = sk.sign_unknown_message(&ps_sig::UnknownMessage(to_signer), r).retrieve(&mask);
        let (blinded_sig, blind_rand) = sig.blind(r);
        (PsSigKnown { blinded_sig, msgs, ps_pub_key: pk, cmm_key }, PsSigWitness { r_prime: blind_rand.1, msgs: wmsgs })
    }

    fn copy(p: &Self::P) -> Self::P { PsSigKnown { blinded_sig: p.blinded_sig.clone(), msgs: p.msgs.clone(), ps_pub_key: p.ps_pub_key.clone(), cmm_key: p.cmm_key } }

    fn perturb(p: &mut Self::P, f: &str, r: &mut CRng) -> Option<String> {
        Some(match f {
            "blinded_sig" => perturb_blinded(&mut p.blinded_sig, r),
            "msgs" => {
                // a commitment or a public value (a `Known` entry carries no data)
                let cands: Vec<usize> = p.msgs.iter().enumerate().filter(|(_, m)| !matches!(m, PsSigMsg::Known)).map(|(i, _)| i).collect();
                if cands.is_empty() {
                    return None;
                }
                let i = *r.0.pick(&cands);
                match &mut p.msgs[i] {
                    PsSigMsg::EqualToCommitment(c) => {
                        bump(&mut c.0);
                        format!("msgs[{}].commitment", i)
                    }
                    PsSigMsg::Public(v) => {
                        let mut x: Fr = **v;
                        x.add_assign(&Fr::one());
                        *v = Value::new(x);
                        format!("msgs[{}].public", i)
                    }
                    PsSigMsg::Known => unreachable!(),
                }
            }
            "ps_pub_key" => perturb_ps_key(&mut p.ps_pub_key, r),
            _ => format!("cmm_key.{}", bump_key(&mut p.cmm_key, r)),
        })
    }

    fn resp_scalars(p: &Self::P, b: &[u8]) -> Vec<usize> {
        // resp_r_prime, u32 count, then per message: u8 tag + 2 / 0 / 1 scalars
        let mut v = vec![0];
        let mut off = 36;
        for m in &p.msgs {
            off += 1;
            match m {
                PsSigMsg::EqualToCommitment(_) => {
                    v.push(off);
                    v.push(off + 32);
                    off += 64;
                }
                PsSigMsg::Public(_) => {}
                PsSigMsg::Known => {
                    v.push(off);
                    off += 32;
                }
            }
        }
        if off != b.len() {
            return vec![0];
        }
        v
    }

    fn resp_vectors(p: &Self::P, b: &[u8]) -> Vec<VecDesc> {
        let mut elems = vec![];
        let mut off = 36;
        for m in &p.msgs {
            let l = 1 + match m {
                PsSigMsg::EqualToCommitment(_) => 64,
                PsSigMsg::Public(_) => 0,
                PsSigMsg::Known => 32,
            };
            elems.push((off, off + l));
            off += l;
        }
        if off != b.len() {
            return vec![];
        }
        // template: a `Public` response marker (tag of the second variant)
        vec![VecDesc { name: "resp_msgs".into(), len_off: 32, len_width: 4, elems, template: vec![1u8], keyed: false }]
    }
}

// ---------------------------------------------------------------- enc_trans
pub struct EncTransI;
impl Inst for EncTransI {
    type P = EncTrans<G1>;

    fn name() -> String { "enc_trans".into() }

    fn subs() -> Vec<&'static str> { vec!["dlog.public", "dlog.coeff", "elg_dec.public", "elg_dec.coeff0", "elg_dec.coeff1", "encexp1[].commitment", "encexp1[].y", "encexp1[].cmm_key.g", "encexp1[].cmm_key.h", "encexp1[].g", "encexp2[].commitment", "encexp2[].y", "encexp2[].cmm_key.g", "encexp2[].cmm_key.h", "encexp2[].g"] }

    fn fields() -> Vec<&'static str> { vec!["dlog", "elg_dec", "encexp1", "encexp2"] }

    fn gen(r: &mut CRng, _n: usize) -> (Self::P, EncTransSecret<G1>) {
        let sk = elgamal::SecretKey::<G1>::generate_all(r);
        let pk = elgamal::PublicKey::from(&sk);
        let s = match r.0.below(4) {
            0 => 1,
            1 => u64::MAX,
            _ => r.0.next().max(1),
        };
        let h = G1::generate(r);
        let big_s = pk.encrypt_exponent_given_generator(&Value::from(s), &h, r);
        let a = match r.0.below(4) {
            0 => 0,
            1 => s,
            _ => r.0.below(s),
        };
        let s_prime = s - a;
        let a_chunks = CHUNK_SIZE.u64_to_chunks(a);
        let sp_chunks = CHUNK_SIZE.u64_to_chunks(s_prime);
        let sk2 = elgamal::SecretKey::<G1>::generate(&pk.generator, r);
        let pk2 = elgamal::PublicKey::from(&sk2);
        let a_vals: Vec<Value<G1>> = a_chunks.iter().map(|v| Value::from(*v)).collect();
        let a_enc = pk2.encrypt_exponent_vec_given_generator(a_vals.iter(), &h, r);
        let sp_vals: Vec<Value<G1>> = sp_chunks.iter().map(|v| Value::from(*v)).collect();
        let sp_enc = pk.encrypt_exponent_vec_given_generator(sp_vals.iter(), &h, r);
        let a_secrets = a_chunks.iter().zip(a_enc.iter()).map(|(c, (_, rd))| ComEqSecret::<G1> { r: Randomness::from_u64(*c), a: rd.to_value() }).collect();
        let sp_secrets = sp_chunks.iter().zip(sp_enc.iter()).map(|(c, (_, rd))| ComEqSecret::<G1> { r: Randomness::from_u64(*c), a: rd.to_value() }).collect();
        let encexp1 = a_enc.iter().map(|(c, _)| ComEq { commitment: Commitment(c.1), y: c.0, cmm_key: CommitmentKey { g: pk2.key, h }, g: pk.generator }).collect();
        let encexp2 = sp_enc.iter().map(|(c, _)| ComEq { commitment: Commitment(c.1), y: c.0, cmm_key: CommitmentKey { g: pk.key, h }, g: pk.generator }).collect();
        (
            EncTrans { dlog: Dlog { public: pk.key, coeff: sk.generator }, elg_dec: ElgDec { public: big_s.1, coeff: [big_s.0, h] }, encexp1, encexp2 },
            EncTransSecret { dlog_secret: Rc::new(sk.scalar), encexp1_secrets: a_secrets, encexp2_secrets: sp_secrets },
        )
    }

    fn copy(p: &Self::P) -> Self::P {
        EncTrans {
            dlog: Dlog { public: p.dlog.public, coeff: p.dlog.coeff },
            elg_dec: ElgDec { public: p.elg_dec.public, coeff: p.elg_dec.coeff },
            encexp1: p.encexp1.iter().map(ComEqI::copy_).collect(),
            encexp2: p.encexp2.iter().map(ComEqI::copy_).collect(),
        }
    }

    fn perturb(p: &mut Self::P, f: &str, r: &mut CRng) -> Option<String> {
        Some(match f {
            "dlog" => {
                if r.0.chance(1, 2) {
                    bump(&mut p.dlog.public);
                    "dlog.public".into()
                } else {
                    bump(&mut p.dlog.coeff);
                    "dlog.coeff".into()
                }
            }
            "elg_dec" => match r.0.below(3) {
                0 => {
                    bump(&mut p.elg_dec.public);
                    "elg_dec.public".into()
                }
                1 => {
                    bump(&mut p.elg_dec.coeff[0]);
                    "elg_dec.coeff0".into()
                }
                _ => {
                    bump(&mut p.elg_dec.coeff[1]);
                    "elg_dec.coeff1".into()
                }
            },
            _ => {
                let v = if f == "encexp1" { &mut p.encexp1 } else { &mut p.encexp2 };
                if v.is_empty() {
                    return None;
                }
                let i = r.0.below(v.len() as u64) as usize;
                let sub = *r.0.pick(&["commitment", "y", "cmm_key", "g"]);
                format!("{}[{}].{}", f, i, ComEqI::perturb_(&mut v[i], sub, r))
            }
        })
    }

    fn resp_scalars(p: &Self::P, _b: &[u8]) -> Vec<usize> {
        let mut v = vec![0];
        let mut off = 32 + 4;
        for _ in 0..p.encexp1.len() {
            v.push(off);
            v.push(off + 32);
            off += 64;
        }
        off += 4;
        for _ in 0..p.encexp2.len() {
            v.push(off);
            v.push(off + 32);
            off += 64;
        }
        v
    }

    fn resp_vectors(p: &Self::P, _b: &[u8]) -> Vec<VecDesc> {
        let n1 = p.encexp1.len();
        vec![VecDesc::fixed("response_encexp1", 32, 4, n1, 64), VecDesc::fixed("response_encexp2", 36 + 64 * n1, 4, p.encexp2.len(), 64)]
    }
}

// ---------------------------------------------------------------- compositions
pub struct AndI<A, B>(std::marker::PhantomData<(A, B)>);
impl<A: Inst, B: Inst> Inst for AndI<A, B> {
    type P = AndAdapter<A::P, B::P>;

    fn name() -> String { format!("and({},{})", A::name(), B::name()) }

    fn fields() -> Vec<&'static str> { vec!["first", "second"] }

    fn gen(r: &mut CRng, s: usize) -> (Self::P, (<A::P as SigmaProtocol>::SecretData, <B::P as SigmaProtocol>::SecretData)) {
        let (a, sa) = A::gen(r, s.min(3));
        let (b, sb) = B::gen(r, s.min(3));
        (AndAdapter { first: a, second: b }, (sa, sb))
    }

    fn copy(p: &Self::P) -> Self::P { AndAdapter { first: A::copy(&p.first), second: B::copy(&p.second) } }

    fn perturb(p: &mut Self::P, f: &str, r: &mut CRng) -> Option<String> {
        if f == "first" {
            let fs = A::fields();
            for _ in 0..8 {
                let sub = *r.0.pick(&fs);
                if let Some(l) = A::perturb(&mut p.first, sub, r) {
                    return Some(format!("first.{}", l));
                }
            }
            None
        } else {
            let fs = B::fields();
            for _ in 0..8 {
                let sub = *r.0.pick(&fs);
                if let Some(l) = B::perturb(&mut p.second, sub, r) {
                    return Some(format!("second.{}", l));
                }
            }
            None
        }
    }

    fn resp_scalars(p: &Self::P, b: &[u8]) -> Vec<usize> {
        // the first response is self-delimiting: find its length by deserializing it
        let mut c = std::io::Cursor::new(b);
        let r1: Option<<A::P as SigmaProtocol>::Response> = concordium_base::common::from_bytes(&mut c).ok();
        if r1.is_none() {
            return vec![];
        }
        let l1 = c.position() as usize;
        let mut v = A::resp_scalars(&p.first, &b[..l1]);
        v.extend(B::resp_scalars(&p.second, &b[l1..]).into_iter().map(|o| o + l1));
        v
    }

    fn resp_vectors(p: &Self::P, b: &[u8]) -> Vec<VecDesc> {
        let mut c = std::io::Cursor::new(b);
        let r1: Option<<A::P as SigmaProtocol>::Response> = concordium_base::common::from_bytes(&mut c).ok();
        if r1.is_none() {
            return vec![];
        }
        let l1 = c.position() as usize;
        let mut v: Vec<VecDesc> = A::resp_vectors(&p.first, &b[..l1]).into_iter().map(|d| d.shifted(0, "r1.")).collect();
        v.extend(B::resp_vectors(&p.second, &b[l1..]).into_iter().map(|d| d.shifted(l1, "r2.")));
        v
    }
}

pub struct RepI<A>(std::marker::PhantomData<A>);
impl<A: Inst> Inst for RepI<A> {
    type P = ReplicateAdapter<A::P>;

    fn name() -> String { format!("replicate({})", A::name()) }

    fn fields() -> Vec<&'static str> { vec!["protocols"] }

    fn sizes() -> Vec<usize> { vec![1, 2, 5, 17] }

    fn gen(r: &mut CRng, n: usize) -> (Self::P, Vec<<A::P as SigmaProtocol>::SecretData>) {
        let mut ps = vec![];
        let mut ss = vec![];
        for _ in 0..n.max(1) {
            let (p, s) = A::gen(r, 1);
            ps.push(p);
            ss.push(s);
        }
        (ReplicateAdapter { protocols: ps }, ss)
    }

    fn copy(p: &Self::P) -> Self::P { ReplicateAdapter { protocols: p.protocols.iter().map(A::copy).collect() } }

    fn perturb(p: &mut Self::P, _f: &str, r: &mut CRng) -> Option<String> {
        let i = r.0.below(p.protocols.len() as u64) as usize;
        let fs = A::fields();
        for _ in 0..8 {
            let sub = *r.0.pick(&fs);
            if let Some(l) = A::perturb(&mut p.protocols[i], sub, r) {
                return Some(format!("protocols[{}].{}", i, l));
            }
        }
        None
    }

    fn resp_scalars(p: &Self::P, b: &[u8]) -> Vec<usize> {
        // u32 count, then equally sized responses (all sub-protocols here have fixed size responses)
        let n = p.protocols.len();
        if n == 0 || b.len() < 4 || (b.len() - 4) % n != 0 {
            return vec![];
        }
        let each = (b.len() - 4) / n;
        let mut v = vec![];
        for (i, q) in p.protocols.iter().enumerate() {
            v.extend(A::resp_scalars(q, &b[4 + i * each..4 + (i + 1) * each]).into_iter().map(|o| o + 4 + i * each));
        }
        v
    }

    fn resp_vectors(p: &Self::P, b: &[u8]) -> Vec<VecDesc> {
        let n = p.protocols.len();
        if n == 0 || b.len() < 4 || (b.len() - 4) % n != 0 {
            return vec![];
        }
        vec![VecDesc::fixed("responses", 0, 4, n, (b.len() - 4) / n)]
    }
}

// ---------------------------------------------------------------- the generic driver

fn flip_challenge(c: &Challenge, r: &mut CRng) -> Challenge {
    let mut b = to_bytes(c);
    let i = r.0.below(b.len() as u64) as usize;
    b[i] ^= 1 << r.0.below(8);
    deser::<Challenge>(&b).expect("32 bytes are a challenge")
}

fn violate(sh: &mut Shard, idx: u64, kind: &str, sig: String, detail: String, case: Json) { sh.violate(idx, kind, sig, detail, case) }

/// `public` streams of two statements on both real transcripts: returns
/// (streams differ, challenges differ on legacy, challenges differ on v1)
fn public_streams<Q: SigmaProtocol>(a: &Q, b: &Q, dom: &[u8]) -> (bool, bool, bool) {
    let mut la = Rec::new(legacy(dom));
    a.public(&mut la);
    let mut lb = Rec::new(legacy(dom));
    b.public(&mut lb);
    let mut va = Rec::new(v1(dom));
    a.public(&mut va);
    let mut vb = Rec::new(v1(dom));
    b.public(&mut vb);
    (la.bytes() != lb.bytes() && va.bytes() != vb.bytes(), la.extract_raw_challenge() != lb.extract_raw_challenge(), va.extract_raw_challenge() != vb.extract_raw_challenge())
}

pub fn drive<I: Inst>(ctx: &ChildCtx, sh: &mut Shard, idx: u64, r: &mut CRng) {
    let name = I::name();
    let sizes = I::sizes();
    let size = sizes[((idx / 16) as usize + ctx.shard as usize) % sizes.len()];
    let tk = if r.0.chance(1, 2) { TrKind::Legacy } else { TrKind::V1 };
    let dom = r.rand_bytes(24);
    let prefix: Option<Vec<u8>> = if r.0.chance(1, 2) { Some(r.rand_bytes(40)) } else { None };
    let (stmt, secret) = match catch(|| I::gen(r, size)) {
        Ok(x) => x,
        Err(e) => {
            sh.inconclusive.push(format!("{}: instance generation panicked: {}", name, e));
            return;
        }
    };
    sh.hit(&format!("size.{}.{}", name, size));
    let stmt_fnv = {
        let mut rec = Rec::new(v1(b""));
        stmt.public(&mut rec);
        fnv(&rec.bytes())
    };
    let desc = |extra: Json| json!({"protocol": name, "size": size, "transcript": tk.name(), "domain_hex": hex(&dom), "prefix_hex": prefix.as_ref().map(|p| hex(p)), "statement_public_stream_fnv": format!("{:016x}", stmt_fnv), "detail": extra});
    // context = domain + optional prefix message
    macro_rules! ctx_tr {
        ($tk:expr, $dom:expr, $extra:expr, |$t:ident| $body:expr) => {
            with_tr!($tk, $dom, |$t| {
                if let Some(p) = &prefix {
                    $t.append_message(b"ctx", p);
                }
                if $extra {
                    $t.append_message(b"extra", &1u8);
                }
                $body
            })
        };
    }
    // ---- completeness
    let pr = catch(|| ctx_tr!(tk, &dom, false, |t| (prove(&mut t, &stmt, secret, r), t.extract_raw_challenge())));
    sh.evaluations += 1;
    sh.hit(&format!("complete.{}", name));
    let (proof, prover_state): (SigmaProof<<I::P as SigmaProtocol>::Response>, Challenge) = match pr {
        Ok((Some(p), st)) => (p, st),
        Ok((None, _)) => {
            violate(sh, idx, "incomplete", format!("c07:{}:prove-none:{:016x}", name, stmt_fnv), format!("{}: prove returned None on a valid statement/witness pair", name), desc(json!(null)));
            return;
        }
        Err(e) => {
            violate(sh, idx, "incomplete", format!("c07:{}:prove-panic:{:016x}", name, stmt_fnv), format!("{}: prove panicked on a valid statement/witness pair: {}", name, e), desc(json!(null)));
            return;
        }
    };
    let pbytes = to_bytes(&proof);
    let ver = |stmt: &I::P, proof: &SigmaProof<<I::P as SigmaProtocol>::Response>, tk: TrKind, dom: &[u8], extra: bool| catch(|| ctx_tr!(tk, dom, extra, |t| (verify(&mut t, stmt, proof), t.extract_raw_challenge())));
    let ok = match ver(&stmt, &proof, tk, &dom, false) {
        Ok((true, vstate)) => {
            // sequential composition: prover and verifier leave the context in the same state
            sh.evaluations += 1;
            sh.hit("context.state_agrees");
            if vstate != prover_state {
                violate(sh, idx, "context-state-differs", format!("c07:{}:state:{:016x}", name, fnv(&pbytes)), format!("{}: prover and verifier leave the transcript in different states", name), desc(json!({"proof_hex": hex(&pbytes)})));
            }
            true
        }
        Ok((false, _)) => false,
        Err(e) => {
            violate(sh, idx, "incomplete", format!("c07:{}:verify-panic:{:016x}", name, fnv(&pbytes)), format!("{}: verify panicked on an honest proof: {}", name, e), desc(json!({"proof_hex": hex(&pbytes)})));
            return;
        }
    };
    let ok = ok && !(planted("c07.accept") && name == "dlog");
    if !ok {
        violate(sh, idx, "incomplete", format!("c07:{}:rejected:{:016x}", name, fnv(&pbytes)), format!("{}: honest proof did not verify under the same context", name), desc(json!({"proof_hex": hex(&pbytes)})));
        return;
    }
    let reject = |sh: &mut Shard, what: &str, sub: &str, res: Result<(bool, Challenge), String>| {
        sh.evaluations += 1;
        sh.hit("reject.expected");
        sh.hit(&format!("perturb.{}.{}", name, what));
        let acc = match res {
            Ok((a, _)) => a,
            Err(e) => {
                sh.hit(&format!("note.verifier_panic.{}.{}", name, what));
                if ctx.replaying() {
                    println!("verifier panicked on {}.{}: {}", name, sub, e);
                }
                false
            }
        };
        let acc = acc || (planted("c07.reject") && what == "challenge");
        if acc {
            violate(sh, idx, "accepted-altered", format!("c07:{}:accepted:{}:{:016x}", name, sub, fnv(&pbytes)), format!("{}: verification succeeded although '{}' was altered", name, sub), desc(json!({"altered": sub, "proof_hex": hex(&pbytes)})));
        }
    };
    // ---- layer (i)+(ii)+(iii): every field of the statement
    for f in I::fields() {
        let mut applied = false;
        for _ in 0..3 {
            let mut s2 = I::copy(&stmt);
            let sub = match I::perturb(&mut s2, f, r) {
                Some(s) => s,
                None => break,
            };
            applied = true;
            reject(sh, f, &sub, ver(&s2, &proof, tk, &dom, false));
            // (ii) transcript binding
            let (streams, cl, cv) = public_streams(&stmt, &s2, &dom);
            sh.evaluations += 1;
            sh.hit(&format!("transcript.{}.{}", name, f));
            sh.hit(&format!("sub.{}.{}", name, norm_sub(&sub)));
            if !(streams && cl && cv) {
                violate(
                    sh,
                    idx,
                    "transcript-omits-field",
                    format!("c07:transcript-omits:{}:{}", name, f),
                    format!("{}: `public` feeds identical data to the transcript for two statements that differ in field '{}' ({}); recorded streams differ: {}, challenges differ: legacy {}, v1 {}", name, f, sub, streams, cl, cv),
                    desc(json!({"field": f, "perturbation": sub})),
                );
            }
        }
        if !applied {
            sh.hit(&format!("field_not_perturbable.{}.{}", name, f));
        }
    }
    // ---- context
    {
        let mut d2 = dom.clone();
        d2.push(0x41);
        reject(sh, "context.domain", "context.domain", ver(&stmt, &proof, tk, &d2, false));
        reject(sh, "context.extra_message", "context.extra_message", ver(&stmt, &proof, tk, &dom, true));
        let tk2 = if tk == TrKind::Legacy { TrKind::V1 } else { TrKind::Legacy };
        reject(sh, "context.kind", "context.transcript_kind", ver(&stmt, &proof, tk2, &dom, false));
    }
    // ---- challenge
    {
        match deser::<<I::P as SigmaProtocol>::Response>(&to_bytes(&proof.response)) {
            Some(resp) => {
                let p2 = SigmaProof { challenge: flip_challenge(&proof.challenge, r), response: resp };
                reject(sh, "challenge", "challenge", ver(&stmt, &p2, tk, &dom, false));
            }
            None => sh.inconclusive.push(format!("{}: the response does not round-trip through its own serialization", name)),
        }
    }
    // ---- response components
    {
        let rb = to_bytes(&proof.response);
        let mut offs = I::resp_scalars(&stmt, &rb);
        sh.max(&format!("max.response_scalars.{}", name), offs.len() as u64);
        if offs.len() > 10 {
            r.0.shuffle(&mut offs);
            offs.truncate(10);
        }
        for o in offs {
            let mut b2 = rb.clone();
            if !bump_scalar::<G1>(&mut b2, o) {
                sh.hit(&format!("note.response_offset_unparsable.{}", name));
                continue;
            }
            match deser::<<I::P as SigmaProtocol>::Response>(&b2) {
                Some(resp) => {
                    let p2 = SigmaProof { challenge: proof.challenge, response: resp };
                    reject(sh, "response", &format!("response@{}", o), ver(&stmt, &p2, tk, &dom, false));
                }
                None => sh.hit(&format!("note.response_undeserializable.{}", name)),
            }
        }
    }
    // ---- shape of the response: every vector / map gets an element appended, removed, duplicated, and a wrong count
    {
        let rb = to_bytes(&proof.response);
        for vd in I::resp_vectors(&stmt, &rb) {
            for (what, b2) in vd.shape_variants(&rb) {
                let class = what.rsplit('.').next().unwrap_or("").to_string();
                match deser::<<I::P as SigmaProtocol>::Response>(&b2) {
                    Some(resp) => {
                        let p2 = SigmaProof { challenge: proof.challenge, response: resp };
                        sh.hit(&format!("shape.{}.{}", name, class));
                        reject(sh, "response.shape", &format!("response.{}", what), ver(&stmt, &p2, tk, &dom, false));
                    }
                    None => {
                        sh.evaluations += 1;
                        sh.hit("reject.expected");
                        sh.hit(&format!("shape.{}.{}.undeserializable", name, class));
                    }
                }
            }
        }
    }
    sh.nontrivial(fnv(&pbytes));
    sh.sample(|| desc(json!({"proof_hex": vmon_core::hex_short(&pbytes, 200)})));
}

// ---------------------------------------------------------------- com_lin (harness-computed response)

fn com_lin_case(ctx: &ChildCtx, sh: &mut Shard, idx: u64, r: &mut CRng) {
    let name = "com_lin";
    let sizes = [0usize, 1, 2, 17, 64];
    let n = sizes[((idx / 16) as usize + ctx.shard as usize) % sizes.len()];
    let tk = if r.0.chance(1, 2) { TrKind::Legacy } else { TrKind::V1 };
    let dom = r.rand_bytes(24);
    let cmm_key = CommitmentKey::<G1>::generate(r);
    let xs: Vec<Fr> = (0..n).map(|_| wit(r)).collect();
    let us: Vec<Fr> = (0..n).map(|_| wit(r)).collect();
    let rs: Vec<Fr> = (0..n).map(|_| G1::generate_scalar(r)).collect();
    let rr = G1::generate_scalar(r);
    let cmms: Vec<Commitment<G1>> = xs.iter().zip(&rs).map(|(x, rd)| cmm_key.hide_worker(x, rd)).collect();
    let mut lin = Fr::zero();
    for (u, x) in us.iter().zip(&xs) {
        let mut t = *u;
        t.mul_assign(x);
        lin.add_assign(&t);
    }
    let cmm = cmm_key.hide_worker(&lin, &rr);
    let stmt = ComLin { us: us.clone(), cmms: cmms.clone(), cmm, cmm_key };
    let copy = |p: &ComLin<G1>| ComLin { us: p.us.clone(), cmms: p.cmms.clone(), cmm: p.cmm, cmm_key: p.cmm_key };
    sh.hit(&format!("size.{}.{}", name, n));
    // prover: library commit message + transcript, harness response
    let made = catch(|| {
        with_tr!(tk, &dom, |t| {
            let (cm, (alphas, r_i_tildes, r_tilde)) = stmt.compute_commit_message(r)?;
            stmt.public(&mut t);
            t.append_message("point", &cm);
            let ch = t.extract_raw_challenge();
            let c = stmt.get_challenge(&ch);
            // zs, ss (u32 length prefixed each), s
            let mut out: Vec<u8> = vec![];
            out.extend_from_slice(&(n as u32).to_be_bytes());
            for (x, a) in xs.iter().zip(&alphas) {
                let mut z = c;
                z.mul_assign(x);
                z.negate();
                z.add_assign(a);
                out.extend(to_bytes(&z));
            }
            out.extend_from_slice(&(n as u32).to_be_bytes());
            for (rd, a) in rs.iter().zip(&r_i_tildes) {
                let mut z = c;
                z.mul_assign(rd);
                z.negate();
                z.add_assign(a);
                out.extend(to_bytes(&z));
            }
            let mut z = c;
            z.mul_assign(&rr);
            z.negate();
            z.add_assign(&r_tilde);
            out.extend(to_bytes(&z));
            Some((ch, out))
        })
    });
    let (ch, rb) = match made {
        Ok(Some(x)) => x,
        Ok(None) => {
            sh.evaluations += 1;
            violate(sh, idx, "incomplete", format!("c07:com_lin:commit-none:n{}", n), "com_lin: compute_commit_message returned None on consistent input".into(), json!({"protocol": name, "size": n}));
            return;
        }
        Err(e) => {
            sh.inconclusive.push(format!("com_lin: harness prover panicked: {}", e));
            return;
        }
    };
    type Resp = <ComLin<G1> as SigmaProtocol>::Response;
    let mk = |ch: &Challenge, rb: &[u8]| deser::<Resp>(rb).map(|resp| SigmaProof { challenge: *ch, response: resp });
    let ver = |s: &ComLin<G1>, p: &SigmaProof<Resp>, dom: &[u8]| catch(|| with_tr!(tk, dom, |t| verify(&mut t, s, p)));
    let proof = match mk(&ch, &rb) {
        Some(p) => p,
        None => {
            sh.inconclusive.push("com_lin: harness response does not deserialize".into());
            return;
        }
    };
    sh.evaluations += 1;
    sh.hit("complete.com_lin");
    let desc = |extra: Json| json!({"protocol": name, "size": n, "transcript": tk.name(), "domain_hex": hex(&dom), "response_hex": hex(&rb), "detail": extra});
    match ver(&stmt, &proof, &dom) {
        Ok(true) => {}
        other => {
            violate(sh, idx, "incomplete", format!("c07:com_lin:rejected:{:016x}", fnv(&rb)), format!("com_lin: honest (harness-response) proof did not verify: {:?}", other), desc(json!(null)));
            return;
        }
    }
    let reject = |sh: &mut Shard, what: &str, sub: &str, res: Result<bool, String>| {
        sh.evaluations += 1;
        sh.hit("reject.expected");
        sh.hit(&format!("perturb.{}.{}", name, what));
        if let Ok(true) = res {
            violate(sh, idx, "accepted-altered", format!("c07:{}:accepted:{}:{:016x}", name, sub, fnv(&rb)), format!("{}: verification succeeded although '{}' was altered", name, sub), desc(json!({"altered": sub})));
        }
    };
    for f in ["us", "cmms", "cmm", "cmm_key"] {
        let mut s2 = copy(&stmt);
        let sub = match f {
            "us" if n > 0 => {
                let i = r.0.below(n as u64) as usize;
                s2.us[i].add_assign(&Fr::one());
                format!("us[{}]", i)
            }
            "cmms" if n > 0 => {
                let i = r.0.below(n as u64) as usize;
                bump(&mut s2.cmms[i].0);
                format!("cmms[{}]", i)
            }
            "cmm" => {
                bump(&mut s2.cmm.0);
                f.to_string()
            }
            "cmm_key" => format!("cmm_key.{}", bump_key(&mut s2.cmm_key, r)),
            _ => {
                sh.hit(&format!("field_not_perturbable.{}.{}", name, f));
                continue;
            }
        };
        reject(sh, f, &sub, ver(&s2, &proof, &dom));
        let (streams, cl, cv) = public_streams(&stmt, &s2, &dom);
        sh.evaluations += 1;
        sh.hit(&format!("transcript.{}.{}", name, f));
        if !(streams && cl && cv) {
            violate(sh, idx, "transcript-omits-field", format!("c07:transcript-omits:{}:{}", name, f), format!("{}: `public` feeds identical data for statements differing in '{}' ({})", name, f, sub), desc(json!({"field": f})));
        }
    }
    let mut d2 = dom.clone();
    d2.push(1);
    reject(sh, "context.domain", "context.domain", ver(&stmt, &proof, &d2));
    let p2 = SigmaProof { challenge: flip_challenge(&ch, r), response: deser::<Resp>(&rb).unwrap() };
    reject(sh, "challenge", "challenge", ver(&stmt, &p2, &dom));
    let mut offs: Vec<usize> = (0..n).map(|i| 4 + 32 * i).chain((0..n).map(|i| 8 + 32 * n + 32 * i)).collect();
    offs.push(8 + 64 * n);
    r.0.shuffle(&mut offs);
    offs.truncate(8);
    for o in offs {
        let mut b2 = rb.clone();
        if bump_scalar::<G1>(&mut b2, o) {
            if let Some(p2) = mk(&ch, &b2) {
                reject(sh, "response", &format!("response@{}", o), ver(&stmt, &p2, &dom));
            }
        }
    }
    for vd in [VecDesc::fixed("zs", 0, 4, n, 32), VecDesc::fixed("ss", 4 + 32 * n, 4, n, 32)] {
        for (what, b2) in vd.shape_variants(&rb) {
            let class = what.rsplit('.').next().unwrap_or("").to_string();
            match mk(&ch, &b2) {
                Some(p2) => {
                    sh.hit(&format!("shape.{}.{}", name, class));
                    reject(sh, "response.shape", &format!("response.{}", what), ver(&stmt, &p2, &dom));
                }
                None => {
                    sh.evaluations += 1;
                    sh.hit("reject.expected");
                    sh.hit(&format!("shape.{}.{}.undeserializable", name, class));
                }
            }
        }
    }
    sh.nontrivial(fnv(&rb));
}

// ---------------------------------------------------------------- com_ineq (function API with its own transcript)

fn com_ineq_case(_ctx: &ChildCtx, sh: &mut Shard, idx: u64, r: &mut CRng) {
    let name = "com_ineq";
    let key = CommitmentKey::<G1>::generate(r);
    let v = wit(r);
    let rd = Randomness::<G1>::generate(r);
    let equal = r.0.chance(1, 4);
    let pv = if equal {
        v
    } else {
        let mut p = match r.0.below(3) {
            0 => {
                // adjacent
                let mut p = v;
                p.add_assign(&Fr::one());
                p
            }
            _ => wit(r),
        };
        if p == v {
            p.add_assign(&Fr::one());
        }
        p
    };
    let value = Value::<G1>::new(v);
    let c = key.hide(&value, &rd);
    let desc = |extra: Json| json!({"protocol": name, "value_hex": hex(&to_bytes(&v)), "public_value_hex": hex(&to_bytes(&pv)), "commitment_key_hex": hex(&to_bytes(&key)), "commitment_hex": hex(&to_bytes(&c)), "detail": extra});
    let pr = catch(|| com_ineq::prove_com_ineq(&key, &value, &rd, pv, r));
    if equal {
        // false statement: the library's prover must refuse or its output must not verify
        sh.evaluations += 1;
        sh.hit("reject.expected");
        sh.hit("perturb.com_ineq.false_statement");
        if let Ok(Some(p)) = pr {
            if let Ok(true) = catch(|| com_ineq::verify_com_ineq(&key, &c, pv, &p)) {
                violate(sh, idx, "accepted-false", format!("c07:com_ineq:false:{}", hex(&to_bytes(&v))), "com_ineq: proof of value != value verified".into(), desc(json!(null)));
            }
        }
        return;
    }
    sh.evaluations += 1;
    sh.hit("complete.com_ineq");
    let proof = match pr {
        Ok(Some(p)) => p,
        other => {
            violate(sh, idx, "incomplete", format!("c07:com_ineq:prove:{}:{}", hex(&to_bytes(&v)), hex(&to_bytes(&pv))), format!("com_ineq: prover failed on distinct values: {:?}", other.map(|o| o.is_some())), desc(json!(null)));
            return;
        }
    };
    let pb = to_bytes(&proof);
    match catch(|| com_ineq::verify_com_ineq(&key, &c, pv, &proof)) {
        Ok(true) => {}
        other => {
            violate(sh, idx, "incomplete", format!("c07:com_ineq:rejected:{:016x}", fnv(&pb)), format!("com_ineq: honest proof did not verify: {:?}", other), desc(json!({"proof_hex": hex(&pb)})));
            return;
        }
    }
    let reject = |sh: &mut Shard, what: &str, res: Result<bool, String>| {
        sh.evaluations += 1;
        sh.hit("reject.expected");
        sh.hit(&format!("perturb.{}.{}", name, what));
        if let Ok(true) = res {
            violate(sh, idx, "accepted-altered", format!("c07:{}:accepted:{}:{:016x}", name, what, fnv(&pb)), format!("{}: verification succeeded although '{}' was altered", name, what), desc(json!({"altered": what, "proof_hex": hex(&pb)})));
        }
    };
    let mut k2 = key;
    bump(&mut k2.g);
    reject(sh, "com_key.g", catch(|| com_ineq::verify_com_ineq(&k2, &c, pv, &proof)));
    let mut k2 = key;
    bump(&mut k2.h);
    reject(sh, "com_key.h", catch(|| com_ineq::verify_com_ineq(&k2, &c, pv, &proof)));
    let c2 = Commitment(c.0.plus_point(&key.g));
    reject(sh, "commitment", catch(|| com_ineq::verify_com_ineq(&key, &c2, pv, &proof)));
    let mut pv2 = pv;
    pv2.add_assign(&Fr::one());
    reject(sh, "pub_value", catch(|| com_ineq::verify_com_ineq(&key, &c, pv2, &proof)));
    // the public value set to the committed value: a false statement
    reject(sh, "pub_value=value", catch(|| com_ineq::verify_com_ineq(&key, &c, v, &proof)));
    // proof: challenge(32) ss[2] ts[2] t (5 scalars) aux_com(48)
    if pb.len() == 32 + 5 * 32 + 48 {
        let mut b2 = pb.clone();
        b2[r.0.below(32) as usize] ^= 1;
        if let Some(p2) = deser::<com_ineq::Response<G1>>(&b2) {
            reject(sh, "challenge", catch(|| com_ineq::verify_com_ineq(&key, &c, pv, &p2)));
        }
        for i in 0..5 {
            let mut b2 = pb.clone();
            if bump_scalar::<G1>(&mut b2, 32 + 32 * i) {
                if let Some(p2) = deser::<com_ineq::Response<G1>>(&b2) {
                    reject(sh, "response", catch(|| com_ineq::verify_com_ineq(&key, &c, pv, &p2)));
                }
            }
        }
        let mut b2 = pb.clone();
        if bump_point::<G1>(&mut b2, 32 + 5 * 32) {
            if let Some(p2) = deser::<com_ineq::Response<G1>>(&b2) {
                reject(sh, "aux_com", catch(|| com_ineq::verify_com_ineq(&key, &c, pv, &p2)));
            }
        }
    } else {
        sh.hit("note.com_ineq.unexpected_proof_layout");
    }
    sh.nontrivial(fnv(&pb));
}

// ---------------------------------------------------------------- cheating strategy: adaptive choice of an unhashed public value

/// Tries to prove a FALSE com_enc_eq statement by fixing the generator used for
/// encryption in the exponent only after the challenge is known. This can only
/// succeed if `ComEncEq::public` does not feed that generator to the transcript.
fn forge_com_enc_eq(sh: &mut Shard, idx: u64, r: &mut CRng) {
    let tk = if r.0.chance(1, 2) { TrKind::Legacy } else { TrKind::V1 };
    let dom = r.rand_bytes(16);
    let sk = elgamal::SecretKey::<G1>::generate_all(r);
    let pk = elgamal::PublicKey::from(&sk);
    let cmm_key = CommitmentKey::<G1>::generate(r);
    let x = G1::generate_scalar(r);
    let big_r = G1::generate_scalar(r);
    let rr = G1::generate_scalar(r);
    let e1 = pk.generator.mul_by_scalar(&big_r);
    let e2 = G1::generate(r); // arbitrary second component
    let commitment = cmm_key.hide_worker(&x, &rr);
    let alpha = G1::generate_scalar(r);
    let beta = G1::generate_scalar(r);
    let gamma = G1::generate_scalar(r);
    let a1 = pk.generator.mul_by_scalar(&alpha);
    let a2 = G1::generate(r);
    let a3 = cmm_key.hide_worker(&beta, &gamma);
    let mk_stmt = |h: G1| ComEncEq { cipher: Cipher(e1, e2), commitment, pub_key: pk, cmm_key, encryption_in_exponent_generator: h };
    let placeholder = mk_stmt(G1::one_point());
    let res = catch(|| {
        let ch = with_tr!(tk, &dom, |t| {
            placeholder.public(&mut t);
            t.append_message("point", &(Cipher(a1, a2), a3));
            t.extract_raw_challenge()
        });
        let c: Fr = placeholder.get_challenge(&ch);
        let resp = |secret: &Fr, rnd: &Fr| {
            let mut z = c;
            z.mul_assign(secret);
            z.negate();
            z.add_assign(rnd);
            z
        };
        let z1 = resp(&big_r, &alpha);
        let z2 = resp(&x, &beta);
        let z3 = resp(&rr, &gamma);
        let z2_inv = z2.inverse()?;
        // h' = (a2 - z1*h_1 - c*e2) / z2
        let h2 = a2.minus_point(&pk.key.mul_by_scalar(&z1)).minus_point(&e2.mul_by_scalar(&c)).mul_by_scalar(&z2_inv);
        let stmt = mk_stmt(h2);
        // ground truth: is the statement false for h2 ?  e2 == h2^x * h_1^R  would make it true
        let truth = e2 == h2.mul_by_scalar(&x).plus_point(&pk.key.mul_by_scalar(&big_r));
        let mut rb = to_bytes(&z1);
        rb.extend(to_bytes(&z2));
        rb.extend(to_bytes(&z3));
        let response = deser::<<ComEncEq<G1> as SigmaProtocol>::Response>(&rb)?;
        let proof = SigmaProof { challenge: ch, response };
        let acc = with_tr!(tk, &dom, |t| verify(&mut t, &stmt, &proof));
        Some((acc, truth, to_bytes(&h2), to_bytes(&proof), to_bytes(&stmt.cipher), to_bytes(&stmt.commitment)))
    });
    sh.evaluations += 1;
    sh.hit("reject.expected");
    sh.hit("cheat.com_enc_eq.adaptive_generator");
    match res {
        Ok(Some((acc, truth, h2, proof, cipher, cm))) => {
            if acc && !truth {
                violate(
                    sh,
                    idx,
                    "accepted-false-statement",
                    "c07:forgery:com_enc_eq:adaptive_generator".into(),
                    "com_enc_eq: a proof for a FALSE statement (encrypted value != committed value) verifies when the prover picks `encryption_in_exponent_generator` after seeing the challenge; possible because ComEncEq::public does not add that field to the transcript".into(),
                    json!({"transcript": tk.name(), "domain_hex": hex(&dom), "pub_key_hex": hex(&to_bytes(&pk)), "cmm_key_hex": hex(&to_bytes(&cmm_key)), "cipher_hex": hex(&cipher), "commitment_hex": hex(&cm),
                           "encryption_in_exponent_generator_hex": hex(&h2), "proof_hex": hex(&proof), "committed_value_hex": hex(&to_bytes(&x)), "elgamal_randomness_hex": hex(&to_bytes(&big_r))}),
                );
            }
        }
        Ok(None) => sh.hit("cheat.com_enc_eq.not_applicable"),
        Err(e) => sh.inconclusive.push(format!("forge_com_enc_eq: harness panicked: {}", e)),
    }
}

// ---------------------------------------------------------------- framing injectivity of TranscriptProtocolV1

#[derive(Clone, Debug, PartialEq, Eq)]
enum FOp {
    Label(Vec<u8>),
    Bytes(Vec<u8>, Vec<u8>),
    Str(Vec<u8>, String),
    U64(Vec<u8>, u64),
    Arr(Vec<u8>, [u8; 4]),
    Msgs(Vec<u8>, Vec<u64>),
    MsgsBytes(Vec<u8>, Vec<Vec<u8>>),
    Each(Vec<u8>, Vec<Vec<u8>>),
    Final(Vec<u8>, Vec<u8>),
    Chal(Vec<u8>),
}

fn apply_ops<T: TranscriptProtocol>(t: &mut T, ops: &[FOp]) {
    for op in ops {
        match op {
            FOp::Label(l) => t.append_label(l),
            FOp::Bytes(l, m) => t.append_message(l, m),
            FOp::Str(l, m) => t.append_message(l, m),
            FOp::U64(l, m) => t.append_message(l, m),
            FOp::Arr(l, m) => t.append_message(l, m),
            FOp::Msgs(l, ms) => t.append_messages(l, ms),
            FOp::MsgsBytes(l, ms) => t.append_messages(l, ms),
            FOp::Each(l, ms) => t.append_each_message(l, ms, |t, m| t.append_message(b"item", m)),
            FOp::Final(l, m) => t.append_final_prover_message(l, m),
            FOp::Chal(l) => {
                let _ = t.extract_challenge_scalar::<G1>(l);
            }
        }
    }
}

fn small_bytes(r: &mut CRng, max: u64) -> Vec<u8> {
    let n = r.0.below(max + 1) as usize;
    // small alphabet (incl. 0 and 1, which look like length prefixes) to provoke ambiguities
    (0..n).map(|_| *r.0.pick(&[0u8, 1, 2, 8, b'a', b'b', b'c', 0xff])).collect()
}

fn gen_op(r: &mut CRng) -> FOp {
    let l = small_bytes(r, 4);
    match r.0.below(10) {
        0 => FOp::Label(l),
        1 => FOp::Bytes(l, small_bytes(r, 12)),
        2 => FOp::Str(l, String::from_utf8(small_bytes(r, 6).into_iter().map(|b| b & 0x7f).collect()).unwrap()),
        3 => FOp::U64(l, r.0.u64v()),
        4 => FOp::Arr(l, [r.0.next() as u8, r.0.next() as u8, 0, 1]),
        5 => FOp::Msgs(l, (0..r.0.below(4)).map(|_| r.0.below(3)).collect()),
        6 => FOp::MsgsBytes(l, (0..r.0.below(4)).map(|_| small_bytes(r, 3)).collect()),
        7 => FOp::Each(l, (0..r.0.below(4)).map(|_| small_bytes(r, 3)).collect()),
        8 => FOp::Final(l, small_bytes(r, 6)),
        _ => FOp::Chal(l),
    }
}

fn label_mut(op: &mut FOp) -> &mut Vec<u8> {
    match op {
        FOp::Label(l) | FOp::Bytes(l, _) | FOp::Str(l, _) | FOp::U64(l, _) | FOp::Arr(l, _) | FOp::Msgs(l, _) | FOp::MsgsBytes(l, _) | FOp::Each(l, _) | FOp::Final(l, _) | FOp::Chal(l) => l,
    }
}

/// Returns a sequence with the same skeleton but a different content/split, and the kind of change.
fn mutate_ops(r: &mut CRng, a: &[FOp]) -> (Vec<FOp>, &'static str) {
    let mut b = a.to_vec();
    let i = r.0.below(b.len() as u64) as usize;
    match r.0.below(7) {
        0 => {
            let l = label_mut(&mut b[i]);
            if l.is_empty() || r.0.chance(1, 2) {
                l.push(*r.0.pick(&[0u8, 1, b'a']));
            } else {
                let k = r.0.below(l.len() as u64) as usize;
                l[k] ^= 1;
            }
            (b, "label")
        }
        1 => {
            match &mut b[i] {
                FOp::Bytes(_, m) | FOp::Final(_, m) => {
                    if m.is_empty() || r.0.chance(1, 2) {
                        m.push(0)
                    } else {
                        m.pop();
                    }
                }
                FOp::Str(_, m) => m.push('a'),
                FOp::U64(_, m) => *m = m.wrapping_add(1),
                FOp::Arr(_, m) => m[3] ^= 1,
                FOp::Msgs(_, ms) => ms.push(0),
                FOp::MsgsBytes(_, ms) | FOp::Each(_, ms) => ms.push(vec![]),
                FOp::Label(l) | FOp::Chal(l) => l.push(0),
            }
            (b, "content")
        }
        2 => {
            // label split across two consecutive labels: ("ab","c") vs ("a","bc")
            b.insert(i, FOp::Label(b"c".to_vec()));
            b.insert(i, FOp::Label(b"ab".to_vec()));
            let mut a2 = b.clone();
            a2[i] = FOp::Label(b"a".to_vec());
            a2[i + 1] = FOp::Label(b"bc".to_vec());
            return (splice_pair(a, b, a2), "label_split");
        }
        3 => {
            // label / message split
            b.insert(i, FOp::Bytes(b"ab".to_vec(), b"c".to_vec()));
            let mut a2 = b.clone();
            a2[i] = FOp::Bytes(b"a".to_vec(), b"bc".to_vec());
            return (splice_pair(a, b, a2), "label_message_split");
        }
        4 => {
            // collection split [x,y],[z] vs [x],[y,z]
            b.insert(i, FOp::Msgs(b"l".to_vec(), vec![3]));
            b.insert(i, FOp::Msgs(b"l".to_vec(), vec![1, 2]));
            let mut a2 = b.clone();
            a2[i] = FOp::Msgs(b"l".to_vec(), vec![1]);
            a2[i + 1] = FOp::Msgs(b"l".to_vec(), vec![2, 3]);
            return (splice_pair(a, b, a2), "collection_split");
        }
        5 => {
            b.insert(i, FOp::Each(b"l".to_vec(), vec![vec![3]]));
            b.insert(i, FOp::Each(b"l".to_vec(), vec![vec![1], vec![2]]));
            let mut a2 = b.clone();
            a2[i] = FOp::Each(b"l".to_vec(), vec![vec![1]]);
            a2[i + 1] = FOp::Each(b"l".to_vec(), vec![vec![2], vec![3]]);
            return (splice_pair(a, b, a2), "each_split");
        }
        _ => {
            // bytes moved between two consecutive variable-length messages
            b.insert(i, FOp::Bytes(b"m".to_vec(), vec![1, b'm']));
            b.insert(i, FOp::Bytes(b"m".to_vec(), vec![0, 0]));
            let mut a2 = b.clone();
            a2[i] = FOp::Bytes(b"m".to_vec(), vec![0]);
            a2[i + 1] = FOp::Bytes(b"m".to_vec(), vec![0, 1, b'm']);
            return (splice_pair(a, b, a2), "message_split");
        }
    }
}

/// helper for the split mutations: they define BOTH sequences; the first is
/// smuggled out through a thread local so that `mutate_ops` keeps one shape
fn splice_pair(_orig: &[FOp], first: Vec<FOp>, second: Vec<FOp>) -> Vec<FOp> {
    SPLIT_FIRST.with(|s| *s.borrow_mut() = Some(first));
    second
}
thread_local! { static SPLIT_FIRST: std::cell::RefCell<Option<Vec<FOp>>> = const { std::cell::RefCell::new(None) }; }

fn framing_case(sh: &mut Shard, idx: u64, r: &mut CRng) {
    for _ in 0..40 {
        let n = 1 + r.0.below(6) as usize;
        let a0: Vec<FOp> = (0..n).map(|_| gen_op(r)).collect();
        SPLIT_FIRST.with(|s| *s.borrow_mut() = None);
        let (b, kind) = mutate_ops(r, &a0);
        let a = SPLIT_FIRST.with(|s| s.borrow_mut().take()).unwrap_or(a0);
        if a == b {
            sh.hit("framing.identical_skipped");
            continue;
        }
        let dom = small_bytes(r, 3);
        let run = |ops: &[FOp]| {
            let mut t = Rec::new(v1(&dom));
            apply_ops(&mut t, ops);
            (t.extract_raw_challenge(), t.bytes())
        };
        let res = catch(|| (run(&a), run(&a), run(&b)));
        sh.evaluations += 1;
        sh.hit(&format!("framing.v1.{}", kind));
        match res {
            Ok(((ca, ra), (ca2, _), (cb, rb))) => {
                let collide = ca == cb || (planted("c07.framing") && kind == "label_split");
                if ca != ca2 {
                    violate(sh, idx, "transcript-nondeterministic", format!("c07:framing:nondet:{:016x}", fnv(&ra)), "TranscriptProtocolV1 gave two different challenges for the same operation sequence".into(), json!({"ops": format!("{:?}", a)}));
                } else if ra != rb && collide {
                    violate(
                        sh,
                        idx,
                        "framing-collision",
                        format!("c07:framing:{}:{:016x}:{:016x}", kind, fnv(&ra), fnv(&rb)),
                        format!("TranscriptProtocolV1: two different operation sequences ({}) give the same challenge", kind),
                        json!({"domain_hex": hex(&dom), "ops_a": format!("{:?}", a), "ops_b": format!("{:?}", b)}),
                    );
                }
            }
            Err(e) => sh.inconclusive.push(format!("framing: transcript panicked: {}", e)),
        }
    }
    sh.nontrivial(fnv(format!("framing:{}:{}", idx, r.0.next()).as_bytes()));
}

// ---------------------------------------------------------------- dispatch

pub fn run(ctx: &ChildCtx, sh: &mut Shard) {
    for idx in ctx.indices() {
        ctx.begin_case(idx);
        let mut r = CRng(ctx.case_rng(idx));
        let r = &mut r;
        match idx % 16 {
            0 => drive::<DlogI>(ctx, sh, idx, r),
            1 => drive::<ComEqI>(ctx, sh, idx, r),
            2 => drive::<ComEqDiffI>(ctx, sh, idx, r),
            3 => drive::<ComEqSigI>(ctx, sh, idx, r),
            4 => {
                drive::<ComEncEqI>(ctx, sh, idx, r);
                forge_com_enc_eq(sh, idx, r);
            }
            5 => com_lin_case(ctx, sh, idx, r),
            6 => drive::<ComMultI>(ctx, sh, idx, r),
            7 => {
                for _ in 0..3 {
                    com_ineq_case(ctx, sh, idx, r);
                }
            }
            8 => drive::<AggDlogI>(ctx, sh, idx, r),
            9 => drive::<VecComEqI>(ctx, sh, idx, r),
            10 => drive::<PsSigKnownI>(ctx, sh, idx, r),
            11 => drive::<EncTransI>(ctx, sh, idx, r),
            12 => drive::<AndI<DlogI, ComMultI>>(ctx, sh, idx, r),
            13 => drive::<AndI<AndI<ComEqI, AggDlogI>, ComEqSigI>>(ctx, sh, idx, r),
            14 => {
                if (idx / 16) % 2 == 0 {
                    drive::<RepI<ComEqI>>(ctx, sh, idx, r)
                } else {
                    drive::<RepI<DlogI>>(ctx, sh, idx, r)
                }
            }
            _ => framing_case(sh, idx, r),
        }
    }
}

fn inst_floors<I: Inst>(out: &mut Vec<(String, u64)>, s: u64, per_slot: u64) {
    let n = I::name();
    out.push((format!("complete.{}", n), per_slot * s));
    for f in I::fields() {
        out.push((format!("perturb.{}.{}", n, f), 8 * s));
        out.push((format!("transcript.{}.{}", n, f), 8 * s));
    }
    for k in ["context.domain", "context.extra_message", "context.kind", "challenge", "response"] {
        // a size-0 / all-public instance has no response scalar beyond the first; every protocol has at least one
        out.push((format!("perturb.{}.{}", n, k), 8 * s));
    }
    let sizes = I::sizes();
    if sizes.len() > 1 {
        for z in sizes {
            out.push((format!("size.{}.{}", n, z), s));
        }
    }
    for sub in I::subs() {
        out.push((format!("sub.{}.{}", n, sub), 3 * s));
    }
}

/// coverage floors; `s` = 1 for quick, 10 for thorough
pub fn floors(s: u64) -> Vec<(String, u64)> {
    let mut v = vec![];
    inst_floors::<DlogI>(&mut v, s, 20);
    inst_floors::<ComEqI>(&mut v, s, 20);
    inst_floors::<ComEqDiffI>(&mut v, s, 20);
    inst_floors::<ComEqSigI>(&mut v, s, 20);
    inst_floors::<ComEncEqI>(&mut v, s, 20);
    inst_floors::<ComMultI>(&mut v, s, 20);
    inst_floors::<AggDlogI>(&mut v, s, 20);
    inst_floors::<VecComEqI>(&mut v, s, 20);
    inst_floors::<PsSigKnownI>(&mut v, s, 20);
    inst_floors::<EncTransI>(&mut v, s, 20);
    inst_floors::<AndI<DlogI, ComMultI>>(&mut v, s, 20);
    inst_floors::<AndI<AndI<ComEqI, AggDlogI>, ComEqSigI>>(&mut v, s, 20);
    inst_floors::<RepI<ComEqI>>(&mut v, s, 10);
    inst_floors::<RepI<DlogI>>(&mut v, s, 10);
    v.push(("complete.com_lin".into(), 20 * s));
    for f in ["us", "cmms", "cmm", "cmm_key", "context.domain", "challenge", "response"] {
        v.push((format!("perturb.com_lin.{}", f), 8 * s));
    }
    for f in ["us", "cmms", "cmm", "cmm_key"] {
        v.push((format!("transcript.com_lin.{}", f), 8 * s));
    }
    v.push(("complete.com_ineq".into(), 40 * s));
    for f in ["com_key.g", "com_key.h", "commitment", "pub_value", "pub_value=value", "challenge", "response", "aux_com", "false_statement"] {
        v.push((format!("perturb.com_ineq.{}", f), 10 * s));
    }
    for k in ["label", "content", "label_split", "label_message_split", "collection_split", "each_split", "message_split"] {
        v.push((format!("framing.v1.{}", k), 100 * s));
    }
    for (n, k) in [("aggregate_dlog", 20), ("com_eq_sig", 20), ("ps_sig_known", 20), ("vcom_eq", 20), ("enc_trans", 20), ("com_lin", 20), ("and(and(com_eq,aggregate_dlog),com_eq_sig)", 20), ("replicate(com_eq)", 15), ("replicate(dlog)", 15)] {
        for c in ["appended", "removed", "duplicated"] {
            v.push((format!("shape.{}.{}", n, c), k * s));
        }
        v.push((format!("perturb.{}.response.shape", n), 3 * k * s));
    }
    v.push(("shape.vcom_eq.rekeyed".into(), 20 * s));
    v.push(("cheat.com_enc_eq.adaptive_generator".into(), 20 * s));
    v.push(("context.state_agrees".into(), 200 * s));
    v.push(("reject.expected".into(), 5000 * s));
    v
}
