//! C08: identity credentials - issuance verifies, tampering fails, anonymity
//! is revocable by every threshold subset.
//!
//! D (deliberately not demanded):
//! * `generate_pio` (v0), `create_credential` and `sign_identity_object` draw
//!   their proof randomness from `thread_rng()` inside the library; only the
//!   configuration (keys, ARs, threshold, attributes, policy, counter) is
//!   derived from the case PRNG. A replay regenerates the same configuration
//!   with fresh proof randomness; the witness (CDI bytes) is stored in the
//!   violation record.
//! * Nothing about zero-knowledge or timing.
//! * Perturbations of the pre-identity object sent to the identity provider
//!   (the property demands rejection by the chain).
//! * A verifier panic on a perturbed-but-well-typed credential is counted as a
//!   rejection and recorded under `note.verifier_panic.*` (no totality claim in
//!   the property).
//! * PRF-key revocation needs 8 baby-step-giant-step discrete logarithms per
//!   revoker (32-bit chunks, table 2^16); it is run on a fraction of the
//!   pipelines with n <= 3.
use crate::{c11::proof_perturbations, common::*};
use concordium_base::{
    bulletproofs::range_proof::RangeProof,
    common::{
        to_bytes,
        types::{KeyIndex, KeyPair, TransactionTime},
    },
    curve_arithmetic::Curve,
    elgamal::{decrypt_from_chunks_given_table, BabyStepGiantStep, Message},
    id::{
        account_holder::{create_credential, generate_pio, generate_pio_v1_with_rng},
        anonymity_revoker::{reveal_id_cred_pub, reveal_prf_key},
        chain::{verify_cdi, verify_initial_cdi},
        constants::{ArCurve, AttributeKind, IpPairing},
        identity_provider::{validate_request, validate_request_v1, verify_credentials, verify_credentials_v1},
        secret_sharing::Threshold,
        test::{test_create_ars, test_create_id_use_data, test_create_ip_info, ExampleAttributeList},
        types::*,
    },
    pedersen_commitment::Value as PValue,
    sigma_protocols::{com_enc_eq, com_eq_sig, com_mult},
};
use either::Either;
use std::{collections::BTreeMap, sync::OnceLock};
use vmon_core::{catch, fnv, json, ChildCtx, Shard, Value};

type G1 = ArCurve;
type Fr = <G1 as Curve>::Scalar;
type Cdi = CredentialDeploymentInfo<IpPairing, ArCurve, AttributeKind>;

fn global() -> &'static GlobalContext<ArCurve> {
    static G: OnceLock<GlobalContext<ArCurve>> = OnceLock::new();
    G.get_or_init(|| GlobalContext::generate(String::from("vmon_genesis_string")))
}
fn other_global() -> &'static GlobalContext<ArCurve> {
    static G: OnceLock<GlobalContext<ArCurve>> = OnceLock::new();
    G.get_or_init(|| GlobalContext::generate(String::from("another_genesis_string")))
}
fn bsgs() -> &'static BabyStepGiantStep<ArCurve> {
    static T: OnceLock<BabyStepGiantStep<ArCurve>> = OnceLock::new();
    T.get_or_init(|| BabyStepGiantStep::new(global().encryption_in_exponent_generator(), 1 << 16))
}

fn attr_value(r: &mut CRng) -> AttributeKind {
    let len = match r.0.below(5) {
        0 => 0,
        1 => 31,
        2 => 1,
        _ => r.0.below(32) as usize,
    };
    let s: String = (0..len).map(|_| *r.0.pick(&['0', '1', '9', 'A', 'Z', 'a', 'z', ' ', '-'])).collect();
    AttributeKind::try_new(s).expect("<= 31 bytes")
}

fn keys(r: &mut CRng) -> (BTreeMap<KeyIndex, KeyPair>, SignatureThreshold) {
    let n = 1 + r.0.below(3) as u8;
    let mut m = BTreeMap::new();
    // key indices: contiguous from 0 in a third of the cases, otherwise sparse (e.g. {0, 3, 200})
    let sparse = !r.0.chance(1, 3);
    while m.len() < n as usize {
        let idx = if sparse { *r.0.pick(&[0u8, 1, 3, 7, 100, 200, 254, 255]) } else { m.len() as u8 };
        m.entry(KeyIndex(idx)).or_insert_with(|| KeyPair::generate(r));
    }
    let t = 1 + r.0.below(n as u64) as u8;
    (m, SignatureThreshold::try_from(t).expect("non-zero"))
}

fn bump<C: Curve>(p: &mut C) { *p = p.plus_point(&C::one_point()); }

/// re-serialize a value with the scalar at `off` incremented
fn bump_scalar_in<T: concordium_base::common::Serial + concordium_base::common::Deserial>(x: &T, off: usize) -> Option<T> {
    let mut b = to_bytes(x);
    if !bump_scalar::<G1>(&mut b, off) {
        return None;
    }
    deser::<T>(&b)
}


pub fn run(ctx: &ChildCtx, sh: &mut Shard) {
    for idx in ctx.indices() {
        ctx.begin_case(idx);
        let mut r = CRng(ctx.case_rng(idx));
        pipeline(ctx, sh, idx, &mut r);
        if idx % 4 == 1 {
            minimal_ps_key_probe(ctx, sh, idx, &mut r);
        }
    }
}

fn pipeline(ctx: &ChildCtx, sh: &mut Shard, idx: u64, r: &mut CRng) {
    // ---- configuration
    let combos: Vec<(u8, u8)> = (1..=6u8).flat_map(|n| (1..=n).map(move |t| (n, t))).collect();
    let k = idx + ctx.shard as u64 * 4;
    let (n, t) = combos[(k % combos.len() as u64) as usize];
    let v1 = (idx + ctx.shard as u64 / 2) % 2 == 1;
    let n_attrs = [0usize, 1, 3, 13][((idx / 2 + ctx.shard as u64) % 4) as usize];
    let reveal = ["none", "one", "all"][((idx + ctx.shard as u64 / 4) % 3) as usize];
    let max_accounts: u8 = match (idx / 3 + ctx.shard as u64) % 3 {
        0 => 4,
        1 => 255,
        _ => 1 + r.0.below(254) as u8,
    };
    let counter: u8 = match (idx + ctx.shard as u64) % 4 {
        0 => 0,
        1 => 1.min(max_accounts),
        2 => max_accounts - 1,
        _ => max_accounts,
    };
    let existing = r.0.chance(1, 2);
    let ar_prefix = (idx + ctx.shard as u64 / 2) % 3 == 0;
    let cfg_json = json!({"ars": n, "threshold": t, "identity_object_version": if v1 {1} else {0}, "attributes": n_attrs, "revealed": reveal, "max_accounts": max_accounts, "counter": counter, "existing_account": existing});
    let cfg_sig = format!("n{}:t{}:v{}:a{}:{}:max{}:c{}:{}", n, t, v1 as u8, n_attrs, reveal, max_accounts, counter, if existing { "existing" } else { "new" });
    sh.hit(&format!("cfg.ars.{}", n));
    sh.hit(&format!("cfg.threshold.{}", t));
    sh.hit(if v1 { "cfg.pio.v1" } else { "cfg.pio.v0" });
    sh.hit(&format!("cfg.attrs.{}", n_attrs));
    sh.hit(&format!("cfg.reveal.{}", reveal));
    sh.hit(if existing { "cfg.account.existing" } else { "cfg.account.new" });
    sh.hit(match (counter, max_accounts) {
        (0, _) => "cfg.counter.0",
        (c, m) if c == m => "cfg.counter.max",
        (c, m) if c + 1 == m => "cfg.counter.max-1",
        _ => "cfg.counter.1",
    });
    sh.hit(match max_accounts {
        4 => "cfg.max_accounts.4",
        255 => "cfg.max_accounts.255",
        _ => "cfg.max_accounts.other",
    });

    // ---- fixtures (harness trouble here is inconclusive, never a violation)
    let setup = catch(|| {
        // PS key one to three slots longer than the minimum the identity provider itself
        // demands (n_attrs + encoded ARs + 5); the exact minimum is probed separately
        let slack = 1 + r.0.below(3) as u8;
        let ip = test_create_ip_info(r, n, n_attrs as u8 + slack);
        // the chain / identity provider know more revokers than the holder chooses; the chosen
        // identities are a prefix 1..=n in a third of the cases and a sparse, non-prefix set otherwise
        let mut chosen: Vec<u32> = vec![];
        if ar_prefix {
            chosen = (1..=n as u32).collect();
        } else {
            while chosen.len() < n as usize {
                let id = 2 + r.0.below(11) as u32;
                if !chosen.contains(&id) {
                    chosen.push(id);
                }
            }
            chosen.sort();
        }
        let mut all = chosen.clone();
        for _ in 0..r.0.below(3) {
            let id = 1 + r.0.below(14) as u32;
            if !all.contains(&id) {
                all.push(id);
            }
        }
        let base = global().on_chain_commitment_key.g;
        let mut ars_infos = BTreeMap::new();
        let mut ars_secret = BTreeMap::new();
        for id in all {
            let ar_id = ArIdentity::new(id);
            let sk = concordium_base::elgamal::SecretKey::generate(&base, r);
            ars_infos.insert(ar_id, ArInfo::<ArCurve> { ar_identity: ar_id, ar_description: Description { name: format!("AR{}", id), url: String::new(), description: String::new() }, ar_public_key: concordium_base::elgamal::PublicKey::from(&sk) });
            ars_secret.insert(ar_id, sk);
        }
        let chosen_ids: Vec<ArIdentity> = chosen.into_iter().map(ArIdentity::new).collect();
        let id_use = test_create_id_use_data(r);
        (ip, ars_infos, ars_secret, id_use, chosen_ids)
    });
    let (ip, ars_infos, ars_secret, id_use, chosen_ids) = match setup {
        Ok(x) => x,
        Err(e) => {
            sh.inconclusive.push(format!("fixture creation panicked: {}", e));
            return;
        }
    };
    let IpData { public_ip_info: ip_info, ip_secret_key, ip_cdi_secret_key } = ip;
    let g = global();
    // `context`: what the identity provider and the chain know (all revokers);
    // `context_holder`: the revokers the holder chooses
    let context = IpContext::new(&ip_info, &ars_infos, g);
    let ars_chosen: BTreeMap<ArIdentity, ArInfo<ArCurve>> = chosen_ids.iter().map(|i| (*i, ars_infos[i].clone())).collect();
    let context_holder = IpContext::new(&ip_info, &ars_chosen, g);
    sh.hit(if ar_prefix { "cfg.ar_choice.prefix" } else { "cfg.ar_choice.sparse" });
    if ars_infos.len() > ars_chosen.len() {
        sh.hit("cfg.ar_choice.proper_subset_of_known");
    }
    if !ar_prefix && t >= 2 {
        sh.hit("cfg.ar_choice.sparse_threshold_ge_2");
    }
    let threshold = Threshold::try_new(t).expect("t >= 1");
    // attribute list
    let mut tags: Vec<u8> = vec![];
    while tags.len() < n_attrs {
        let tg = if r.0.chance(1, 8) { r.0.below(200) as u8 } else { r.0.below(18) as u8 };
        if !tags.contains(&tg) {
            tags.push(tg);
        }
    }
    let mut alist_map = BTreeMap::new();
    for tg in &tags {
        alist_map.insert(AttributeTag(*tg), attr_value(r));
    }
    let valid_to = YearMonth::new(2000 + r.0.below(100) as u16, 1 + r.0.below(12) as u8).expect("valid");
    let created_at = YearMonth::new(1990 + r.0.below(30) as u16, 1 + r.0.below(12) as u8).expect("valid");
    let alist = ExampleAttributeList { valid_to, created_at, max_accounts, alist: alist_map.clone(), _phantom: Default::default() };
    let expiry = TransactionTime { seconds: 1_000_000 + r.0.below(1 << 40) };

    let fail = |sh: &mut Shard, stage: &str, detail: String| {
        sh.violate(idx, "honest-rejected", format!("c08:honest:{}:{}", stage, cfg_sig), format!("{}: {}", stage, detail), cfg_json.clone());
    };

    // ---- identity issuance
    sh.evaluations += 1;
    let (sig, pio_common_ar_data): (concordium_base::ps_sig::Signature<IpPairing>, BTreeMap<ArIdentity, IpArData<ArCurve>>);
    enum IdObj {
        V0(IdentityObject<IpPairing, ArCurve, AttributeKind>),
        V1(IdentityObjectV1<IpPairing, ArCurve, AttributeKind>),
    }
    let id_obj: IdObj;
    if !v1 {
        let (ik, ith) = keys(r);
        let acc = InitialAccountData { keys: ik, threshold: ith };
        let pio = match catch(|| generate_pio(&context_holder, threshold, &id_use, &acc)) {
            Ok(Some((p, _))) => p,
            other => {
                fail(sh, "generate_pio", format!("{:?}", other.map(|o| o.is_some())));
                return;
            }
        };
        sh.hit("accept.generate_pio");
        match catch(|| validate_request(&pio, context)) {
            Ok(Ok(())) => {
                sh.hit("accept.validate_request");
                // index structure of the identity request: signatures / keys / AR data re-keyed in place
                let mut reqs: Vec<(&str, PreIdentityObject<IpPairing, ArCurve>)> = vec![];
                if !pio.poks.proof_acc_sk.sigs.keys().any(|k| k.0 == 255) {
                    let mut p2 = pio.clone();
                    let sigs = std::mem::take(&mut p2.poks.proof_acc_sk.sigs);
                    p2.poks.proof_acc_sk.sigs = sigs.into_iter().map(|(k, v)| (KeyIndex(k.0 + 1), v)).collect();
                    reqs.push(("pio.proof_acc_sk.shifted", p2));
                }
                if (idx + ctx.shard as u64) % 2 == 0 {
                    let mut p2 = pio.clone();
                    let m = std::mem::take(&mut p2.ip_ar_data);
                    p2.ip_ar_data = m.into_iter().map(|(k, v)| (ArIdentity::new(u32::from(k) + 1), v)).collect();
                    reqs.push(("pio.ip_ar_data.shifted", p2));
                } else if !pio.pub_info_for_ip.vk_acc.keys.keys().any(|k| k.0 == 255) {
                    let mut p2 = pio.clone();
                    let m = std::mem::take(&mut p2.pub_info_for_ip.vk_acc.keys);
                    p2.pub_info_for_ip.vk_acc.keys = m.into_iter().map(|(k, v)| (KeyIndex(k.0 + 1), v)).collect();
                    reqs.push(("pio.vk_acc.keys.shifted", p2));
                }
                for (what, p2) in reqs {
                    sh.evaluations += 1;
                    sh.hit("reject.expected");
                    sh.hit(&format!("perturb.{}", what));
                    if let Ok(Ok(())) = catch(|| validate_request(&p2, context)) {
                        sh.violate(idx, "accepted-altered", format!("c08:accepted:{}:{}", what, cfg_sig), format!("validate_request accepted an identity request whose '{}'", what), cfg_json.clone());
                    }
                }
            }
            other => {
                fail(sh, "validate_request", format!("{:?}", other));
                return;
            }
        }
        sh.evaluations += 1;
        let (s, icdi) = match catch(|| verify_credentials(&pio, context, &alist, expiry, &ip_secret_key, &ip_cdi_secret_key)) {
            Ok(Ok(x)) => x,
            other => {
                fail(sh, "verify_credentials", format!("{:?}", other.map(|o| o.map(|_| ()))));
                return;
            }
        };
        sh.hit("accept.verify_credentials");
        sh.evaluations += 1;
        match catch(|| verify_initial_cdi(&ip_info, &icdi, expiry)) {
            Ok(Ok(())) => sh.hit("accept.verify_initial_cdi"),
            other => {
                fail(sh, "verify_initial_cdi", format!("{:?}", other));
                return;
            }
        }
        // initial CDI: other expiry / other IP key must be rejected
        sh.evaluations += 1;
        sh.hit("reject.expected");
        sh.hit("perturb.initial_cdi.expiry");
        if let Ok(Ok(())) = catch(|| verify_initial_cdi(&ip_info, &icdi, TransactionTime { seconds: expiry.seconds + 1 })) {
            sh.violate(idx, "accepted-altered", format!("c08:initial_cdi:expiry:{}", cfg_sig), "verify_initial_cdi accepted a different expiry".into(), cfg_json.clone());
        }
        sig = s;
        pio_common_ar_data = pio.ip_ar_data.clone();
        id_obj = IdObj::V0(IdentityObject { pre_identity_object: pio, alist: alist.clone(), signature: sig.clone() });
    } else {
        let pio = match catch(|| generate_pio_v1_with_rng(&context_holder, threshold, &id_use, r)) {
            Ok(Some((p, _))) => p,
            other => {
                fail(sh, "generate_pio_v1", format!("{:?}", other.map(|o| o.is_some())));
                return;
            }
        };
        sh.hit("accept.generate_pio_v1");
        match catch(|| validate_request_v1(&pio, context)) {
            Ok(Ok(())) => {
                sh.hit("accept.validate_request_v1");
                if (idx + ctx.shard as u64) % 2 == 0 {
                    let mut p2 = pio.clone();
                    let m = std::mem::take(&mut p2.ip_ar_data);
                    p2.ip_ar_data = m.into_iter().map(|(k, v)| (ArIdentity::new(u32::from(k) + 1), v)).collect();
                    sh.evaluations += 1;
                    sh.hit("reject.expected");
                    sh.hit("perturb.pio_v1.ip_ar_data.shifted");
                    if let Ok(Ok(())) = catch(|| validate_request_v1(&p2, context)) {
                        sh.violate(idx, "accepted-altered", format!("c08:accepted:pio_v1.ip_ar_data.shifted:{}", cfg_sig), "validate_request_v1 accepted an identity request whose AR data map was re-keyed".into(), cfg_json.clone());
                    }
                }
            }
            other => {
                fail(sh, "validate_request_v1", format!("{:?}", other));
                return;
            }
        }
        sh.evaluations += 1;
        let s = match catch(|| verify_credentials_v1(&pio, context, &alist, &ip_secret_key)) {
            Ok(Ok(x)) => x,
            other => {
                fail(sh, "verify_credentials_v1", format!("{:?}", other.map(|o| o.map(|_| ()))));
                return;
            }
        };
        sh.hit("accept.verify_credentials_v1");
        sig = s;
        pio_common_ar_data = pio.ip_ar_data.clone();
        id_obj = IdObj::V1(IdentityObjectV1 { pre_identity_object: pio, alist: alist.clone(), signature: sig.clone() });
    }

    // ---- credential
    let revealed: BTreeMap<AttributeTag, AttributeKind> = match reveal {
        "none" => BTreeMap::new(),
        "one" => alist_map.iter().take(1).map(|(k, v)| (*k, v.clone())).collect(),
        _ => alist_map.clone(),
    };
    let policy = Policy { valid_to, created_at, policy_vec: revealed.clone(), _phantom: Default::default() };
    let (ck, cth) = keys(r);
    sh.hit(if ck.keys().enumerate().all(|(i, k)| k.0 as usize == i) { "cfg.keys.contiguous" } else { "cfg.keys.sparse" });
    let cred_data = CredentialData { keys: ck, threshold: cth };
    let addr = AccountAddress({
        let mut a = [0u8; 32];
        r.0.fill(&mut a);
        a
    });
    let noe: Either<TransactionTime, AccountAddress> = if existing { Either::Right(addr) } else { Either::Left(expiry) };
    let mk_cdi = |counter: u8| {
        catch(|| match &id_obj {
            IdObj::V0(o) => create_credential(context, o, &id_use, counter, policy.clone(), &cred_data, &SystemAttributeRandomness {}, &noe),
            IdObj::V1(o) => create_credential(context, o, &id_use, counter, policy.clone(), &cred_data, &SystemAttributeRandomness {}, &noe),
        })
    };
    sh.evaluations += 1;
    let cdi: Cdi = match mk_cdi(counter) {
        Ok(Ok((c, _))) => c,
        Ok(Err(e)) => {
            fail(sh, "create_credential", format!("{}", e));
            return;
        }
        Err(e) => {
            fail(sh, "create_credential", format!("panic: {}", e));
            return;
        }
    };
    sh.hit("accept.create_credential");
    let cdi_bytes = to_bytes(&cdi);
    let wit = |extra: Value| {
        let mut c = cfg_json.clone();
        c["cdi_hex"] = json!(hex(&cdi_bytes));
        c["detail"] = extra;
        c
    };
    sh.evaluations += 1;
    let honest = catch(|| verify_cdi(g, &ip_info, &ars_infos, &cdi, &noe));
    let honest_ok = matches!(honest, Ok(Ok(()))) && !planted("c08.accept");
    if !honest_ok {
        sh.violate(idx, "honest-rejected", format!("c08:honest:verify_cdi:{}", cfg_sig), format!("verify_cdi rejected an honestly created credential: {:?}", honest), wit(json!(null)));
        return;
    }
    sh.hit("accept.verify_cdi");
    // round trip through the wire format
    match deser::<Cdi>(&cdi_bytes) {
        Some(c2) => {
            sh.evaluations += 1;
            sh.hit("accept.verify_cdi.after_roundtrip");
            let res = catch(|| verify_cdi(g, &ip_info, &ars_infos, &c2, &noe));
            if !matches!(res, Ok(Ok(()))) {
                sh.violate(idx, "honest-rejected", format!("c08:honest:roundtrip:{}", cfg_sig), format!("verify_cdi rejected the credential after serialize/deserialize: {:?}", res), wit(json!(null)));
            }
        }
        None => sh.violate(idx, "honest-rejected", format!("c08:honest:deserialize:{}", cfg_sig), "an honestly created credential does not deserialize".into(), wit(json!(null))),
    }

    // ---- anonymity revocation: every subset of >= t revokers
    {
        let expected = g.on_chain_commitment_key.g.mul_by_scalar(&id_use.aci.cred_holder_info.id_cred.id_cred_sec);
        let ids: Vec<ArIdentity> = chosen_ids.clone();
        let shares: Vec<(ArIdentity, G1)> = ids
            .iter()
            .filter_map(|id| {
                let d = cdi.values.ar_data.get(id)?;
                Some((*id, ars_secret[id].decrypt(&d.enc_id_cred_pub_share).value))
            })
            .collect();
        if shares.len() != n as usize {
            sh.violate(idx, "ar-data-missing", format!("c08:ar:missing:{}", cfg_sig), "credential lacks AR data for a chosen revoker".into(), wit(json!(null)));
        } else {
            let mut below_done = 0;
            for mask in 1u32..(1 << n) {
                let size = mask.count_ones() as u8;
                let sub: Vec<(ArIdentity, Message<G1>)> = (0..n as usize).filter(|i| mask & (1 << i) != 0).map(|i| (shares[i].0, Message { value: shares[i].1 })).collect();
                if size >= t {
                    sh.evaluations += 1;
                    sh.hit("revoke.id_cred_pub.subset");
                    sh.hit(if size == t { "revoke.id_cred_pub.size_t" } else { "revoke.id_cred_pub.size_gt_t" });
                    let got = catch(|| reveal_id_cred_pub(&sub));
                    let ok = matches!(&got, Ok(p) if *p == expected) && !(planted("c08.reveal") && size == t);
                    if !ok {
                        sh.violate(idx, "revocation-wrong", format!("c08:revoke:idcredpub:{}:mask{:b}", cfg_sig, mask), format!("revokers {:?} (>= threshold {}) do not reconstruct g^idCredSec", sub.iter().map(|s| s.0).collect::<Vec<_>>(), t), wit(json!({"mask": mask})));
                    }
                } else if size + 1 == t && below_done < 3 {
                    below_done += 1;
                    sh.evaluations += 1;
                    sh.hit("revoke.id_cred_pub.below_threshold");
                    if let Ok(p) = catch(|| reveal_id_cred_pub(&sub)) {
                        if p == expected {
                            sh.violate(idx, "revocation-below-threshold", format!("c08:revoke:below:{}:mask{:b}", cfg_sig, mask), format!("{} revokers (threshold {}) reconstruct g^idCredSec", size, t), wit(json!({"mask": mask})));
                        }
                    }
                }
            }
        }
        // PRF key shares from the pre-identity object
        if n <= 3 && (idx + ctx.shard as u64) % 2 == 0 {
            let prf_expected: Fr = *id_use.aci.prf_key;
            let dec = catch(|| ids.iter().filter_map(|id| pio_common_ar_data.get(id).map(|d| (*id, decrypt_from_chunks_given_table(&ars_secret[id], &d.enc_prf_key_share, bsgs(), CHUNK_SIZE)))).collect::<Vec<(ArIdentity, PValue<G1>)>>());
            match dec {
                Ok(ps) if ps.len() == n as usize => {
                    for mask in 1u32..(1 << n) {
                        let size = mask.count_ones() as u8;
                        let sub: Vec<(ArIdentity, PValue<G1>)> = (0..n as usize).filter(|i| mask & (1 << i) != 0).map(|i| ps[i].clone()).collect();
                        if size >= t {
                            sh.evaluations += 1;
                            sh.hit("revoke.prf_key.subset");
                            let got = catch(|| reveal_prf_key(&sub));
                            if !matches!(&got, Ok(k) if *k == prf_expected) {
                                sh.violate(idx, "revocation-wrong", format!("c08:revoke:prf:{}:mask{:b}", cfg_sig, mask), format!("revokers mask {:b} (>= threshold {}) do not reconstruct the PRF key", mask, t), wit(json!({"mask": mask})));
                            }
                        } else if size + 1 == t {
                            sh.evaluations += 1;
                            sh.hit("revoke.prf_key.below_threshold");
                            if let Ok(k) = catch(|| reveal_prf_key(&sub)) {
                                if k == prf_expected {
                                    sh.violate(idx, "revocation-below-threshold", format!("c08:revoke:prf-below:{}:mask{:b}", cfg_sig, mask), "fewer than threshold revokers reconstruct the PRF key".into(), wit(json!({"mask": mask})));
                                }
                            }
                        }
                    }
                }
                Ok(_) => sh.inconclusive.push("PRF share decryption: missing AR data in the pre-identity object".into()),
                Err(e) => sh.inconclusive.push(format!("PRF share decryption panicked (harness-side BSGS): {}", e)),
            }
        }
    }

    // ---- rejection of every single-field perturbation
    let rej = |sh: &mut Shard, what: &str, sub: &str, c2: &Cdi, ip: &IpInfo<IpPairing>, ars: &BTreeMap<ArIdentity, ArInfo<ArCurve>>, gc: &GlobalContext<ArCurve>, noe2: &Either<TransactionTime, AccountAddress>| {
        sh.evaluations += 1;
        sh.hit("reject.expected");
        sh.hit(&format!("perturb.cdi.{}", what));
        let res = catch(|| verify_cdi(gc, ip, ars, c2, noe2));
        let accepted = match res {
            Ok(Ok(())) => true,
            Ok(Err(e)) => {
                sh.hit(&format!("reject.reason.{:?}", e));
                false
            }
            Err(p) => {
                sh.hit(&format!("note.verifier_panic.cdi.{}", what));
                if ctx.replaying() {
                    println!("verify_cdi panicked on {}: {}", sub, p);
                }
                false
            }
        };
        let accepted = accepted || (planted("c08.reject") && what == "values.cred_id");
        if accepted {
            sh.violate(idx, "accepted-altered", format!("c08:accepted:{}:{}", sub, cfg_sig), format!("verify_cdi accepted a credential whose '{}' was altered", sub), wit(json!({"altered": sub, "altered_cdi_hex": hex(&to_bytes(c2))})));
        }
    };
    macro_rules! with_cdi {
        ($what:expr, $sub:expr, |$c:ident| $body:block) => {{
            let mut $c = cdi.clone();
            let applied: bool = $body;
            if applied {
                rej(sh, $what, $sub, &$c, &ip_info, &ars_infos, g, &noe);
                // The account-ownership signature covers every value and proof, so an altered
                // credential is rejected by it even where the check that is responsible for the
                // altered field has gone missing. The holder can always sign again: the altered
                // credential must still be rejected when it carries fresh, valid signatures.
                // (not for alterations of the signatures themselves: signing again would undo them)
                let what_s: &str = $what;
                let unsigned = UnsignedCredentialDeploymentInfo { values: $c.values.clone(), proofs: $c.proofs.id_proofs.clone() };
                if what_s.contains("proof_acc_sk") {
                } else if let Ok(sigs) = catch(|| cred_data.sign(&noe, &unsigned)) {
                    $c.proofs.proof_acc_sk = AccountOwnershipProof { sigs };
                    rej(sh, &format!("{}.resigned", $what), &format!("{} (account signatures renewed)", $sub), &$c, &ip_info, &ars_infos, g, &noe);
                }
            }
        }};
    }
    // values
    with_cdi!("values.cred_id", "values.cred_id", |c| {
        bump(&mut c.values.cred_id);
        true
    });
    with_cdi!("values.ip_identity", "values.ip_identity", |c| {
        c.values.ip_identity = IpIdentity(c.values.ip_identity.0.wrapping_add(1));
        true
    });
    for (what, nt) in [("values.threshold+1", t as u16 + 1), ("values.threshold-1", t as u16 - 1)] {
        if (1..=255).contains(&nt) {
            with_cdi!("values.threshold", what, |c| {
                c.values.threshold = Threshold::try_new(nt as u8).unwrap();
                true
            });
        }
    }
    for id in chosen_ids.iter() {
        for half in 0..2 {
            with_cdi!("values.ar_data", &format!("values.ar_data[{}].{}", id, half), |c| {
                let e = c.values.ar_data.get_mut(id).unwrap();
                if half == 0 {
                    bump(&mut e.enc_id_cred_pub_share.0)
                } else {
                    bump(&mut e.enc_id_cred_pub_share.1)
                }
                true
            });
        }
    }
    if n >= 2 {
        with_cdi!("values.ar_data.swap", "values.ar_data.swap(1,2)", |c| {
            let a = c.values.ar_data[&chosen_ids[0]].clone();
            let b = c.values.ar_data[&chosen_ids[1]].clone();
            c.values.ar_data.insert(chosen_ids[0], b);
            c.values.ar_data.insert(chosen_ids[1], a);
            true
        });
        with_cdi!("values.ar_data.remove", "values.ar_data.remove(last)", |c| {
            c.values.ar_data.remove(&chosen_ids[n as usize - 1]);
            true
        });
    }
    with_cdi!("values.policy.valid_to", "values.policy.valid_to", |c| {
        c.values.policy.valid_to = YearMonth::new(valid_to.year + 1, valid_to.month).unwrap();
        true
    });
    with_cdi!("values.policy.created_at", "values.policy.created_at", |c| {
        c.values.policy.created_at = YearMonth::new(created_at.year, if created_at.month == 12 { 1 } else { created_at.month + 1 }).unwrap();
        true
    });
    if let Some((tg, v)) = revealed.iter().next() {
        with_cdi!("values.policy.revealed_value", &format!("values.policy.revealed[{}]", tg.0), |c| {
            let mut s: String = v.as_ref().to_string();
            if s.len() < 31 {
                s.push('x');
            } else {
                s.pop();
            }
            c.values.policy.policy_vec.insert(*tg, AttributeKind::try_new(s).unwrap());
            true
        });
        with_cdi!("values.policy.revealed_removed", &format!("values.policy.remove[{}]", tg.0), |c| {
            c.values.policy.policy_vec.remove(tg);
            true
        });
    }
    if let Some((tg, _)) = alist_map.iter().find(|(k, _)| !revealed.contains_key(*k)) {
        with_cdi!("values.policy.revealed_added", &format!("values.policy.add[{}]", tg.0), |c| {
            c.values.policy.policy_vec.insert(*tg, alist_map[tg].clone());
            true
        });
    }
    with_cdi!("values.cred_key_info.key", "values.cred_key_info.key_replaced", |c| {
        let k = *c.values.cred_key_info.keys.keys().next().unwrap();
        c.values.cred_key_info.keys.insert(k, VerifyKey::from(&KeyPair::generate(r)));
        true
    });
    with_cdi!("values.cred_key_info.threshold", "values.cred_key_info.threshold", |c| {
        let cur: u8 = c.values.cred_key_info.threshold.into();
        let nk = c.values.cred_key_info.keys.len() as u8;
        let alt = if cur < nk { cur + 1 } else if cur > 1 { cur - 1 } else { 0 };
        if alt == 0 {
            false
        } else {
            c.values.cred_key_info.threshold = SignatureThreshold::try_from(alt).unwrap();
            true
        }
    });
    // proofs: signature and commitments
    for half in 0..2 {
        with_cdi!("proofs.sig", &format!("proofs.sig.{}", half), |c| {
            if half == 0 {
                bump(&mut c.proofs.id_proofs.sig.sig.0)
            } else {
                bump(&mut c.proofs.id_proofs.sig.sig.1)
            }
            true
        });
    }
    with_cdi!("proofs.commitments.cmm_prf", "proofs.commitments.cmm_prf", |c| {
        bump(&mut c.proofs.id_proofs.commitments.cmm_prf.0);
        true
    });
    with_cdi!("proofs.commitments.cmm_cred_counter", "proofs.commitments.cmm_cred_counter", |c| {
        bump(&mut c.proofs.id_proofs.commitments.cmm_cred_counter.0);
        true
    });
    with_cdi!("proofs.commitments.cmm_max_accounts", "proofs.commitments.cmm_max_accounts", |c| {
        bump(&mut c.proofs.id_proofs.commitments.cmm_max_accounts.0);
        true
    });
    let attr_tags: Vec<AttributeTag> = cdi.proofs.id_proofs.commitments.cmm_attributes.keys().copied().collect();
    for tg in attr_tags.iter().take(4) {
        with_cdi!("proofs.commitments.cmm_attributes", &format!("proofs.commitments.cmm_attributes[{}]", tg.0), |c| {
            bump(&mut c.proofs.id_proofs.commitments.cmm_attributes.get_mut(tg).unwrap().0);
            true
        });
    }
    if let Some(tg) = attr_tags.first() {
        with_cdi!("proofs.commitments.cmm_attributes.removed", &format!("proofs.commitments.cmm_attributes.remove[{}]", tg.0), |c| {
            c.proofs.id_proofs.commitments.cmm_attributes.remove(tg);
            true
        });
    }
    for i in 0..t as usize {
        with_cdi!("proofs.commitments.sharing_coeff", &format!("proofs.commitments.cmm_id_cred_sec_sharing_coeff[{}]", i), |c| {
            bump(&mut c.proofs.id_proofs.commitments.cmm_id_cred_sec_sharing_coeff[i].0);
            true
        });
    }
    // more (or fewer) coefficient commitments than the threshold: the neutral element leaves the
    // committed polynomial's values unchanged, a copy of the last one does not
    for (sub, which) in [("append(neutral)", 0), ("append(copy of last)", 1), ("remove(last)", 2)] {
        with_cdi!("proofs.commitments.sharing_coeff.count", &format!("proofs.commitments.cmm_id_cred_sec_sharing_coeff.{}", sub), |c| {
            let v = &mut c.proofs.id_proofs.commitments.cmm_id_cred_sec_sharing_coeff;
            match which {
                0 => v.push(concordium_base::pedersen_commitment::Commitment(<ArCurve as Curve>::zero_point())),
                1 => {
                    let l = v.last().unwrap().clone();
                    v.push(l)
                }
                _ => {
                    v.pop();
                }
            }
            true
        });
    }
    with_cdi!("proofs.challenge", "proofs.challenge", |c| {
        let mut b = to_bytes(&c.proofs.id_proofs.challenge);
        let i = r.0.below(32) as usize;
        b[i] ^= 0x10;
        c.proofs.id_proofs.challenge = deser(&b).unwrap();
        true
    });
    // proofs: every response scalar
    for id in chosen_ids.iter() {
        for s in 0..3 {
            with_cdi!("proofs.proof_id_cred_pub", &format!("proofs.proof_id_cred_pub[{}].z{}", id, s), |c| {
                let e: &com_enc_eq::Response<G1> = &c.proofs.id_proofs.proof_id_cred_pub[id];
                match bump_scalar_in(e, 32 * s) {
                    Some(e2) => {
                        c.proofs.id_proofs.proof_id_cred_pub.insert(*id, e2);
                        true
                    }
                    None => false,
                }
            });
        }
    }
    {
        let l = to_bytes(&cdi.proofs.id_proofs.proof_ip_sig).len();
        // rho, u32 count, pairs
        let mut offs = vec![0usize];
        let mut o = 36;
        while o + 64 <= l {
            offs.push(o);
            offs.push(o + 32);
            o += 64;
        }
        if offs.len() > 7 {
            r.0.shuffle(&mut offs[1..]);
            offs.truncate(7);
        }
        for o in offs {
            with_cdi!("proofs.proof_ip_sig", &format!("proofs.proof_ip_sig@{}", o), |c| {
                let e: &com_eq_sig::Response<IpPairing, G1> = &c.proofs.id_proofs.proof_ip_sig;
                match bump_scalar_in(e, o) {
                    Some(e2) => {
                        c.proofs.id_proofs.proof_ip_sig = e2;
                        true
                    }
                    None => false,
                }
            });
        }
    }
    for s in 0..5 {
        with_cdi!("proofs.proof_reg_id", &format!("proofs.proof_reg_id@{}", s), |c| {
            let e: &com_mult::Response<G1> = &c.proofs.id_proofs.proof_reg_id;
            match bump_scalar_in(e, 32 * s) {
                Some(e2) => {
                    c.proofs.id_proofs.proof_reg_id = e2;
                    true
                }
                None => false,
            }
        });
    }
    for (name, b2) in proof_perturbations(&to_bytes(&cdi.proofs.id_proofs.cred_counter_less_than_max_accounts)) {
        if let Some(p2) = deser::<RangeProof<G1>>(&b2) {
            with_cdi!("proofs.range_proof", &format!("proofs.cred_counter_less_than_max_accounts.{}", name), |c| {
                c.proofs.id_proofs.cred_counter_less_than_max_accounts = p2.clone();
                true
            });
        }
    }
    // account ownership signatures
    with_cdi!("proofs.proof_acc_sk.sig", "proofs.proof_acc_sk.signature_bit", |c| {
        let mut b = to_bytes(&c.proofs.proof_acc_sk);
        let l = b.len();
        b[l - 1 - r.0.below(32) as usize] ^= 1;
        match deser::<AccountOwnershipProof>(&b) {
            Some(p) => {
                c.proofs.proof_acc_sk = p;
                true
            }
            None => false,
        }
    });
    with_cdi!("proofs.proof_acc_sk.removed", "proofs.proof_acc_sk.signature_removed", |c| {
        let k = *c.proofs.proof_acc_sk.sigs.keys().next().unwrap();
        c.proofs.proof_acc_sk.sigs.remove(&k);
        true
    });
    // ---- index structure of every map in the credential: same entries in the same order under other keys
    with_cdi!("index.proof_acc_sk.shifted", "proofs.proof_acc_sk.indices+1", |c| {
        let sigs = std::mem::take(&mut c.proofs.proof_acc_sk.sigs);
        if sigs.keys().any(|k| k.0 == 255) {
            c.proofs.proof_acc_sk.sigs = sigs;
            false
        } else {
            c.proofs.proof_acc_sk.sigs = sigs.into_iter().map(|(k, v)| (KeyIndex(k.0 + 1), v)).collect();
            true
        }
    });
    with_cdi!("index.proof_acc_sk.last_moved", "proofs.proof_acc_sk.last_index_changed", |c| {
        let (k, v) = c.proofs.proof_acc_sk.sigs.pop_last().unwrap();
        // another index above the previous ones (order preserved)
        let nk = if k.0 < 250 { k.0 + 5 } else { k.0 - 1 };
        if c.proofs.proof_acc_sk.sigs.contains_key(&KeyIndex(nk)) {
            c.proofs.proof_acc_sk.sigs.insert(k, v);
            false
        } else {
            c.proofs.proof_acc_sk.sigs.insert(KeyIndex(nk), v);
            true
        }
    });
    with_cdi!("index.cred_key_info.shifted", "values.cred_key_info.key_indices_changed", |c| {
        let keys = std::mem::take(&mut c.values.cred_key_info.keys);
        if keys.keys().any(|k| k.0 == 255) {
            c.values.cred_key_info.keys = keys;
            false
        } else {
            c.values.cred_key_info.keys = keys.into_iter().map(|(k, v)| (KeyIndex(k.0 + 1), v)).collect();
            true
        }
    });
    with_cdi!("index.proof_id_cred_pub.shifted", "proofs.proof_id_cred_pub.ar_identities+1", |c| {
        let m = std::mem::take(&mut c.proofs.id_proofs.proof_id_cred_pub);
        c.proofs.id_proofs.proof_id_cred_pub = m.into_iter().map(|(k, v)| (ArIdentity::new(u32::from(k) + 1), v)).collect();
        true
    });
    with_cdi!("index.ar_data.shifted", "values.ar_data.ar_identities+1", |c| {
        let m = std::mem::take(&mut c.values.ar_data);
        c.values.ar_data = m.into_iter().map(|(k, v)| (ArIdentity::new(u32::from(k) + 1), v)).collect();
        true
    });
    with_cdi!("index.ar_data_and_proofs.shifted", "ar_data+proof_id_cred_pub.ar_identities+1", |c| {
        // both maps re-keyed consistently: the credential then names other revokers than the signed ones
        let m = std::mem::take(&mut c.values.ar_data);
        c.values.ar_data = m.into_iter().map(|(k, v)| (ArIdentity::new(u32::from(k) + 1), v)).collect();
        let m = std::mem::take(&mut c.proofs.id_proofs.proof_id_cred_pub);
        c.proofs.id_proofs.proof_id_cred_pub = m.into_iter().map(|(k, v)| (ArIdentity::new(u32::from(k) + 1), v)).collect();
        true
    });
    with_cdi!("index.cmm_attributes.shifted", "proofs.commitments.cmm_attributes.tags+1", |c| {
        let m = std::mem::take(&mut c.proofs.id_proofs.commitments.cmm_attributes);
        if m.is_empty() || m.keys().any(|k| k.0 >= 250) {
            c.proofs.id_proofs.commitments.cmm_attributes = m;
            false
        } else {
            c.proofs.id_proofs.commitments.cmm_attributes = m.into_iter().map(|(k, v)| (AttributeTag(k.0 + 1), v)).collect();
            true
        }
    });
    with_cdi!("index.policy.shifted", "values.policy.revealed.tags+1", |c| {
        let m = std::mem::take(&mut c.values.policy.policy_vec);
        if m.is_empty() || m.keys().any(|k| k.0 >= 250) {
            c.values.policy.policy_vec = m;
            false
        } else {
            c.values.policy.policy_vec = m.into_iter().map(|(k, v)| (AttributeTag(k.0 + 1), v)).collect();
            true
        }
    });
    // serialized-bytes perturbation: a flipped bit somewhere in the wire format
    for _ in 0..4 {
        let mut b = cdi_bytes.clone();
        let i = r.0.below(b.len() as u64) as usize;
        b[i] ^= 1 << r.0.below(8);
        match deser::<Cdi>(&b) {
            Some(c2) => rej(sh, "bytes.bitflip", &format!("bytes[{}]", i), &c2, &ip_info, &ars_infos, g, &noe),
            None => {
                sh.evaluations += 1;
                sh.hit("reject.expected");
                sh.hit("reject.undeserializable");
            }
        }
    }
    // ---- context: account / expiry, IP key, AR key, global context
    {
        let noe2: Either<TransactionTime, AccountAddress> = match &noe {
            Either::Left(e) => Either::Left(TransactionTime { seconds: e.seconds + 1 }),
            Either::Right(a) => {
                let mut a2 = *a;
                a2.0[31] ^= 1;
                Either::Right(a2)
            }
        };
        rej(sh, "context.new_or_existing.value", "context.expiry_or_address", &cdi, &ip_info, &ars_infos, g, &noe2);
        let noe3: Either<TransactionTime, AccountAddress> = match &noe {
            Either::Left(_) => Either::Right(addr),
            Either::Right(_) => Either::Left(expiry),
        };
        rej(sh, "context.new_or_existing.kind", "context.new_vs_existing", &cdi, &ip_info, &ars_infos, g, &noe3);
        match catch(|| test_create_ip_info(r, n, n_attrs as u8)) {
            Ok(other_ip) => rej(sh, "context.ip_key", "context.other_ip_public_key", &cdi, &other_ip.public_ip_info, &ars_infos, g, &noe),
            Err(e) => sh.inconclusive.push(format!("second IP fixture panicked: {}", e)),
        }
        for id in chosen_ids.iter().take(2) {
            let mut ars2 = ars_infos.clone();
            bump(&mut ars2.get_mut(id).unwrap().ar_public_key.key);
            rej(sh, "context.ar_key", &format!("context.ar[{}].public_key", id), &cdi, &ip_info, &ars2, g, &noe);
        }
        {
            // the chain does not know one of the chosen revokers
            let mut ars2 = ars_infos.clone();
            ars2.remove(&chosen_ids[0]);
            rej(sh, "context.ar_unknown", "context.chosen_ar_unknown_to_chain", &cdi, &ip_info, &ars2, g, &noe);
        }
        rej(sh, "context.global", "context.other_global_context", &cdi, &ip_info, &ars_infos, other_global(), &noe);
    }
    // ---- counter above the limit
    if max_accounts < 255 {
        sh.evaluations += 1;
        sh.hit("reject.expected");
        sh.hit("perturb.counter.max+1");
        match mk_cdi(max_accounts + 1) {
            Ok(Ok((c2, _))) => {
                sh.hit("counter.max+1.credential_created");
                let res = catch(|| verify_cdi(g, &ip_info, &ars_infos, &c2, &noe));
                if let Ok(Ok(())) = res {
                    sh.violate(idx, "counter-above-limit-accepted", format!("c08:counter:{}", cfg_sig), format!("credential with counter {} > max_accounts {} accepted by verify_cdi", max_accounts as u16 + 1, max_accounts), json!({"config": cfg_json, "cdi_hex": hex(&to_bytes(&c2))}));
                }
            }
            Ok(Err(_)) => sh.hit("counter.max+1.creation_refused"),
            Err(_) => sh.hit("counter.max+1.creation_panicked"),
        }
    }
    sh.nontrivial(fnv(cfg_sig.as_bytes()) ^ fnv(&cdi_bytes));
    sh.sample(|| {
        let mut c = cfg_json.clone();
        c["cdi_hex"] = json!(vmon_core::hex_short(&cdi_bytes, 160));
        c
    });
}

/// Identity provider data with a PS key of exactly `ps_len` components
/// (same construction as id::test::test_create_ip_info).
fn mk_ip(r: &mut CRng, ps_len: usize) -> IpData<IpPairing> {
    let ip_secret_key = concordium_base::ps_sig::SecretKey::<IpPairing>::generate(ps_len, r);
    let ip_verify_key = concordium_base::ps_sig::PublicKey::from(&ip_secret_key);
    let signing = ed25519_dalek::SigningKey::generate(r);
    IpData {
        public_ip_info: IpInfo {
            ip_identity: IpIdentity(7),
            ip_description: Description { name: "IP".into(), url: "ip.example".into(), description: "probe".into() },
            ip_verify_key,
            ip_cdi_verify_key: signing.verifying_key(),
        },
        ip_secret_key,
        ip_cdi_secret_key: signing.to_bytes(),
    }
}

/// The identity provider accepts an attribute list when its PS key has
/// `attributes + encoded_ars + 5` components (identity_provider::compute_message;
/// up to 7 revokers are encoded in one scalar). An identity issued under a key
/// of exactly that length must be usable: create_credential must succeed and
/// verify_cdi must accept. (Finding F8, repaired: compute_pok_sig demanded one more.)
fn minimal_ps_key_probe(ctx: &ChildCtx, sh: &mut Shard, idx: u64, r: &mut CRng) {
    let n_attrs = ((idx / 4 + ctx.shard as u64 / 3) % 4) as usize;
    let n_ars = 1 + ((idx / 4 + ctx.shard as u64) % 3) as u8;
    let v1 = r.0.chance(1, 2);
    let g = global();
    let res = catch(|| {
        let ip = mk_ip(r, n_attrs + 1 + 5);
        let (ars_infos, _) = test_create_ars(&g.on_chain_commitment_key.g, n_ars, r);
        let id_use = test_create_id_use_data(r);
        let IpData { public_ip_info: ip_info, ip_secret_key, ip_cdi_secret_key } = ip;
        let context = IpContext::new(&ip_info, &ars_infos, g);
        let mut alist_map = BTreeMap::new();
        for tg in 0..n_attrs {
            alist_map.insert(AttributeTag(tg as u8), attr_value(r));
        }
        let valid_to = YearMonth::new(2030, 1).unwrap();
        let created_at = YearMonth::new(2020, 1).unwrap();
        let alist = ExampleAttributeList { valid_to, created_at, max_accounts: 10, alist: alist_map, _phantom: Default::default() };
        let threshold = Threshold::try_new(1 + r.0.below(n_ars as u64) as u8).unwrap();
        let key_len = ip_info.ip_verify_key.ys.len();
        let policy = Policy { valid_to, created_at, policy_vec: BTreeMap::new(), _phantom: Default::default() };
        let (ck, cth) = keys(r);
        let cred_data = CredentialData { keys: ck, threshold: cth };
        let noe: Either<TransactionTime, AccountAddress> = Either::Left(TransactionTime { seconds: 1 << 40 });
        let created = if v1 {
            let (pio, _) = generate_pio_v1_with_rng(&context, threshold, &id_use, r)?;
            let sig = match verify_credentials_v1(&pio, context, &alist, &ip_secret_key) {
                Ok(s) => s,
                Err(e) => return Some((key_len, format!("ip-refused: {:?}", e))),
            };
            let id_obj = IdentityObjectV1 { pre_identity_object: pio, alist, signature: sig };
            create_credential(context, &id_obj, &id_use, 0, policy, &cred_data, &SystemAttributeRandomness {}, &noe)
        } else {
            let (ik, ith) = keys(r);
            let acc = InitialAccountData { keys: ik, threshold: ith };
            let (pio, _) = generate_pio(&context, threshold, &id_use, &acc)?;
            let sig = match verify_credentials(&pio, context, &alist, TransactionTime { seconds: 1 << 40 }, &ip_secret_key, &ip_cdi_secret_key) {
                Ok((s, _)) => s,
                Err(e) => return Some((key_len, format!("ip-refused: {:?}", e))),
            };
            let id_obj = IdentityObject { pre_identity_object: pio, alist, signature: sig };
            create_credential(context, &id_obj, &id_use, 0, policy, &cred_data, &SystemAttributeRandomness {}, &noe)
        };
        match created {
            Err(e) => Some((key_len, format!("create-refused: {}", e))),
            Ok((cdi, _)) => match verify_cdi(g, &ip_info, &ars_infos, &cdi, &noe) {
                Ok(()) => Some((key_len, "ok".to_string())),
                Err(e) => Some((key_len, format!("chain-refused: {:?}", e))),
            },
        }
    });
    sh.evaluations += 1;
    sh.hit("probe.minimal_ps_key");
    sh.hit(&format!("probe.minimal_ps_key.ars{}", n_ars));
    sh.hit(&format!("probe.minimal_ps_key.attrs{}", n_attrs));
    match res {
        Ok(Some((_, s))) if s == "ok" => sh.hit("probe.minimal_ps_key.ok"),
        Ok(Some((key_len, s))) => {
            let stage = s.split(':').next().unwrap_or("").to_string();
            sh.violate(
                idx,
                "issued-identity-unusable",
                format!("c08:minimal-ps-key:{}", stage),
                format!("identity provider key with exactly attributes+encoded_ars+5 = {} components ({} ARs, {} attributes, identity object v{}): the minimal key the provider's own check allows does not lead to an accepted credential ({})", key_len, n_ars, n_attrs, v1 as u8, s),
                json!({"ars": n_ars, "attributes": n_attrs, "ps_key_components": key_len, "identity_object_version": v1 as u8, "outcome": s}),
            );
        }
        Ok(None) => sh.inconclusive.push("minimal_ps_key_probe: generate_pio returned None".into()),
        Err(e) => sh.inconclusive.push(format!("minimal_ps_key_probe panicked: {}", e)),
    }
}
