//! C11: range proofs and set (non-)membership proofs accept exactly true
//! statements. Ground truth is integer arithmetic in the harness; every
//! judgement is over an execution of the library's real prover / verifier.
//!
//! D (deliberately not demanded):
//! * Bit widths `n` or products `n*m` that are not powers of two: the range
//!   proof documentation says nothing about them (the inner product argument
//!   documents "length must be a power of 2" as a precondition and the prover
//!   returns `None`). They are run for observation only (`observe.nonpow2.*`),
//!   never judged.
//! * Set (non-)membership: sets whose size is not a power of two are documented
//!   as padded (`gens` "of at least length k where k is the smallest power of
//!   two >= |the_set|"), so they are judged like any other size. The empty set
//!   is not documented at this level and is not run here (C18 covers what the
//!   id layer documents).
//! * A proof checked against a *permuted* or *re-padded* presentation of the
//!   same mathematical set, or against another set that still contains (does
//!   not contain) the value: the statement is still true, so nothing is
//!   demanded. Set perturbations are only judged when they make the statement
//!   false.
//! * `verify_less_than_or_equal` with swapped commitments when a == b (the
//!   swapped statement is true).
//! * A verifier *panic* on a perturbed-but-well-typed proof is counted as
//!   "does not verify" (the property text does not promise totality) and is
//!   recorded under `note.verifier_panic.*`.
//! * Soundness against provers other than the library's (DESIGN.md section 7).
use crate::{
    common::*,
    with_tr,
};
use concordium_base::{
    bulletproofs::{
        range_proof::{self, Generators, RangeProof},
        set_membership_proof::{self as smp, SetMembershipProof},
        set_non_membership_proof::{self as snmp, SetNonMembershipProof},
    },
    common::to_bytes,
    curve_arithmetic::{Curve, Field},
    id::{constants::ArCurve, id_proof_types::ProofVersion},
    pedersen_commitment::{Commitment, CommitmentKey, Randomness},
    random_oracle::TranscriptProtocol,
};
use vmon_core::{catch, fnv, json, ChildCtx, Shard, Value};

type C = ArCurve;
type Fr = <C as Curve>::Scalar;

const NS: [u8; 7] = [1, 2, 4, 8, 16, 32, 64];
const MS: [u8; 4] = [1, 2, 4, 8];
const SET_SIZES: [usize; 9] = [1, 2, 3, 4, 5, 8, 9, 16, 17];

fn vname(v: ProofVersion) -> &'static str {
    match v {
        ProofVersion::Version1 => "V1",
        ProofVersion::Version2 => "V2",
    }
}

fn other_version(v: ProofVersion) -> ProofVersion {
    match v {
        ProofVersion::Version1 => ProofVersion::Version2,
        ProofVersion::Version2 => ProofVersion::Version1,
    }
}

fn mk_gens(r: &mut CRng, k: usize) -> Generators<C> { Generators { G_H: (0..k).map(|_| (C::generate(r), C::generate(r))).collect() } }

fn two_pow_64() -> Fr { C::scalar_from_u64(2).pow([64]) }

/// scalar of a value given as (multiple of 2^64, low 64 bits)
fn scalar_of(hi: u64, lo: u64) -> Fr {
    let mut s = two_pow_64();
    s.mul_assign(&C::scalar_from_u64(hi));
    s.add_assign(&C::scalar_from_u64(lo));
    s
}

fn commit(key: &CommitmentKey<C>, v: &Fr, r: &Randomness<C>) -> Commitment<C> { key.hide_worker(v, r.as_ref()) }

/// Serialized layout shared by `RangeProof`, `SetMembershipProof`,
/// `SetNonMembershipProof` over G1: A S T_1 T_2 (48 each), tx tx_tilde e_tilde
/// (32 each), u32 count, count * (L,R), a, b.
fn proof_fields(bytes: &[u8]) -> Option<Vec<(String, bool, usize)>> {
    const P: usize = 48;
    const S: usize = 32;
    if bytes.len() < 4 * P + 3 * S + 4 + 2 * S {
        return None;
    }
    let cnt_off = 4 * P + 3 * S;
    let k = u32::from_be_bytes(bytes[cnt_off..cnt_off + 4].try_into().ok()?) as usize;
    if bytes.len() != cnt_off + 4 + k * 2 * P + 2 * S {
        return None;
    }
    let mut f = vec![
        ("A".to_string(), true, 0),
        ("S".to_string(), true, P),
        ("T_1".to_string(), true, 2 * P),
        ("T_2".to_string(), true, 3 * P),
        ("tx".to_string(), false, 4 * P),
        ("tx_tilde".to_string(), false, 4 * P + S),
        ("e_tilde".to_string(), false, 4 * P + 2 * S),
    ];
    for j in 0..k {
        f.push((format!("L{}", j), true, cnt_off + 4 + j * 2 * P));
        f.push((format!("R{}", j), true, cnt_off + 4 + j * 2 * P + P));
    }
    f.push(("ip_a".to_string(), false, cnt_off + 4 + k * 2 * P));
    f.push(("ip_b".to_string(), false, cnt_off + 4 + k * 2 * P + S));
    Some(f)
}

/// coverage name of a proof field: L3 -> L, R0 -> R
fn field_class(name: &str) -> &str {
    if name.starts_with('L') && name[1..].chars().all(|c| c.is_ascii_digit()) {
        "L"
    } else if name.starts_with('R') && name[1..].chars().all(|c| c.is_ascii_digit()) {
        "R"
    } else {
        name
    }
}

/// Every single-component perturbation of a serialized proof, plus a
/// shortened and a lengthened L/R vector.
pub(crate) fn proof_perturbations(bytes: &[u8]) -> Vec<(String, Vec<u8>)> {
    let mut out = vec![];
    let fields = match proof_fields(bytes) {
        Some(f) => f,
        None => return out,
    };
    for (name, is_point, off) in &fields {
        let mut b = bytes.to_vec();
        let ok = if *is_point { bump_point::<C>(&mut b, *off) } else { bump_scalar::<C>(&mut b, *off) };
        if ok && b != bytes {
            out.push((name.clone(), b));
        }
    }
    const P: usize = 48;
    let cnt_off = 4 * P + 3 * 32;
    let k = u32::from_be_bytes(bytes[cnt_off..cnt_off + 4].try_into().unwrap()) as usize;
    let body = cnt_off + 4;
    if k > 0 {
        // drop the last (L,R) pair
        let mut b = bytes[..cnt_off].to_vec();
        b.extend_from_slice(&((k - 1) as u32).to_be_bytes());
        b.extend_from_slice(&bytes[body..body + (k - 1) * 2 * P]);
        b.extend_from_slice(&bytes[body + k * 2 * P..]);
        out.push(("lr_short".into(), b));
    }
    {
        // append one more (L,R) pair (two copies of the generator)
        let g = to_bytes(&C::one_point());
        let mut b = bytes[..cnt_off].to_vec();
        b.extend_from_slice(&((k + 1) as u32).to_be_bytes());
        b.extend_from_slice(&bytes[body..body + k * 2 * P]);
        b.extend_from_slice(&g);
        b.extend_from_slice(&g);
        b.extend_from_slice(&bytes[body + k * 2 * P..]);
        out.push(("lr_long".into(), b));
        // ... the same with the point at infinity, and with two more pairs
        let z = to_bytes(&C::zero_point());
        let mut b = bytes[..cnt_off].to_vec();
        b.extend_from_slice(&((k + 1) as u32).to_be_bytes());
        b.extend_from_slice(&bytes[body..body + k * 2 * P]);
        b.extend_from_slice(&z);
        b.extend_from_slice(&z);
        b.extend_from_slice(&bytes[body + k * 2 * P..]);
        out.push(("lr_long_zero".into(), b));
        let mut b = bytes[..cnt_off].to_vec();
        b.extend_from_slice(&((k + 2) as u32).to_be_bytes());
        b.extend_from_slice(&bytes[body..body + k * 2 * P]);
        if k > 0 {
            // repeat the last honest pair twice
            let last = &bytes[body + (k - 1) * 2 * P..body + k * 2 * P];
            b.extend_from_slice(last);
            b.extend_from_slice(last);
        } else {
            for _ in 0..4 {
                b.extend_from_slice(&g);
            }
        }
        b.extend_from_slice(&bytes[body + k * 2 * P..]);
        out.push(("lr_long2".into(), b));
    }
    out
}

struct J<'a> {
    sh: &'a mut Shard,
    idx: u64,
    replay: bool,
}

impl<'a> J<'a> {
    /// Judge an execution that must NOT verify. `res` is the caught result of
    /// the verifier: Ok(true) = accepted.
    fn must_reject(&mut self, fam: &str, what: &str, res: Result<bool, String>, case: impl FnOnce() -> (String, Value)) {
        self.sh.evaluations += 1;
        self.sh.hit("reject.expected");
        self.sh.hit(&format!("perturb.{}.{}", fam, what));
        let res = if planted("c11.reject") && what == "tx" { Ok(true) } else { res };
        match res {
            Ok(false) => {}
            Err(p) => {
                self.sh.hit(&format!("note.verifier_panic.{}.{}", fam, what));
                if self.replay {
                    println!("verifier panicked on {}.{}: {}", fam, what, p);
                }
            }
            Ok(true) => {
                let (sig, c) = case();
                self.sh.violate(self.idx, "accepted-false-or-altered", format!("c11:{}:{}:{}", fam, what, sig), format!("{}: verification succeeded although '{}' was altered / the statement is false", fam, what), c);
            }
        }
    }

    /// Judge an execution that MUST verify.
    fn must_accept(&mut self, fam: &str, res: Result<bool, String>, case: impl FnOnce() -> (String, Value)) -> bool {
        self.sh.evaluations += 1;
        self.sh.hit(&format!("complete.{}", fam));
        let res = if planted("c11.accept") && fam == "set_member" { Ok(false) } else { res };
        match res {
            Ok(true) => true,
            Ok(false) => {
                let (sig, c) = case();
                self.sh.violate(self.idx, "rejected-true", format!("c11:{}:complete:{}", fam, sig), format!("{}: honest proof of a true statement did not verify", fam), c);
                false
            }
            Err(p) => {
                let (sig, c) = case();
                self.sh.violate(self.idx, "panic-on-honest", format!("c11:{}:panic:{}", fam, sig), format!("{}: prover/verifier panicked on a true statement: {}", fam, p), c);
                false
            }
        }
    }
}

fn fr_hex(x: &Fr) -> String { hex(&to_bytes(x)) }

// ------------------------------------------------------------------ range

#[allow(clippy::too_many_arguments)]
fn verify_range(tk: TrKind, dom: &[u8], ver: ProofVersion, n: u8, coms: &[Commitment<C>], proof: &RangeProof<C>, gens: &Generators<C>, key: &CommitmentKey<C>) -> Result<bool, String> {
    catch(|| with_tr!(tk, dom, |t| range_proof::verify_efficient(ver, &mut t, n, coms, proof, gens, key).is_ok()))
}

fn range_case(ctx: &ChildCtx, sh: &mut Shard, idx: u64, r: &mut CRng) {
    let combo = ((idx / 4) as usize + ctx.shard as usize * 9) % (NS.len() * MS.len());
    let n = NS[combo % NS.len()];
    let m = MS[combo / NS.len()];
    let nm = n as usize * m as usize;
    let ver = if r.0.chance(1, 2) { ProofVersion::Version1 } else { ProofVersion::Version2 };
    let tk = if r.0.chance(1, 2) { TrKind::Legacy } else { TrKind::V1 };
    let dom = r.rand_bytes(12);
    // room for the perturbation n -> 2n on small instances
    let extra = if nm <= 64 { 2 * nm } else { nm };
    let gens_all = mk_gens(r, extra.max(2 * m as usize));
    let gens = gens_all.take(nm);
    let key = CommitmentKey::<C>::generate(r);
    let maxv: u64 = if n == 64 { u64::MAX } else { (1u64 << n) - 1 };
    let vals: Vec<u64> = (0..m)
        .map(|_| match r.0.below(5) {
            0 => 0,
            1 => maxv,
            2 => 1.min(maxv),
            _ => {
                if maxv == u64::MAX {
                    r.0.next()
                } else {
                    r.0.below(maxv + 1)
                }
            }
        })
        .collect();
    let rands: Vec<Randomness<C>> = (0..m).map(|_| Randomness::<C>::generate(r)).collect();
    let coms: Vec<Commitment<C>> = vals.iter().zip(&rands).map(|(v, rd)| commit(&key, &C::scalar_from_u64(*v), rd)).collect();
    let desc = |proof_hex: String| {
        json!({"family":"range","n":n,"m":m,"version":vname(ver),"transcript":tk.name(),"domain_hex":hex(&dom),"values":vals,
               "commitment_key_hex": hex(&to_bytes(&key)), "commitments_hex": coms.iter().map(|c| hex(&to_bytes(c))).collect::<Vec<_>>(),
               "generators_fnv": format!("{:016x}", fnv(&to_bytes(&gens))), "proof_hex": proof_hex})
    };
    let base_sig = format!("n{}:m{}:{}:{}:{:?}", n, m, vname(ver), tk.name(), vals);
    let mut j = J { sh, idx, replay: ctx.replaying() };

    // ---- completeness
    let proof = catch(|| with_tr!(tk, &dom, |t| range_proof::prove(ver, &mut t, r, n, m, &vals, &gens, &key, &rands)));
    let proof = match proof {
        Ok(Some(p)) => p,
        Ok(None) => {
            j.must_accept("range", Ok(false), || (format!("{}:prover-none", base_sig), desc(String::new())));
            return;
        }
        Err(p) => {
            j.must_accept("range", Err(p), || (format!("{}:prover-panic", base_sig), desc(String::new())));
            return;
        }
    };
    let pb = to_bytes(&proof);
    let res = verify_range(tk, &dom, ver, n, &coms, &proof, &gens, &key);
    let ok = j.must_accept("range", res, || (format!("{}:{:016x}", base_sig, fnv(&pb)), desc(hex(&pb))));
    j.sh.hit(&format!("range.n{}", n));
    j.sh.hit(&format!("range.m{}", m));
    j.sh.hit(&format!("range.{}.{}", vname(ver), tk.name()));
    if !ok {
        return;
    }
    // verifying with a larger generator vector (prefix used) is still the same statement
    if extra > nm {
        let res = verify_range(tk, &dom, ver, n, &coms, &proof, &gens_all, &key);
        j.must_accept("range", res, || (format!("{}:longer-gens:{:016x}", base_sig, fnv(&pb)), desc(hex(&pb))));
    }

    // ---- perturbation of every proof component
    let mk = |what: &str, b: &[u8]| (format!("{}:{}:{:016x}", base_sig, what, fnv(b)), desc(hex(b)));
    for (name, b) in proof_perturbations(&pb) {
        match deser::<RangeProof<C>>(&b) {
            None => {
                j.sh.hit("reject.undeserializable");
                j.must_reject("range", field_class(&name), Ok(false), || mk(&name, &b));
            }
            Some(p2) => {
                let res = verify_range(tk, &dom, ver, n, &coms, &p2, &gens, &key);
                j.must_reject("range", field_class(&name), res, || mk(&name, &b));
            }
        }
    }
    // ---- each commitment
    for i in 0..coms.len() {
        let mut c2 = coms.clone();
        c2[i] = Commitment(c2[i].0.plus_point(&key.g));
        let res = verify_range(tk, &dom, ver, n, &c2, &proof, &gens, &key);
        j.must_reject("range", "commitment", res, || mk(&format!("commitment{}", i), &pb));
    }
    if coms.len() > 1 {
        // two commitments swapped (only a different statement if they differ)
        let a = r.0.below(coms.len() as u64) as usize;
        let b = (a + 1) % coms.len();
        if coms[a] != coms[b] {
            let mut c2 = coms.clone();
            c2.swap(a, b);
            let res = verify_range(tk, &dom, ver, n, &c2, &proof, &gens, &key);
            j.must_reject("range", "commitment_swap", res, || mk("commitment_swap", &pb));
        }
        // one commitment dropped (changes m)
        let c2 = coms[..coms.len() - 1].to_vec();
        let res = verify_range(tk, &dom, ver, n, &c2, &proof, &gens, &key);
        j.must_reject("range", "m", res, || mk("m-1", &pb));
    }
    {
        // one more commitment (changes m); needs n more generators
        if gens_all.G_H.len() >= nm + n as usize {
            let mut c2 = coms.clone();
            c2.push(commit(&key, &Fr::zero(), &Randomness::<C>::zero()));
            let res = verify_range(tk, &dom, ver, n, &c2, &proof, &gens_all, &key);
            j.must_reject("range", "m", res, || mk("m+1", &pb));
        }
    }
    // ---- bit width
    {
        let mut alts: Vec<u8> = vec![];
        if n > 1 {
            alts.push(n / 2);
            alts.push(n - 1);
        }
        if (2 * n as usize) * m as usize <= gens_all.G_H.len() && n < 64 {
            alts.push(2 * n);
        }
        if (n as usize + 1) * m as usize <= gens_all.G_H.len() && n < 64 {
            alts.push(n + 1);
        }
        for n2 in alts {
            let res = verify_range(tk, &dom, ver, n2, &coms, &proof, &gens_all, &key);
            j.must_reject("range", "n", res, || mk(&format!("n={}", n2), &pb));
        }
    }
    // ---- generator vector
    {
        let i = r.0.below(nm as u64) as usize;
        let mut g2 = gens.clone();
        g2.G_H[i].0 = g2.G_H[i].0.plus_point(&C::one_point());
        let res = verify_range(tk, &dom, ver, n, &coms, &proof, &g2, &key);
        j.must_reject("range", "gens.G_replaced", res, || mk(&format!("G[{}]", i), &pb));
        let mut g2 = gens.clone();
        g2.G_H[i].1 = g2.G_H[i].1.plus_point(&C::one_point());
        let res = verify_range(tk, &dom, ver, n, &coms, &proof, &g2, &key);
        j.must_reject("range", "gens.H_replaced", res, || mk(&format!("H[{}]", i), &pb));
        if nm > 1 {
            let k = (i + 1 + r.0.below(nm as u64 - 1) as usize) % nm;
            let mut g2 = gens.clone();
            g2.G_H.swap(i, k);
            let res = verify_range(tk, &dom, ver, n, &coms, &proof, &g2, &key);
            j.must_reject("range", "gens.permuted", res, || mk(&format!("swap[{},{}]", i, k), &pb));
        }
        // commitment key
        let k2 = CommitmentKey { g: key.g.plus_point(&C::one_point()), h: key.h };
        let res = verify_range(tk, &dom, ver, n, &coms, &proof, &gens, &k2);
        j.must_reject("range", "key.g", res, || mk("key.g", &pb));
        let k2 = CommitmentKey { g: key.g, h: key.h.plus_point(&C::one_point()) };
        let res = verify_range(tk, &dom, ver, n, &coms, &proof, &gens, &k2);
        j.must_reject("range", "key.h", res, || mk("key.h", &pb));
    }
    // ---- transcript
    {
        let mut d2 = dom.clone();
        d2.push(0x41);
        let res = verify_range(tk, &d2, ver, n, &coms, &proof, &gens, &key);
        j.must_reject("range", "transcript.domain", res, || mk("domain+A", &pb));
        let res = catch(|| {
            with_tr!(tk, &dom, |t| {
                t.append_message(b"extra", &7u8);
                range_proof::verify_efficient(ver, &mut t, n, &coms, &proof, &gens, &key).is_ok()
            })
        });
        j.must_reject("range", "transcript.extra_message", res, || mk("extra-message", &pb));
        let tk2 = if tk == TrKind::Legacy { TrKind::V1 } else { TrKind::Legacy };
        let res = verify_range(tk2, &dom, ver, n, &coms, &proof, &gens, &key);
        j.must_reject("range", "transcript.kind", res, || mk("other-transcript-kind", &pb));
        let res = verify_range(tk, &dom, other_version(ver), n, &coms, &proof, &gens, &key);
        j.must_reject("range", "version", res, || mk("other-version", &pb));
    }

    // ---- false statements through the library's own prover
    {
        let who = r.0.below(m as u64) as usize;
        // out-of-range value as (hi, lo) with value = hi * 2^64 + lo
        let (hi, lo): (u64, u64) = if n == 64 {
            match r.0.below(3) {
                0 => (1, 0),
                1 => (1, r.0.below(1000)),
                _ => (1 + r.0.below(1 << 20), r.0.next()),
            }
        } else {
            match r.0.below(4) {
                0 => (0, 1u64 << n),
                1 => (0, (1u64 << n) + r.0.below(1u64 << n).min(1000)),
                2 => (0, u64::MAX),
                _ => (1, r.0.below(maxv + 1)),
            }
        };
        let bad_scalar = scalar_of(hi, lo);
        let mut scal: Vec<Fr> = vals.iter().map(|v| C::scalar_from_u64(*v)).collect();
        scal[who] = bad_scalar;
        let mut coms2 = coms.clone();
        coms2[who] = commit(&key, &bad_scalar, &rands[who]);
        let pr = if hi == 0 && r.0.chance(1, 2) {
            let mut v2 = vals.clone();
            v2[who] = lo;
            j.sh.hit("false.range.via_prove");
            catch(|| with_tr!(tk, &dom, |t| range_proof::prove(ver, &mut t, r, n, m, &v2, &gens, &key, &rands)))
        } else {
            j.sh.hit("false.range.via_prove_given_scalars");
            catch(|| with_tr!(tk, &dom, |t| range_proof::prove_given_scalars(ver, &mut t, r, n, m, &scal, &gens, &key, &rands)))
        };
        let what = format!("false:{}*2^64+{}@{}", hi, lo, who);
        match pr {
            Ok(Some(p2)) => {
                j.sh.hit("false.range.prover_output");
                let b2 = to_bytes(&p2);
                let res = verify_range(tk, &dom, ver, n, &coms2, &p2, &gens, &key);
                j.must_reject("range", "false_statement", res, || {
                    let (s, mut c) = mk(&what, &b2);
                    c["false_value"] = json!({"index": who, "hi": hi, "lo": lo});
                    c["commitments_hex"] = json!(coms2.iter().map(|c| hex(&to_bytes(c))).collect::<Vec<_>>());
                    (s, c)
                });
                // the honest proof must not verify for the out-of-range commitment either
                let res = verify_range(tk, &dom, ver, n, &coms2, &proof, &gens, &key);
                j.must_reject("range", "false_statement_honest_proof", res, || mk(&format!("honest-proof-vs-{}", what), &pb));
            }
            Ok(None) | Err(_) => {
                j.sh.evaluations += 1;
                j.sh.hit("reject.expected");
                j.sh.hit("false.range.prover_refused");
            }
        }
    }
    j.sh.nontrivial(fnv(format!("range:{}:{:016x}", base_sig, fnv(&pb)).as_bytes()));
    j.sh.sample(|| desc(vmon_core::hex_short(&pb, 120)));
}

/// Observation only: widths that are not powers of two (undocumented).
fn nonpow2_observation(sh: &mut Shard, r: &mut CRng) {
    let n = *r.0.pick(&[3u8, 7, 31, 33, 63]);
    let gens = mk_gens(r, n as usize);
    let key = CommitmentKey::<C>::generate(r);
    let v = r.0.below(1u64 << n.min(62));
    let rd = Randomness::<C>::generate(r);
    let pr = catch(|| {
        let mut t = v1(b"obs");
        range_proof::prove(ProofVersion::Version2, &mut t, r, n, 1, &[v], &gens, &key, std::slice::from_ref(&rd))
    });
    match pr {
        Ok(None) => sh.hit("observe.nonpow2.prover_none"),
        Ok(Some(p)) => {
            let com = commit(&key, &C::scalar_from_u64(v), &rd);
            let res = catch(|| {
                let mut t = v1(b"obs");
                range_proof::verify_efficient(ProofVersion::Version2, &mut t, n, &[com], &p, &gens, &key).is_ok()
            });
            sh.hit(match res {
                Ok(true) => "observe.nonpow2.proof_verifies",
                Ok(false) => "observe.nonpow2.proof_fails",
                Err(_) => "observe.nonpow2.verifier_panic",
            })
        }
        Err(_) => sh.hit("observe.nonpow2.prover_panic"),
    }
}

// ------------------------------------------------------------------ derived statements

fn leq_case(ctx: &ChildCtx, sh: &mut Shard, idx: u64, r: &mut CRng) {
    let n = *r.0.pick(&NS);
    let maxv: u64 = if n == 64 { u64::MAX } else { (1u64 << n) - 1 };
    let tk = if r.0.chance(1, 2) { TrKind::Legacy } else { TrKind::V1 };
    let dom = r.rand_bytes(8);
    let rnd = |r: &mut CRng| if maxv == u64::MAX { r.0.next() } else { r.0.below(maxv + 1) };
    // boundary plan, cycled by case index
    let plan = (idx / 8 + ctx.shard as u64) % 6;
    let (a, b, label): (u64, u64, &str) = match plan {
        0 => {
            let a = rnd(r);
            (a, a, "a=b")
        }
        1 => (0, maxv, "a=0,b=max"),
        2 => {
            let x = rnd(r);
            let y = rnd(r);
            (x.min(y), x.max(y), "a<=b")
        }
        3 => {
            // a = b + 1
            let b = rnd(r).min(maxv - 1.min(maxv));
            if b < maxv {
                (b + 1, b, "a=b+1")
            } else {
                (maxv, 0, "a=max,b=0")
            }
        }
        4 => {
            let x = rnd(r);
            let y = rnd(r);
            if x == y {
                (maxv, 0, "a=max,b=0")
            } else {
                (x.max(y), x.min(y), "a>b")
            }
        }
        _ => (maxv, maxv, "a=b=max"),
    };
    if maxv == 0 && a > b {
        return;
    }
    let truth = a <= b;
    let gens = mk_gens(r, 2 * n as usize);
    let key = CommitmentKey::<C>::generate(r);
    let ra = Randomness::<C>::generate(r);
    let rb = Randomness::<C>::generate(r);
    let ca = commit(&key, &C::scalar_from_u64(a), &ra);
    let cb = commit(&key, &C::scalar_from_u64(b), &rb);
    let desc = |ph: String| json!({"family":"leq","n":n,"a":a,"b":b,"transcript":tk.name(),"domain_hex":hex(&dom),"commitment_key_hex":hex(&to_bytes(&key)),"commitment_a_hex":hex(&to_bytes(&ca)),"commitment_b_hex":hex(&to_bytes(&cb)),"proof_hex":ph});
    let base_sig = format!("n{}:a{}:b{}:{}", n, a, b, tk.name());
    let verify = |ca: &Commitment<C>, cb: &Commitment<C>, p: &RangeProof<C>, n: u8, dom: &[u8], gens: &Generators<C>| catch(|| with_tr!(tk, dom, |t| range_proof::verify_less_than_or_equal(&mut t, n, ca, cb, p, gens, &key)));
    let mut j = J { sh, idx, replay: ctx.replaying() };
    j.sh.hit(&format!("leq.plan.{}", label));
    let pr = catch(|| with_tr!(tk, &dom, |t| range_proof::prove_less_than_or_equal(&mut t, r, n, a, b, &gens, &key, &ra, &rb)));
    if truth {
        let proof = match pr {
            Ok(Some(p)) => p,
            Ok(None) => {
                j.must_accept("leq", Ok(false), || (format!("{}:prover-none", base_sig), desc(String::new())));
                return;
            }
            Err(e) => {
                j.must_accept("leq", Err(e), || (format!("{}:prover-panic", base_sig), desc(String::new())));
                return;
            }
        };
        let pb = to_bytes(&proof);
        let res = verify(&ca, &cb, &proof, n, &dom, &gens);
        if !j.must_accept("leq", res, || (format!("{}:{:016x}", base_sig, fnv(&pb)), desc(hex(&pb)))) {
            return;
        }
        j.sh.hit("boundary.leq.true");
        let mk = |what: &str, b: &[u8]| (format!("{}:{}:{:016x}", base_sig, what, fnv(b)), desc(hex(b)));
        if a != b {
            let res = verify(&cb, &ca, &proof, n, &dom, &gens);
            j.must_reject("leq", "commitments_swapped", res, || mk("swapped", &pb));
        }
        // b replaced by a - 1 (false statement) when a > 0: commitment to a-1 with rb
        if a > 0 {
            let cb2 = commit(&key, &C::scalar_from_u64(a - 1), &rb);
            let res = verify(&ca, &cb2, &proof, n, &dom, &gens);
            j.must_reject("leq", "b=a-1", res, || mk("b=a-1", &pb));
        }
        let ca2 = Commitment(ca.0.plus_point(&key.g));
        let res = verify(&ca2, &cb, &proof, n, &dom, &gens);
        j.must_reject("leq", "commitment_a", res, || mk("commitment_a", &pb));
        let cb2 = Commitment(cb.0.plus_point(&key.g));
        let res = verify(&ca, &cb2, &proof, n, &dom, &gens);
        j.must_reject("leq", "commitment_b", res, || mk("commitment_b", &pb));
        let mut d2 = dom.clone();
        d2.push(1);
        let res = verify(&ca, &cb, &proof, n, &d2, &gens);
        j.must_reject("leq", "transcript.domain", res, || mk("domain", &pb));
        if n > 1 {
            let res = verify(&ca, &cb, &proof, n / 2, &dom, &gens);
            j.must_reject("leq", "n", res, || mk("n/2", &pb));
        }
        // a few proof components (all of them are covered by the range family)
        let perts = proof_perturbations(&pb);
        for _ in 0..4 {
            let (name, b2) = r.0.pick(&perts).clone();
            if let Some(p2) = deser::<RangeProof<C>>(&b2) {
                let res = verify(&ca, &cb, &p2, n, &dom, &gens);
                j.must_reject("leq", "proof_component", res, || mk(&name, &b2));
            }
        }
        // the SAME commitment object as both arguments: a true statement (a <= a) with its honest proof ...
        let pr_same = catch(|| with_tr!(tk, &dom, |t| range_proof::prove_less_than_or_equal(&mut t, r, n, a, a, &gens, &key, &ra, &ra)));
        if let Ok(Some(ps)) = pr_same {
            let psb = to_bytes(&ps);
            let res = verify(&ca, &ca, &ps, n, &dom, &gens);
            j.must_accept("leq_same_commitment", res, || (format!("{}:same:{:016x}", base_sig, fnv(&psb)), desc(hex(&psb))));
            // ... but a commitment to a value outside [0, 2^n) given as both arguments must still be checked
            let out_scalar = if n == 64 { scalar_of(1, r.0.below(1000)) } else { scalar_of(0, (1u64 << n) + r.0.below(1u64 << n).min(1000)) };
            let c_out = commit(&key, &out_scalar, &ra);
            let res = verify(&c_out, &c_out, &ps, n, &dom, &gens);
            j.must_reject("leq", "same_commitment_out_of_range", res, || mk("same-commitment-out-of-range(proof for a<=a)", &psb));
            let res = verify(&c_out, &c_out, &proof, n, &dom, &gens);
            j.must_reject("leq", "same_commitment_out_of_range", res, || mk("same-commitment-out-of-range(proof for a<=b)", &pb));
        }
        j.sh.nontrivial(fnv(format!("leq:{}:{:016x}", base_sig, fnv(&pb)).as_bytes()));
    } else {
        j.sh.hit("boundary.leq.false");
        match pr {
            Ok(Some(p)) => {
                j.sh.hit("false.leq.prover_output");
                let pb = to_bytes(&p);
                let res = verify(&ca, &cb, &p, n, &dom, &gens);
                j.must_reject("leq", "false_statement", res, || (format!("{}:false:{:016x}", base_sig, fnv(&pb)), desc(hex(&pb))));
            }
            Ok(None) | Err(_) => {
                j.sh.evaluations += 1;
                j.sh.hit("reject.expected");
                j.sh.hit("false.leq.prover_refused");
            }
        }
        // an honest proof of the swapped (true) statement must not verify for (a, b)
        let pr2 = catch(|| with_tr!(tk, &dom, |t| range_proof::prove_less_than_or_equal(&mut t, r, n, b, a, &gens, &key, &rb, &ra)));
        if let Ok(Some(p)) = pr2 {
            let pb = to_bytes(&p);
            let res = verify(&ca, &cb, &p, n, &dom, &gens);
            j.must_reject("leq", "false_statement_spliced", res, || (format!("{}:spliced:{:016x}", base_sig, fnv(&pb)), desc(hex(&pb))));
        }
    }
}

fn in_range_case(ctx: &ChildCtx, sh: &mut Shard, idx: u64, r: &mut CRng) {
    let ver = if r.0.chance(1, 2) { ProofVersion::Version1 } else { ProofVersion::Version2 };
    let tk = if r.0.chance(1, 2) { TrKind::Legacy } else { TrKind::V1 };
    let dom = r.rand_bytes(8);
    let plan = (idx / 8 + ctx.shard as u64) % 8;
    // a < b unless stated
    let x = r.0.u64v();
    let y = r.0.u64v();
    let (lo, hi) = if x == y { (x.min(u64::MAX - 2), x.min(u64::MAX - 2) + 2) } else { (x.min(y), x.max(y)) };
    let (a, b, v, label): (u64, u64, u64, &str) = match plan {
        0 => (lo, hi, lo, "v=a"),
        1 => (lo, hi, hi - 1, "v=b-1"),
        2 => (lo, hi, hi, "v=b"),
        3 => {
            if lo > 0 {
                (lo, hi, lo - 1, "v=a-1")
            } else {
                (1, hi.max(2), 0, "v=a-1")
            }
        }
        4 => (lo, lo, lo, "a=b=v"),
        5 => (lo, hi, lo + r.0.below(hi - lo), "inside"),
        6 => {
            // outside, anywhere
            let v = r.0.next();
            if v >= lo && v < hi {
                (lo, hi, hi, "v=b")
            } else {
                (lo, hi, v, "outside")
            }
        }
        _ => (0, u64::MAX, r.0.u64v().min(u64::MAX - 1), "full-range"),
    };
    let truth = a <= v && v < b;
    let gens = mk_gens(r, 128);
    let key = CommitmentKey::<C>::generate(r);
    let rd = Randomness::<C>::generate(r);
    let sv = C::scalar_from_u64(v);
    let sa = C::scalar_from_u64(a);
    let sb = C::scalar_from_u64(b);
    let com = commit(&key, &sv, &rd);
    let desc = |ph: String| json!({"family":"in_range","a":a,"b":b,"v":v,"version":vname(ver),"transcript":tk.name(),"domain_hex":hex(&dom),"commitment_key_hex":hex(&to_bytes(&key)),"commitment_hex":hex(&to_bytes(&com)),"proof_hex":ph});
    let base_sig = format!("a{}:b{}:v{}:{}:{}", a, b, v, vname(ver), tk.name());
    let verify = |a: &Fr, b: &Fr, c: &Commitment<C>, p: &RangeProof<C>, dom: &[u8], ver: ProofVersion| catch(|| with_tr!(tk, dom, |t| range_proof::verify_in_range(ver, &mut t, &key, &gens, *a, *b, c, p).is_ok()));
    let mut j = J { sh, idx, replay: ctx.replaying() };
    j.sh.hit(&format!("in_range.plan.{}", label));
    let pr = catch(|| with_tr!(tk, &dom, |t| range_proof::prove_in_range(ver, &mut t, r, &gens, &key, sv, sa, sb, &rd)));
    if truth {
        let proof = match pr {
            Ok(Some(p)) => p,
            Ok(None) => {
                j.must_accept("in_range", Ok(false), || (format!("{}:prover-none", base_sig), desc(String::new())));
                return;
            }
            Err(e) => {
                j.must_accept("in_range", Err(e), || (format!("{}:prover-panic", base_sig), desc(String::new())));
                return;
            }
        };
        let pb = to_bytes(&proof);
        let res = verify(&sa, &sb, &com, &proof, &dom, ver);
        if !j.must_accept("in_range", res, || (format!("{}:{:016x}", base_sig, fnv(&pb)), desc(hex(&pb)))) {
            return;
        }
        j.sh.hit("boundary.in_range.true");
        let mk = |what: &str, b: &[u8]| (format!("{}:{}:{:016x}", base_sig, what, fnv(b)), desc(hex(b)));
        // bounds moved so that the statement becomes false
        if v < u64::MAX {
            let res = verify(&C::scalar_from_u64(v + 1), &sb, &com, &proof, &dom, ver);
            j.must_reject("in_range", "a=v+1", res, || mk("a=v+1", &pb));
        }
        let res = verify(&sa, &sv, &com, &proof, &dom, ver);
        j.must_reject("in_range", "b=v", res, || mk("b=v", &pb));
        // bounds moved with the statement still true: a different statement than the one proved
        if b < u64::MAX {
            let res = verify(&sa, &C::scalar_from_u64(b + 1), &com, &proof, &dom, ver);
            j.must_reject("in_range", "b+1", res, || mk("b+1", &pb));
        }
        // equal bounds (empty range) around the value, with a proof made for another statement
        let res = verify(&sv, &sv, &com, &proof, &dom, ver);
        j.must_reject("in_range", "equal_bounds", res, || mk("a=b=v", &pb));
        let res = verify(&sa, &sa, &com, &proof, &dom, ver);
        j.must_reject("in_range", "equal_bounds", res, || mk("b=a", &pb));
        let c2 = Commitment(com.0.plus_point(&key.g));
        let res = verify(&sa, &sb, &c2, &proof, &dom, ver);
        j.must_reject("in_range", "commitment", res, || mk("commitment", &pb));
        let mut d2 = dom.clone();
        d2.push(1);
        let res = verify(&sa, &sb, &com, &proof, &d2, ver);
        j.must_reject("in_range", "transcript.domain", res, || mk("domain", &pb));
        let res = verify(&sa, &sb, &com, &proof, &dom, other_version(ver));
        j.must_reject("in_range", "version", res, || mk("version", &pb));
        let perts = proof_perturbations(&pb);
        for _ in 0..3 {
            let (name, b2) = r.0.pick(&perts).clone();
            if let Some(p2) = deser::<RangeProof<C>>(&b2) {
                let res = verify(&sa, &sb, &com, &p2, &dom, ver);
                j.must_reject("in_range", "proof_component", res, || mk(&name, &b2));
            }
        }
        j.sh.nontrivial(fnv(format!("in_range:{}:{:016x}", base_sig, fnv(&pb)).as_bytes()));
        j.sh.sample(|| desc(vmon_core::hex_short(&pb, 120)));
    } else {
        j.sh.hit("boundary.in_range.false");
        match pr {
            Ok(Some(p)) => {
                j.sh.hit("false.in_range.prover_output");
                let pb = to_bytes(&p);
                let res = verify(&sa, &sb, &com, &p, &dom, ver);
                j.must_reject("in_range", "false_statement", res, || (format!("{}:false:{:016x}", base_sig, fnv(&pb)), desc(hex(&pb))));
            }
            Ok(None) | Err(_) => {
                j.sh.evaluations += 1;
                j.sh.hit("reject.expected");
                j.sh.hit("false.in_range.prover_refused");
            }
        }
    }
}

// ------------------------------------------------------------------ sets

#[derive(Clone, Copy, PartialEq, Eq)]
enum SetKind {
    Member,
    NonMember,
}

fn set_case(ctx: &ChildCtx, sh: &mut Shard, idx: u64, r: &mut CRng, kind: SetKind) {
    let fam = if kind == SetKind::Member { "set_member" } else { "set_nonmember" };
    let size = SET_SIZES[((idx / 4) as usize + ctx.shard as usize * 4) % SET_SIZES.len()];
    let ver = if r.0.chance(1, 2) { ProofVersion::Version1 } else { ProofVersion::Version2 };
    let tk = if r.0.chance(1, 2) { TrKind::Legacy } else { TrKind::V1 };
    let dom = r.rand_bytes(8);
    // distinct elements; small consecutive-ish values or arbitrary scalars
    let small = r.0.chance(1, 2);
    let mut elems: Vec<(u64, u64)> = vec![]; // (hi, lo)
    while elems.len() < size {
        let e = if small { (0, 2 * r.0.below(200)) } else { (r.0.below(4), r.0.next() & !1) };
        if !elems.contains(&e) {
            elems.push(e);
        }
    }
    // all elements are even; odd neighbours are therefore absent
    let plan = (idx / 8 + ctx.shard as u64 / 3) % 6;
    let (v, label, truth_member): ((u64, u64), &str, bool) = match plan {
        0 => (elems[0], "first", true),
        5 => (elems[r.0.below(size as u64) as usize], "twice", true),
        1 => (elems[size - 1], "last", true),
        2 => (elems[r.0.below(size as u64) as usize], "some", true),
        3 => {
            let e = elems[r.0.below(size as u64) as usize];
            ((e.0, e.1 | 1), "adjacent", false)
        }
        _ => ((5, r.0.next() | 1), "absent", false),
    };
    // a multiset now and then (documented as supported for membership)
    let mut elems2 = elems.clone();
    if size >= 2 && r.0.chance(1, 6) {
        let d = elems2[0];
        let at = 1 + r.0.below(size as u64 - 1) as usize;
        if elems2[at] != v || d == v {
            // keep the ground truth: only overwrite an element that is not the chosen member
            elems2[at] = d;
        }
    }
    if label == "twice" && size >= 2 {
        // the value occurs twice in the (multi)set
        let first = elems2.iter().position(|e| *e == v).unwrap();
        let other = (first + 1 + r.0.below(size as u64 - 1) as usize) % size;
        elems2[other] = v;
    }
    let truth_member = truth_member && elems2.contains(&v);
    let truth = if kind == SetKind::Member { truth_member } else { !elems2.contains(&v) };
    if kind == SetKind::Member && truth {
        // the value occurs more than once in the padded vector the proof works on
        let occurrences = elems2.iter().filter(|e| **e == v).count();
        if occurrences >= 2 {
            sh.hit(&format!("set_member.member_twice.{}", vname(ver)));
        }
        if !size.is_power_of_two() && elems2[size - 1] == v {
            sh.hit(&format!("set_member.last_repeated_by_padding.{}", vname(ver)));
        }
    }
    let set: Vec<Fr> = elems2.iter().map(|(h, l)| scalar_of(*h, *l)).collect();
    let sv = scalar_of(v.0, v.1);
    let k = size.next_power_of_two();
    let gens = mk_gens(r, k);
    let key = CommitmentKey::<C>::generate(r);
    let rd = Randomness::<C>::generate(r);
    let com = commit(&key, &sv, &rd);
    let desc = |ph: String| {
        json!({"family":fam,"set_size":size,"set_hex":set.iter().map(fr_hex).collect::<Vec<_>>(),"v_hex":fr_hex(&sv),"position":label,"version":vname(ver),"transcript":tk.name(),
               "domain_hex":hex(&dom),"commitment_key_hex":hex(&to_bytes(&key)),"commitment_hex":hex(&to_bytes(&com)),"generators_fnv":format!("{:016x}", fnv(&to_bytes(&gens))),"proof_hex":ph})
    };
    let base_sig = format!("{}:{}:{}:{}:{:016x}:{}", size, label, vname(ver), tk.name(), fnv(&to_bytes(&set)), fr_hex(&sv));
    // prove, returning serialized proof
    let prove = |r: &mut CRng| -> Result<Option<Vec<u8>>, String> {
        catch(|| {
            with_tr!(tk, &dom, |t| match kind {
                SetKind::Member => smp::prove(ver, &mut t, r, &set, sv, &gens, &key, &rd).ok().map(|p| to_bytes(&p)),
                SetKind::NonMember => snmp::prove(ver, &mut t, r, &set, sv, &gens, &key, &rd).ok().map(|p| to_bytes(&p)),
            })
        })
    };
    // verify from serialized proof; None = does not deserialize
    let verify = |pb: &[u8], set: &[Fr], com: &Commitment<C>, dom: &[u8], ver: ProofVersion, gens: &Generators<C>, key: &CommitmentKey<C>, tk: TrKind| -> Option<Result<bool, String>> {
        match kind {
            SetKind::Member => {
                let p = deser::<SetMembershipProof<C>>(pb)?;
                Some(catch(|| with_tr!(tk, dom, |t| smp::verify(ver, &mut t, set, com, &p, gens, key).is_ok())))
            }
            SetKind::NonMember => {
                let p = deser::<SetNonMembershipProof<C>>(pb)?;
                Some(catch(|| with_tr!(tk, dom, |t| snmp::verify(ver, &mut t, set, com, &p, gens, key).is_ok())))
            }
        }
    };
    let mut j = J { sh, idx, replay: ctx.replaying() };
    j.sh.hit(&format!("{}.size{}", fam, size));
    j.sh.hit(&format!("{}.position.{}", fam, label));
    let pr = prove(r);
    if truth {
        let pb = match pr {
            Ok(Some(p)) => p,
            Ok(None) => {
                j.must_accept(fam, Ok(false), || (format!("{}:prover-error", base_sig), desc(String::new())));
                return;
            }
            Err(e) => {
                j.must_accept(fam, Err(e), || (format!("{}:prover-panic", base_sig), desc(String::new())));
                return;
            }
        };
        let res = verify(&pb, &set, &com, &dom, ver, &gens, &key, tk).unwrap_or(Ok(false));
        if !j.must_accept(fam, res, || (format!("{}:{:016x}", base_sig, fnv(&pb)), desc(hex(&pb)))) {
            return;
        }
        j.sh.hit(&format!("boundary.{}.true", fam));
        let mk = |what: &str, b: &[u8]| (format!("{}:{}:{:016x}", base_sig, what, fnv(b)), desc(hex(b)));
        for (name, b2) in proof_perturbations(&pb) {
            match verify(&b2, &set, &com, &dom, ver, &gens, &key, tk) {
                None => {
                    j.sh.hit("reject.undeserializable");
                    j.must_reject(fam, field_class(&name), Ok(false), || mk(&name, &b2));
                }
                Some(res) => j.must_reject(fam, field_class(&name), res, || mk(&name, &b2)),
            }
        }
        let c2 = Commitment(com.0.plus_point(&key.g));
        let res = verify(&pb, &set, &c2, &dom, ver, &gens, &key, tk).unwrap();
        j.must_reject(fam, "commitment", res, || mk("commitment", &pb));
        // the set changed so that the statement becomes false
        let mut set2 = set.clone();
        let mut changed = false;
        match kind {
            SetKind::Member => {
                // every occurrence of v replaced by v+1 (odd, so absent)
                for s in set2.iter_mut() {
                    if *s == sv {
                        s.add_assign(&Fr::one());
                        changed = true;
                    }
                }
            }
            SetKind::NonMember => {
                let at = r.0.below(size as u64) as usize;
                set2[at] = sv;
                changed = true;
            }
        }
        if changed {
            let res = verify(&pb, &set2, &com, &dom, ver, &gens, &key, tk).unwrap();
            j.must_reject(fam, "set_makes_statement_false", res, || mk("set-changed", &pb));
        }
        // generators
        let i = r.0.below(k as u64) as usize;
        let mut g2 = gens.clone();
        g2.G_H[i].0 = g2.G_H[i].0.plus_point(&C::one_point());
        let res = verify(&pb, &set, &com, &dom, ver, &g2, &key, tk).unwrap();
        j.must_reject(fam, "gens.G_replaced", res, || mk(&format!("G[{}]", i), &pb));
        let mut g2 = gens.clone();
        g2.G_H[i].1 = g2.G_H[i].1.plus_point(&C::one_point());
        let res = verify(&pb, &set, &com, &dom, ver, &g2, &key, tk).unwrap();
        j.must_reject(fam, "gens.H_replaced", res, || mk(&format!("H[{}]", i), &pb));
        if k > 1 {
            let i2 = (i + 1 + r.0.below(k as u64 - 1) as usize) % k;
            let mut g2 = gens.clone();
            g2.G_H.swap(i, i2);
            let res = verify(&pb, &set, &com, &dom, ver, &g2, &key, tk).unwrap();
            j.must_reject(fam, "gens.permuted", res, || mk(&format!("swap[{},{}]", i, i2), &pb));
        }
        let k2 = CommitmentKey { g: key.g.plus_point(&C::one_point()), h: key.h };
        let res = verify(&pb, &set, &com, &dom, ver, &gens, &k2, tk).unwrap();
        j.must_reject(fam, "key.g", res, || mk("key.g", &pb));
        let k2 = CommitmentKey { g: key.g, h: key.h.plus_point(&C::one_point()) };
        let res = verify(&pb, &set, &com, &dom, ver, &gens, &k2, tk).unwrap();
        j.must_reject(fam, "key.h", res, || mk("key.h", &pb));
        // transcript
        let mut d2 = dom.clone();
        d2.push(0x41);
        let res = verify(&pb, &set, &com, &d2, ver, &gens, &key, tk).unwrap();
        j.must_reject(fam, "transcript.domain", res, || mk("domain", &pb));
        let tk2 = if tk == TrKind::Legacy { TrKind::V1 } else { TrKind::Legacy };
        let res = verify(&pb, &set, &com, &dom, ver, &gens, &key, tk2).unwrap();
        j.must_reject(fam, "transcript.kind", res, || mk("other-transcript-kind", &pb));
        let res = verify(&pb, &set, &com, &dom, other_version(ver), &gens, &key, tk).unwrap();
        j.must_reject(fam, "version", res, || mk("other-version", &pb));
        j.sh.nontrivial(fnv(format!("{}:{}:{:016x}", fam, base_sig, fnv(&pb)).as_bytes()));
        j.sh.sample(|| desc(vmon_core::hex_short(&pb, 120)));
    } else {
        j.sh.hit(&format!("boundary.{}.false", fam));
        match pr {
            Ok(Some(pb)) => {
                j.sh.hit(&format!("false.{}.prover_output", fam));
                let res = verify(&pb, &set, &com, &dom, ver, &gens, &key, tk).unwrap_or(Ok(false));
                j.must_reject(fam, "false_statement", res, || (format!("{}:false:{:016x}", base_sig, fnv(&pb)), desc(hex(&pb))));
            }
            Ok(None) | Err(_) => {
                j.sh.evaluations += 1;
                j.sh.hit("reject.expected");
                j.sh.hit(&format!("false.{}.prover_refused", fam));
            }
        }
        // splice: an honest proof for a value that makes the statement true,
        // checked against the commitment of the false value
        let v_true = match kind {
            SetKind::Member => set[r.0.below(size as u64) as usize],
            SetKind::NonMember => scalar_of(6, r.0.next() | 1),
        };
        let com_true = commit(&key, &v_true, &rd);
        let pr = catch(|| {
            with_tr!(tk, &dom, |t| match kind {
                SetKind::Member => smp::prove(ver, &mut t, r, &set, v_true, &gens, &key, &rd).ok().map(|p| to_bytes(&p)),
                SetKind::NonMember => snmp::prove(ver, &mut t, r, &set, v_true, &gens, &key, &rd).ok().map(|p| to_bytes(&p)),
            })
        });
        if let Ok(Some(pb)) = pr {
            let ok = verify(&pb, &set, &com_true, &dom, ver, &gens, &key, tk).unwrap_or(Ok(false));
            if j.must_accept(fam, ok, || (format!("{}:splice-base:{:016x}", base_sig, fnv(&pb)), desc(hex(&pb)))) {
                let res = verify(&pb, &set, &com, &dom, ver, &gens, &key, tk).unwrap_or(Ok(false));
                j.must_reject(fam, "false_statement_spliced", res, || (format!("{}:spliced:{:016x}", base_sig, fnv(&pb)), desc(hex(&pb))));
            }
        }
    }
}

pub fn run(ctx: &ChildCtx, sh: &mut Shard) {
    for idx in ctx.indices() {
        ctx.begin_case(idx);
        let mut r = CRng(ctx.case_rng(idx));
        match idx % 8 {
            0 | 4 => range_case(ctx, sh, idx, &mut r),
            1 => leq_case(ctx, sh, idx, &mut r),
            5 => in_range_case(ctx, sh, idx, &mut r),
            2 | 6 => set_case(ctx, sh, idx, &mut r, SetKind::Member),
            _ => set_case(ctx, sh, idx, &mut r, SetKind::NonMember),
        }
        if idx % 16 == 9 {
            nonpow2_observation(sh, &mut r);
        }
    }
}
