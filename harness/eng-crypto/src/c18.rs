//! C18: attribute statement proofs (id_prover / id_verifier) and web3id (v0)
//! presentations verify exactly true statements.
//!
//! D (deliberately not demanded):
//! * Range statements are proved with a 64-bit bulletproof on `value - lower`
//!   and `value + 2^64 - upper` (range_proof::prove_in_range, "for sufficiently
//!   large n (here n = 64)"). A true statement whose bounds are further than
//!   2^64 from the value in the field encoding (e.g. strings of different
//!   lengths) is run for observation only (`observe.range.big_gap.*`).
//! * `AttributeNotInSet` with the empty set is true but the set proofs do not
//!   document the empty set (the prover fails): observation only.
//! * Ground truth is evaluated on the field encodings (String: length byte then
//!   right aligned bytes; Numeric: the integer); `String("")` and `Numeric(0)`
//!   share an encoding and are never mixed in one set.
//! * web3id account credentials: `created`, `issuer`, `network` and `cred_id` of
//!   `CredentialProof::Account` are documented as metadata that `verify` does
//!   not check ("only verifies the cryptographic consistency ... returns the
//!   Request for which the presentation verifies"); for those the oracle is
//!   "verification fails OR the returned request differs from the original".
//! * `Web3IdAttribute::Timestamp` values are not generated (same embedding as
//!   Numeric). web3id v1, identity_attributes_credentials and the anchored
//!   verification flow are monitored in c18v1.rs (cases idx%8 in {6,7}).
//! * `StatementWithContext::prove` draws randomness from thread_rng() inside
//!   the library; web3id uses `prove_with_rng` with the case PRNG.
//! * Soundness beyond the library prover (DESIGN.md section 7).
use crate::common::*;
use concordium_base::{
    base::CredentialRegistrationID,
    common::to_bytes,
    contracts_common::ContractAddress,
    curve_arithmetic::Curve,
    id::{
        constants::{ArCurve, AttributeKind},
        id_proof_types::*,
        types::{Attribute, AttributeTag, CredentialDeploymentCommitments, GlobalContext, IpIdentity},
    },
    pedersen_commitment::{Commitment, Randomness, Value as PValue},
    web3id::{did::Network, Challenge, CommitmentInputs, CredentialHolderId, CredentialProof, CredentialStatement, CredentialsInputs, Presentation, Request, SignedCommitments, Web3IdAttribute},
};
use num_bigint::BigUint;
use std::{
    collections::{BTreeMap, BTreeSet},
    marker::PhantomData,
    sync::OnceLock,
};
use vmon_core::{catch, fnv, json, ChildCtx, Shard, Value};

type G1 = ArCurve;
type Fr = <G1 as Curve>::Scalar;
pub(crate) type Attr = Web3IdAttribute;

pub(crate) fn global() -> &'static GlobalContext<ArCurve> {
    static G: OnceLock<GlobalContext<ArCurve>> = OnceLock::new();
    G.get_or_init(|| GlobalContext::generate(String::from("vmon_genesis_string")))
}
pub(crate) fn other_global() -> &'static GlobalContext<ArCurve> {
    static G: OnceLock<GlobalContext<ArCurve>> = OnceLock::new();
    G.get_or_init(|| GlobalContext::generate(String::from("another_genesis_string")))
}

// ---------------------------------------------------------------- ground truth model

/// documented embedding: String = length byte (most significant) followed by
/// the bytes right aligned in 31 bytes; Numeric = the integer
pub(crate) fn enc(a: &Attr) -> BigUint {
    match a {
        Attr::String(s) => {
            let b = s.as_ref().as_bytes();
            (BigUint::from(b.len()) << 248) | BigUint::from_bytes_be(b)
        }
        Attr::Numeric(n) => BigUint::from(*n),
        Attr::Timestamp(t) => BigUint::from(t.timestamp_millis()),
    }
}

fn two64() -> BigUint { BigUint::from(1u8) << 64 }

#[derive(Clone, Copy, PartialEq, Eq, Debug)]
pub(crate) enum Truth {
    True,
    False,
    /// true but outside what the library documents as provable
    TrueNotDemanded,
}

pub(crate) fn truth<T: Clone + Ord + concordium_base::common::Serialize>(st: &AtomicStatement<G1, T, Attr>, attrs: &BTreeMap<T, Attr>) -> Truth {
    let v = match attrs.get(&match st {
        AtomicStatement::RevealAttribute { statement } => statement.attribute_tag.clone(),
        AtomicStatement::AttributeInRange { statement } => statement.attribute_tag.clone(),
        AtomicStatement::AttributeInSet { statement } => statement.attribute_tag.clone(),
        AtomicStatement::AttributeNotInSet { statement } => statement.attribute_tag.clone(),
    }) {
        Some(v) => v,
        None => return Truth::False,
    };
    let e = enc(v);
    match st {
        AtomicStatement::RevealAttribute { .. } => Truth::True,
        AtomicStatement::AttributeInRange { statement } => {
            let (lo, hi) = (enc(&statement.lower), enc(&statement.upper));
            if lo <= e && e < hi {
                if &e - &lo < two64() && &hi - &e <= two64() {
                    Truth::True
                } else {
                    Truth::TrueNotDemanded
                }
            } else {
                Truth::False
            }
        }
        AtomicStatement::AttributeInSet { statement } => {
            if statement.set.iter().any(|x| enc(x) == e) {
                Truth::True
            } else {
                Truth::False
            }
        }
        AtomicStatement::AttributeNotInSet { statement } => {
            if statement.set.iter().any(|x| enc(x) == e) {
                Truth::False
            } else if statement.set.is_empty() {
                Truth::TrueNotDemanded
            } else {
                Truth::True
            }
        }
    }
}

// ---------------------------------------------------------------- generators

const CH: &[u8] = b"0123456789ABCXYZabcxyz -";

pub(crate) fn gen_string(r: &mut CRng, len: usize) -> Attr {
    let s: String = (0..len).map(|_| *r.0.pick(CH) as char).collect();
    Attr::String(AttributeKind::try_new(s).expect("<= 31"))
}

pub(crate) fn gen_attr(r: &mut CRng) -> Attr {
    match r.0.below(6) {
        0 => Attr::Numeric(r.0.u64v()),
        1 => Attr::Numeric(r.0.below(1000)),
        2 => gen_string(r, 8),
        3 => gen_string(r, 2),
        4 => gen_string(r, 31),
        _ => {
            let l = 1 + r.0.below(31) as usize;
            gen_string(r, l)
        }
    }
}

/// the attribute whose encoding is enc(v) + d (d = +1 / -1), same kind and length, if representable
pub(crate) fn neighbour(v: &Attr, up: bool) -> Option<Attr> {
    match v {
        Attr::Numeric(n) => if up { n.checked_add(1) } else { n.checked_sub(1) }.map(Attr::Numeric),
        Attr::String(s) => {
            let mut b = s.as_ref().as_bytes().to_vec();
            let last = b.last_mut()?;
            if up {
                if *last >= 0x7e {
                    return None;
                }
                *last += 1;
            } else {
                if *last <= 0x20 {
                    return None;
                }
                *last -= 1;
            }
            Some(Attr::String(AttributeKind::try_new(String::from_utf8(b).ok()?).ok()?))
        }
        Attr::Timestamp(_) => None,
    }
}

/// another attribute of the same kind (and length) as v, different from v
pub(crate) fn same_kind(r: &mut CRng, v: &Attr) -> Attr {
    for _ in 0..20 {
        let c = match v {
            Attr::Numeric(n) => Attr::Numeric(if r.0.chance(1, 2) { r.0.u64v() } else { n.wrapping_add(1 + r.0.below(50)) }),
            Attr::String(s) => gen_string(r, s.as_ref().len()),
            Attr::Timestamp(_) => Attr::Numeric(r.0.next()),
        };
        if enc(&c) != enc(v) {
            return c;
        }
    }
    Attr::Numeric(r.0.next())
}

/// (statement, label). `want_true`: Some(true/false) steers the ground truth.
pub(crate) fn gen_statement<T: Clone + Ord + concordium_base::common::Serialize>(r: &mut CRng, tag: &T, v: &Attr, want_true: bool) -> (AtomicStatement<G1, T, Attr>, &'static str) {
    let kind = r.0.below(if want_true { 4 } else { 3 });
    match kind {
        // range
        0 => {
            let up = neighbour(v, true);
            let down = neighbour(v, false);
            let (lower, upper, label): (Attr, Attr, &'static str) = if want_true {
                match (r.0.below(4), &up, &down) {
                    (0, Some(u), _) => (v.clone(), u.clone(), "range.lower=value,value=upper-1"),
                    (1, Some(u), Some(d)) => (d.clone(), u.clone(), "range.value=upper-1"),
                    (2, _, _) => {
                        // wide but within 2^64 of the value: vary the tail
                        let a = same_kind(r, v);
                        let b = same_kind(r, v);
                        let (lo, hi) = if enc(&a) <= enc(&b) { (a, b) } else { (b, a) };
                        if enc(&lo) <= enc(v) && enc(v) < enc(&hi) {
                            (lo, hi, "range.inside")
                        } else if let Some(u) = &up {
                            (v.clone(), u.clone(), "range.lower=value,value=upper-1")
                        } else {
                            (lo, hi, "range.random")
                        }
                    }
                    (_, Some(u), _) => (v.clone(), u.clone(), "range.lower=value,value=upper-1"),
                    _ => (v.clone(), same_kind(r, v), "range.random"),
                }
            } else {
                match (r.0.below(4), &up, &down) {
                    (0, _, Some(d)) => (d.clone(), v.clone(), "range.value=upper"),
                    (1, Some(u), _) => (u.clone(), same_kind(r, u), "range.value=lower-1"),
                    (2, _, _) => (v.clone(), v.clone(), "range.lower=upper=value"),
                    (_, _, Some(d)) => (d.clone(), v.clone(), "range.value=upper"),
                    _ => (v.clone(), v.clone(), "range.lower=upper=value"),
                }
            };
            (AtomicStatement::AttributeInRange { statement: AttributeInRangeStatement { attribute_tag: tag.clone(), lower, upper, _phantom: PhantomData } }, label)
        }
        // set membership
        1 => {
            let size = *r.0.pick(&[0usize, 1, 2, 3, 5, 8, 9]);
            let mut set = BTreeSet::new();
            let mut guard = 0;
            while set.len() < size && guard < 100 {
                guard += 1;
                set.insert(same_kind(r, v));
            }
            let label = if want_true {
                // replace one element (or add) by v
                if let Some(first) = set.iter().next().cloned() {
                    if r.0.chance(1, 2) {
                        set.remove(&first);
                    } else if let Some(last) = set.iter().next_back().cloned() {
                        set.remove(&last);
                    }
                }
                set.insert(v.clone());
                "in_set.member"
            } else if set.is_empty() {
                "in_set.empty_set"
            } else if r.0.chance(1, 2) {
                if let Some(nb) = neighbour(v, true) {
                    set.insert(nb);
                }
                "in_set.adjacent_absent"
            } else {
                "in_set.absent"
            };
            (AtomicStatement::AttributeInSet { statement: AttributeInSetStatement { attribute_tag: tag.clone(), set, _phantom: PhantomData } }, label)
        }
        // set non-membership
        2 => {
            let size = *r.0.pick(&[1usize, 1, 2, 3, 5, 8, 9, if want_true { 0 } else { 1 }]);
            let mut set = BTreeSet::new();
            let mut guard = 0;
            while set.len() < size && guard < 100 {
                guard += 1;
                set.insert(same_kind(r, v));
            }
            let label = if want_true {
                if r.0.chance(1, 2) {
                    if let Some(nb) = neighbour(v, false) {
                        set.insert(nb);
                    }
                    "not_in_set.adjacent_absent"
                } else {
                    "not_in_set.absent"
                }
            } else {
                set.insert(v.clone());
                "not_in_set.member"
            };
            (AtomicStatement::AttributeNotInSet { statement: AttributeNotInSetStatement { attribute_tag: tag.clone(), set, _phantom: PhantomData } }, label)
        }
        _ => (AtomicStatement::RevealAttribute { statement: RevealAttributeStatement { attribute_tag: tag.clone() } }, "reveal"),
    }
}

/// Alter a statement (any alteration; the statement proved and the statement checked then differ).
pub(crate) fn alter_statement<T: Clone + Ord + concordium_base::common::Serialize>(r: &mut CRng, st: &AtomicStatement<G1, T, Attr>, other_tag: Option<&T>) -> Option<(AtomicStatement<G1, T, Attr>, &'static str)> {
    let (s, w) = alter_statement_(r, st, other_tag)?;
    if to_bytes(&s) == to_bytes(st) {
        return None;
    }
    Some((s, w))
}

fn alter_statement_<T: Clone + Ord + concordium_base::common::Serialize>(r: &mut CRng, st: &AtomicStatement<G1, T, Attr>, other_tag: Option<&T>) -> Option<(AtomicStatement<G1, T, Attr>, &'static str)> {
    let mut s = st.clone();
    if let (Some(t), true) = (other_tag, r.0.chance(1, 3)) {
        match &mut s {
            AtomicStatement::RevealAttribute { statement } => statement.attribute_tag = t.clone(),
            AtomicStatement::AttributeInRange { statement } => statement.attribute_tag = t.clone(),
            AtomicStatement::AttributeInSet { statement } => statement.attribute_tag = t.clone(),
            AtomicStatement::AttributeNotInSet { statement } => statement.attribute_tag = t.clone(),
        }
        return Some((s, "statement.tag"));
    }
    match &mut s {
        AtomicStatement::RevealAttribute { .. } => None,
        AtomicStatement::AttributeInRange { statement } => {
            if r.0.chance(1, 2) {
                statement.upper = neighbour(&statement.upper, true).or_else(|| neighbour(&statement.upper, false))?;
                Some((s, "statement.range.upper"))
            } else {
                statement.lower = neighbour(&statement.lower, false).or_else(|| neighbour(&statement.lower, true))?;
                Some((s, "statement.range.lower"))
            }
        }
        AtomicStatement::AttributeInSet { statement } => {
            let x = statement.set.iter().next().cloned()?;
            statement.set.insert(same_kind(r, &x));
            Some((s, "statement.set.element_added"))
        }
        AtomicStatement::AttributeNotInSet { statement } => {
            let x = statement.set.iter().next().cloned()?;
            if statement.set.len() > 1 && r.0.chance(1, 2) {
                statement.set.remove(&x);
                Some((s, "statement.set.element_removed"))
            } else {
                statement.set.insert(same_kind(r, &x));
                Some((s, "statement.set.element_added"))
            }
        }
    }
}

fn stmt_json<T: serde::Serialize + concordium_base::common::Serialize>(s: &[AtomicStatement<G1, T, Attr>]) -> Value { serde_json::to_value(s).unwrap_or(json!("<unserializable>")) }

pub(crate) fn attrs_json<T: std::fmt::Debug>(a: &BTreeMap<T, Attr>) -> Value { json!(a.iter().map(|(k, v)| format!("{:?} = {}", k, v)).collect::<Vec<_>>()) }

// ---------------------------------------------------------------- part A: id statements

fn id_statement_case(ctx: &ChildCtx, sh: &mut Shard, idx: u64, r: &mut CRng) {
    let g = global();
    let n_attrs = 1 + r.0.below(5) as usize;
    let mut attrs: BTreeMap<AttributeTag, Attr> = BTreeMap::new();
    while attrs.len() < n_attrs {
        attrs.insert(AttributeTag(r.0.below(20) as u8), gen_attr(r));
    }
    let rands: BTreeMap<AttributeTag, Randomness<G1>> = attrs.keys().map(|t| (*t, Randomness::<G1>::generate(r))).collect();
    let cmms: BTreeMap<AttributeTag, Commitment<G1>> = attrs.iter().map(|(t, v)| (*t, g.on_chain_commitment_key.hide(&PValue::<G1>::new(v.to_field_element()), &rands[t]))).collect();
    // model self-check: the harness embedding equals the library's
    for v in attrs.values() {
        if BigUint::from_bytes_be(&to_bytes(&v.to_field_element())) != enc(v) {
            sh.inconclusive.push(format!("attribute embedding model disagrees with to_field_element for {}", v));
            return;
        }
    }
    let dummy = Commitment(G1::one_point());
    let commitments = CredentialDeploymentCommitments { cmm_prf: dummy, cmm_cred_counter: dummy, cmm_max_accounts: dummy, cmm_attributes: cmms.clone(), cmm_id_cred_sec_sharing_coeff: vec![dummy] };
    let cred = G1::generate(r);
    let version = if r.0.chance(1, 2) { ProofVersion::Version1 } else { ProofVersion::Version2 };
    let vname = if version == ProofVersion::Version1 { "V1" } else { "V2" };
    let challenge = r.rand_bytes(40);
    let all_true = (idx / 2 + ctx.shard as u64) % 3 != 0;
    let n_st = 1 + r.0.below(4) as usize;
    let false_at = r.0.below(n_st as u64) as usize;
    let tags: Vec<AttributeTag> = attrs.keys().copied().collect();
    let mut stmts = vec![];
    let mut labels = vec![];
    for i in 0..n_st {
        let t = *r.0.pick(&tags);
        let (s, l) = gen_statement(r, &t, &attrs[&t], all_true || i != false_at);
        stmts.push(s);
        labels.push(l);
    }
    let truths: Vec<Truth> = stmts.iter().map(|s| truth(s, &attrs)).collect();
    for (l, t) in labels.iter().zip(&truths) {
        sh.hit(&format!("id.statement.{}.{:?}", l, t));
    }
    let desc = |extra: Value| json!({"part": "id_statement", "version": vname, "challenge_hex": hex(&challenge), "attributes": attrs_json(&attrs), "statements": stmt_json(&stmts), "labels": labels, "ground_truth": truths.iter().map(|t| format!("{:?}", t)).collect::<Vec<_>>(), "detail": extra});
    let sig_base = format!("{}:{:016x}", vname, fnv(serde_json::to_string(&stmt_json(&stmts)).unwrap_or_default().as_bytes()) ^ fnv(format!("{:?}", attrs_json(&attrs)).as_bytes()));
    let swc = StatementWithContext { credential: cred, statement: Statement { statements: stmts.clone() } };
    let pr = catch(|| swc.prove(version, g, &challenge, &attrs, &rands));
    let any_false = truths.contains(&Truth::False);
    let any_nd = truths.contains(&Truth::TrueNotDemanded);
    sh.evaluations += 1;
    if any_false {
        sh.hit("reject.expected");
        sh.hit("id.false_statement_set");
        match pr {
            Ok(Some(p)) => {
                sh.hit("id.false.prover_output");
                if let Ok(true) = catch(|| swc.verify(version, &challenge, g, &commitments, &p)) {
                    sh.violate(idx, "accepted-false", format!("c18:id:false:{}", sig_base), "a statement set containing a false statement was proved by the library and verified".into(), desc(json!(null)));
                }
            }
            _ => sh.hit("id.false.prover_refused"),
        }
        return;
    }
    if any_nd {
        sh.hit(match &pr {
            Ok(Some(p)) => {
                if let Ok(true) = catch(|| swc.verify(version, &challenge, g, &commitments, p)) {
                    "observe.not_demanded.verified"
                } else {
                    "observe.not_demanded.proof_fails"
                }
            }
            _ => "observe.not_demanded.prover_refused",
        });
        return;
    }
    sh.hit("complete.id_statement_set");
    let proof = match pr {
        Ok(Some(p)) => p,
        other => {
            sh.violate(idx, "rejected-true", format!("c18:id:prove:{}", sig_base), format!("all statements true but the prover returned {:?}", other.map(|o| o.is_some())), desc(json!(null)));
            return;
        }
    };
    let ok = matches!(catch(|| swc.verify(version, &challenge, g, &commitments, &proof)), Ok(true)) && !planted("c18.accept");
    if !ok {
        sh.violate(idx, "rejected-true", format!("c18:id:verify:{}", sig_base), "all statements true, proof produced, verification failed".into(), desc(json!(null)));
        return;
    }
    // revealed values equal the committed ones
    for (s, p) in stmts.iter().zip(&proof.proofs) {
        if let (AtomicStatement::RevealAttribute { statement }, AtomicProof::RevealAttribute { attribute, .. }) = (s, p) {
            sh.evaluations += 1;
            sh.hit("id.revealed_value_checked");
            if attribute != &attrs[&statement.attribute_tag] {
                sh.violate(idx, "revealed-wrong-value", format!("c18:id:reveal:{}", sig_base), "the revealed attribute differs from the committed one".into(), desc(json!(null)));
            }
        }
    }
    // ---- perturbations
    let rej = |sh: &mut Shard, what: &str, res: Result<bool, String>| {
        sh.evaluations += 1;
        sh.hit("reject.expected");
        sh.hit(&format!("perturb.id.{}", what));
        let acc = match res {
            Ok(a) => a,
            Err(_) => {
                sh.hit(&format!("note.verifier_panic.id.{}", what));
                false
            }
        };
        if acc || (planted("c18.reject") && what == "challenge") {
            sh.violate(idx, "accepted-altered", format!("c18:id:accepted:{}:{}", what, sig_base), format!("verification succeeded although '{}' was altered", what), desc(json!({"altered": what})));
        }
    };
    // ProofVersion::Version1 range proofs run on their own transcript
    // ("attribute_range_proof") and are by construction not bound to the
    // challenge / credential / global context; Version2 fixed that. The context
    // is therefore only demanded to bind when some statement uses the shared transcript.
    let context_bound = version == ProofVersion::Version2 || stmts.iter().any(|s| !matches!(s, AtomicStatement::AttributeInRange { .. }));
    let mut c2 = challenge.clone();
    c2.push(0);
    let swc2 = StatementWithContext { credential: cred.plus_point(&G1::one_point()), statement: Statement { statements: stmts.clone() } };
    if context_bound {
        rej(sh, "challenge", catch(|| swc.verify(version, &c2, g, &commitments, &proof)));
        if !challenge.is_empty() {
            let mut c3 = challenge.clone();
            c3[0] ^= 1;
            rej(sh, "challenge", catch(|| swc.verify(version, &c3, g, &commitments, &proof)));
        }
        rej(sh, "credential_id", catch(|| swc2.verify(version, &challenge, g, &commitments, &proof)));
        rej(sh, "global_context", catch(|| swc.verify(version, &challenge, other_global(), &commitments, &proof)));
    } else {
        let a = matches!(catch(|| swc.verify(version, &c2, g, &commitments, &proof)), Ok(true));
        let b = matches!(catch(|| swc2.verify(version, &challenge, g, &commitments, &proof)), Ok(true));
        sh.hit(if a && b { "observe.v1_range_only.context_not_bound" } else { "observe.v1_range_only.context_bound" });
    }
    let ov = if version == ProofVersion::Version1 { ProofVersion::Version2 } else { ProofVersion::Version1 };
    rej(sh, "version", catch(|| swc.verify(ov, &challenge, g, &commitments, &proof)));
    for (i, s) in stmts.iter().enumerate() {
        // commitment of the attribute the statement is about
        let t = s.attribute();
        let mut cm2 = commitments.clone();
        let e = cm2.cmm_attributes.get_mut(&t).unwrap();
        *e = Commitment(e.0.plus_point(&g.on_chain_commitment_key.g));
        rej(sh, "commitment", catch(|| swc.verify(version, &challenge, g, &cm2, &proof)));
        let mut cm3 = commitments.clone();
        cm3.cmm_attributes.remove(&t);
        rej(sh, "commitment_missing", catch(|| swc.verify(version, &challenge, g, &cm3, &proof)));
        let other = tags.iter().find(|x| **x != t && enc(&attrs[*x]) != enc(&attrs[&t]));
        if let Some((s2, what)) = alter_statement(r, s, other) {
            let mut st2 = stmts.clone();
            st2[i] = s2;
            let swc3 = StatementWithContext { credential: cred, statement: Statement { statements: st2 } };
            rej(sh, what, catch(|| swc3.verify(version, &challenge, g, &commitments, &proof)));
        }
    }
    // proof list: dropped / reordered / revealed value changed
    if proof.proofs.len() > 1 {
        let mut p2 = proof.clone();
        p2.proofs.pop();
        rej(sh, "proof.dropped", catch(|| swc.verify(version, &challenge, g, &commitments, &p2)));
        let mut p3 = proof.clone();
        p3.proofs.swap(0, 1);
        // two proofs of the very same statement are interchangeable (Version1 range proofs are
        // not chained through the transcript): only a swap between different statements is judged
        if to_bytes(&p3) != to_bytes(&proof) && to_bytes(&stmts[0]) != to_bytes(&stmts[1]) {
            rej(sh, "proof.reordered", catch(|| swc.verify(version, &challenge, g, &commitments, &p3)));
        }
    }
    for i in 0..proof.proofs.len() {
        if let AtomicProof::RevealAttribute { attribute, proof: dl } = &proof.proofs[i] {
            let mut p2 = proof.clone();
            p2.proofs[i] = AtomicProof::RevealAttribute { attribute: same_kind(r, attribute), proof: dl.clone() };
            rej(sh, "proof.revealed_value", catch(|| swc.verify(version, &challenge, g, &commitments, &p2)));
        }
    }
    // serialized proof: one bit flipped
    {
        let pb = to_bytes(&proof);
        for _ in 0..3 {
            let mut b = pb.clone();
            let i = r.0.below(b.len() as u64) as usize;
            b[i] ^= 1 << r.0.below(8);
            match deser::<Proof<G1, Attr>>(&b) {
                Some(p2) => rej(sh, "proof.bitflip", catch(|| swc.verify(version, &challenge, g, &commitments, &p2))),
                None => {
                    sh.evaluations += 1;
                    sh.hit("reject.expected");
                    sh.hit("reject.undeserializable");
                }
            }
        }
    }
    sh.nontrivial(fnv(sig_base.as_bytes()));
    sh.sample(|| desc(json!(null)));
}

// ---------------------------------------------------------------- part B: web3id presentations (v0)

struct Cred {
    web3: bool,
    // account
    cred_id: CredentialRegistrationID,
    acc_attrs: BTreeMap<AttributeTag, Attr>,
    acc_rands: BTreeMap<AttributeTag, Randomness<G1>>,
    // web3
    signer: ed25519_dalek::SigningKey,
    issuer: ed25519_dalek::SigningKey,
    contract: ContractAddress,
    w_attrs: BTreeMap<String, Attr>,
    w_rands: BTreeMap<String, Randomness<G1>>,
    signature: Option<ed25519_dalek::Signature>,
    #[allow(dead_code)]
    network: Network,
}

fn presentation_case(ctx: &ChildCtx, sh: &mut Shard, idx: u64, r: &mut CRng) {
    let g = global();
    let n_creds = 1 + r.0.below(3) as usize;
    let all_true = (idx / 2 + ctx.shard as u64) % 3 != 0;
    let false_cred = r.0.below(n_creds as u64) as usize;
    let mut creds: Vec<Cred> = vec![];
    let mut statements: Vec<CredentialStatement<G1, Attr>> = vec![];
    let mut truths: Vec<Truth> = vec![];
    let mut labels: Vec<String> = vec![];
    for ci in 0..n_creds {
        let web3 = match (idx + ctx.shard as u64) % 3 {
            0 => false,
            1 => true,
            // mixed presentations: web3 and account credentials alternate (a single credential: either kind)
            _ => {
                if n_creds == 1 {
                    r.0.chance(1, 2)
                } else {
                    (ci as u64 + idx / 8) % 2 == 0
                }
            }
        };
        let n_attrs = 1 + r.0.below(4) as usize;
        let network = if r.0.chance(1, 2) { Network::Testnet } else { Network::Mainnet };
        let mut c = Cred {
            web3,
            cred_id: CredentialRegistrationID::new(G1::generate(r)),
            acc_attrs: BTreeMap::new(),
            acc_rands: BTreeMap::new(),
            signer: ed25519_dalek::SigningKey::generate(r),
            issuer: ed25519_dalek::SigningKey::generate(r),
            contract: ContractAddress::new(r.0.below(10_000), r.0.below(3)),
            w_attrs: BTreeMap::new(),
            w_rands: BTreeMap::new(),
            signature: None,
            network,
        };
        let n_st = r.0.below(4) as usize; // the empty statement list is allowed
        let falsify = !all_true && ci == false_cred;
        let n_st = if falsify { n_st.max(1) } else { n_st };
        let false_at = r.0.below(n_st.max(1) as u64) as usize;
        if web3 {
            while c.w_attrs.len() < n_attrs {
                let name = format!("{}{}", r.0.pick(&["age", "degree", "name", "x"]), r.0.below(4));
                c.w_attrs.insert(name, gen_attr(r));
            }
            c.w_rands = c.w_attrs.keys().map(|k| (k.clone(), Randomness::<G1>::generate(r))).collect();
            let holder: CredentialHolderId = c.signer.verifying_key().into();
            let sc = match SignedCommitments::from_secrets(g, &c.w_attrs, &c.w_rands, &holder, &c.issuer, c.contract) {
                Some(s) => s,
                None => {
                    sh.inconclusive.push("SignedCommitments::from_secrets returned None on consistent input".into());
                    return;
                }
            };
            c.signature = Some(sc.signature);
            let tags: Vec<String> = c.w_attrs.keys().cloned().collect();
            let mut sts = vec![];
            for i in 0..n_st {
                let t = r.0.pick(&tags).clone();
                let (s, l) = gen_statement(r, &t, &c.w_attrs[&t], !(falsify && i == false_at));
                truths.push(truth(&s, &c.w_attrs));
                labels.push(format!("web3.{}", l));
                sts.push(s);
            }
            statements.push(CredentialStatement::Web3Id { ty: ["VerifiableCredential".to_string(), "ConcordiumVerifiableCredential".to_string()].into_iter().collect(), network, contract: c.contract, credential: holder, statement: sts });
        } else {
            while c.acc_attrs.len() < n_attrs {
                c.acc_attrs.insert(AttributeTag(r.0.below(20) as u8), gen_attr(r));
            }
            c.acc_rands = c.acc_attrs.keys().map(|k| (*k, Randomness::<G1>::generate(r))).collect();
            let tags: Vec<AttributeTag> = c.acc_attrs.keys().copied().collect();
            let mut sts = vec![];
            for i in 0..n_st {
                let t = *r.0.pick(&tags);
                let (s, l) = gen_statement(r, &t, &c.acc_attrs[&t], !(falsify && i == false_at));
                truths.push(truth(&s, &c.acc_attrs));
                labels.push(format!("account.{}", l));
                sts.push(s);
            }
            statements.push(CredentialStatement::Account { network, cred_id: c.cred_id, statement: sts });
        }
        creds.push(c);
    }
    for (l, t) in labels.iter().zip(&truths) {
        sh.hit(&format!("pres.statement.{}.{:?}", l, t));
    }
    sh.hit(&format!("pres.credentials.{}", n_creds));
    for c in &creds {
        sh.hit(if c.web3 { "pres.credential.web3" } else { "pres.credential.account" });
    }
    let challenge = Challenge::new({
        let mut b = [0u8; 32];
        r.0.fill(&mut b);
        b
    });
    let request = Request::<G1, Attr> { challenge, credential_statements: statements.clone() };
    let req_json = serde_json::to_value(&request).unwrap_or(json!("<unserializable>"));
    let desc = |extra: Value| json!({"part": "web3id_presentation", "request": req_json, "credentials": creds.iter().map(|c| if c.web3 { json!({"kind":"web3","attributes": attrs_json(&c.w_attrs)}) } else { json!({"kind":"account","attributes": attrs_json(&c.acc_attrs)}) }).collect::<Vec<_>>(), "labels": labels, "ground_truth": truths.iter().map(|t| format!("{:?}", t)).collect::<Vec<_>>(), "detail": extra});
    let sig_base = format!("{:016x}", fnv(serde_json::to_string(&req_json).unwrap_or_default().as_bytes()));
    let public: Vec<CredentialsInputs<G1>> = creds
        .iter()
        .map(|c| {
            if c.web3 {
                CredentialsInputs::Web3 { issuer_pk: c.issuer.verifying_key().into() }
            } else {
                CredentialsInputs::Account { commitments: c.acc_attrs.iter().map(|(t, v)| (*t, g.on_chain_commitment_key.hide(&PValue::<G1>::new(v.to_field_element()), &c.acc_rands[t]))).collect() }
            }
        })
        .collect();
    let now = chrono::DateTime::<chrono::Utc>::from_timestamp(1_600_000_000 + r.0.below(100_000_000) as i64, 0).expect("valid time");
    let pr = catch(|| request.clone().prove_with_rng(g, mk_inputs(&creds).into_iter(), r, now));
    let any_false = truths.contains(&Truth::False);
    let any_nd = truths.contains(&Truth::TrueNotDemanded);
    sh.evaluations += 1;
    if any_false {
        sh.hit("reject.expected");
        sh.hit("pres.false_statement_set");
        match pr {
            Ok(Ok(p)) => {
                sh.hit("pres.false.prover_output");
                if let Ok(Ok(_)) = catch(|| p.verify(g, public.iter())) {
                    sh.violate(idx, "accepted-false", format!("c18:pres:false:{}", sig_base), "a presentation for a request containing a false statement was produced by the library and verified".into(), desc(json!(null)));
                }
            }
            _ => sh.hit("pres.false.prover_refused"),
        }
        return;
    }
    if any_nd {
        sh.hit("observe.pres.not_demanded");
        return;
    }
    sh.hit("complete.presentation");
    let pres: Presentation<G1, Attr> = match pr {
        Ok(Ok(p)) => p,
        other => {
            sh.violate(idx, "rejected-true", format!("c18:pres:prove:{}", sig_base), format!("all statements true but prove failed: {:?}", other.map(|o| o.map(|_| ()).map_err(|e| e.to_string()))), desc(json!(null)));
            return;
        }
    };
    let pres_json = serde_json::to_value(&pres).unwrap_or(json!(null));
    let honest = catch(|| pres.verify(g, public.iter()));
    match &honest {
        Ok(Ok(req2)) if *req2 == request && !planted("c18.accept") => {}
        other => {
            sh.violate(idx, "rejected-true", format!("c18:pres:verify:{}", sig_base), format!("honest presentation did not verify to the original request: {:?}", other.as_ref().map(|o| o.as_ref().map(|_| "Ok(different request)").map_err(|e| e.to_string()))), desc(json!({"presentation": pres_json})));
            return;
        }
    }
    // revealed values
    for (c, cp) in creds.iter().zip(&pres.verifiable_credential) {
        match cp {
            CredentialProof::Account { proofs, .. } => {
                for (s, p) in proofs {
                    if let (AtomicStatement::RevealAttribute { statement }, AtomicProof::RevealAttribute { attribute, .. }) = (s, p) {
                        sh.evaluations += 1;
                        sh.hit("pres.revealed_value_checked");
                        if c.acc_attrs.get(&statement.attribute_tag) != Some(attribute) {
                            sh.violate(idx, "revealed-wrong-value", format!("c18:pres:reveal:{}", sig_base), "revealed attribute differs from the committed one".into(), desc(json!(null)));
                        }
                    }
                }
            }
            CredentialProof::Web3Id { proofs, .. } => {
                for (s, p) in proofs {
                    if let (AtomicStatement::RevealAttribute { statement }, AtomicProof::RevealAttribute { attribute, .. }) = (s, p) {
                        sh.evaluations += 1;
                        sh.hit("pres.revealed_value_checked");
                        if c.w_attrs.get(&statement.attribute_tag) != Some(attribute) {
                            sh.violate(idx, "revealed-wrong-value", format!("c18:pres:reveal:{}", sig_base), "revealed attribute differs from the committed one".into(), desc(json!(null)));
                        }
                    }
                }
            }
        }
    }
    // JSON round trip
    match serde_json::from_value::<Presentation<G1, Attr>>(pres_json.clone()) {
        Ok(p2) => {
            sh.evaluations += 1;
            sh.hit("complete.presentation.json_roundtrip");
            if !matches!(catch(|| p2.verify(g, public.iter())), Ok(Ok(ref q)) if *q == request) {
                sh.violate(idx, "rejected-true", format!("c18:pres:json:{}", sig_base), "presentation no longer verifies after a JSON round trip".into(), desc(json!({"presentation": pres_json})));
            }
        }
        Err(e) => sh.violate(idx, "rejected-true", format!("c18:pres:json-parse:{}", sig_base), format!("honest presentation does not parse back from its JSON: {}", e), desc(json!({"presentation": pres_json}))),
    }
    // ---- perturbations. strict: verification must fail. lenient (documented unchecked metadata): fail or different request.
    let rej = |sh: &mut Shard, what: &str, strict: bool, p: &Presentation<G1, Attr>, public: &[CredentialsInputs<G1>], gc: &GlobalContext<G1>| {
        sh.evaluations += 1;
        sh.hit("reject.expected");
        sh.hit(&format!("perturb.pres.{}", what));
        let res = catch(|| p.verify(gc, public.iter()));
        let bad = match res {
            Ok(Ok(q)) => strict || q == request,
            Ok(Err(e)) => {
                sh.hit(&format!("pres.reject.reason.{:?}", e));
                false
            }
            Err(_) => {
                sh.hit(&format!("note.verifier_panic.pres.{}", what));
                false
            }
        };
        if bad || (planted("c18.reject") && what == "presentation_context") {
            sh.violate(idx, "accepted-altered", format!("c18:pres:accepted:{}:{}", what, sig_base), format!("presentation verified (to the original request) although '{}' was altered", what), desc(json!({"altered": what, "presentation": serde_json::to_value(p).unwrap_or(json!(null))})));
        }
    };
    let reparse = |v: &Value| serde_json::from_value::<Presentation<G1, Attr>>(v.clone()).ok();
    // context
    {
        let mut v = pres_json.clone();
        let mut cb = [0u8; 32];
        cb.copy_from_slice(challenge.as_ref());
        cb[r.0.below(32) as usize] ^= 1;
        v["presentationContext"] = serde_json::to_value(Challenge::new(cb)).unwrap();
        // a presentation without any atomic statement proves nothing that could bind the context;
        // a web3 credential still binds the challenge through its linking signature
        let n_atomic = truths.len();
        let any_web3 = creds.iter().any(|c| c.web3);
        if n_atomic > 0 || any_web3 {
            if let Some(p2) = reparse(&v) {
                rej(sh, "presentation_context", true, &p2, &public, g);
            }
        } else {
            sh.hit("observe.pres.no_statements.context_not_demanded");
        }
        if n_atomic > 0 {
            rej(sh, "global_context", true, &pres, &public, other_global());
        }
    }
    // public inputs
    for (i, c) in creds.iter().enumerate() {
        let mut pub2: Vec<CredentialsInputs<G1>> = public.iter().map(clone_inputs).collect();
        if c.web3 {
            pub2[i] = CredentialsInputs::Web3 { issuer_pk: ed25519_dalek::SigningKey::generate(r).verifying_key().into() };
            rej(sh, "public.issuer_key", true, &pres, &pub2, g);
        } else if let CredentialsInputs::Account { commitments } = &mut pub2[i] {
            // only commitments that a statement refers to are bound
            let used: Vec<AttributeTag> = match &statements[i] {
                CredentialStatement::Account { statement, .. } => statement.iter().map(|s| s.attribute()).collect(),
                _ => vec![],
            };
            if let Some(t) = used.first() {
                let e = commitments.get_mut(t).unwrap();
                *e = Commitment(e.0.plus_point(&g.on_chain_commitment_key.g));
                rej(sh, "public.commitment", true, &pres, &pub2, g);
            }
        }
    }
    if n_creds > 1 {
        let mut pub2: Vec<CredentialsInputs<G1>> = public.iter().map(clone_inputs).collect();
        pub2.pop();
        rej(sh, "public.missing", true, &pres, &pub2, g);
    }
    // per credential, on the JSON form
    let vcs = pres_json["verifiableCredential"].as_array().cloned().unwrap_or_default();
    for (i, c) in creds.iter().enumerate() {
        let n_st = match &statements[i] {
            CredentialStatement::Account { statement, .. } => statement.len(),
            CredentialStatement::Web3Id { statement, .. } => statement.len(),
        };
        // altered statement: go through the typed form
        if n_st > 0 {
            let k = r.0.below(n_st as u64) as usize;
            let mut p2 = clone_pres(&pres_json);
            if let Some(p2) = p2.as_mut() {
                let applied = match &mut p2.verifiable_credential[i] {
                    CredentialProof::Account { proofs, .. } => {
                        let other = c.acc_attrs.keys().find(|x| **x != proofs[k].0.attribute() && enc(&c.acc_attrs[*x]) != enc(&c.acc_attrs[&proofs[k].0.attribute()])).copied();
                        match alter_statement(r, &proofs[k].0, other.as_ref()) {
                            Some((s2, w)) => {
                                proofs[k].0 = s2;
                                Some(w)
                            }
                            None => None,
                        }
                    }
                    CredentialProof::Web3Id { proofs, .. } => {
                        let cur = match &proofs[k].0 {
                            AtomicStatement::RevealAttribute { statement } => statement.attribute_tag.clone(),
                            AtomicStatement::AttributeInRange { statement } => statement.attribute_tag.clone(),
                            AtomicStatement::AttributeInSet { statement } => statement.attribute_tag.clone(),
                            AtomicStatement::AttributeNotInSet { statement } => statement.attribute_tag.clone(),
                        };
                        let other = c.w_attrs.keys().find(|x| **x != cur && enc(&c.w_attrs[*x]) != enc(&c.w_attrs[&cur])).cloned();
                        match alter_statement(r, &proofs[k].0, other.as_ref()) {
                            Some((s2, w)) => {
                                proofs[k].0 = s2;
                                Some(w)
                            }
                            None => None,
                        }
                    }
                };
                if let Some(w) = applied {
                    // a different statement is a different request: must not verify at all
                    rej(sh, w, true, p2, &public, g);
                }
            }
            // the proofs of two different statements exchanged
            if let Some(mut p2) = clone_pres(&pres_json) {
                let applied = match &mut p2.verifiable_credential[i] {
                    CredentialProof::Account { proofs, .. } if proofs.len() > 1 && to_bytes(&proofs[0].0) != to_bytes(&proofs[1].0) => {
                        let a = proofs[0].1.clone();
                        proofs[0].1 = proofs[1].1.clone();
                        proofs[1].1 = a;
                        true
                    }
                    CredentialProof::Web3Id { proofs, .. } if proofs.len() > 1 && to_bytes(&proofs[0].0) != to_bytes(&proofs[1].0) => {
                        let a = proofs[0].1.clone();
                        proofs[0].1 = proofs[1].1.clone();
                        proofs[1].1 = a;
                        true
                    }
                    _ => false,
                };
                if applied {
                    rej(sh, "proofs.exchanged", true, &p2, &public, g);
                }
            }
        }
        if c.web3 {
            // holder, contract, signature on commitments, one commitment, network, created: all covered by signatures
            for (what, path, strict) in [("web3.commitments.signature", "sig", true), ("web3.commitments.commitment", "cmm", true), ("web3.holder", "holder", true), ("web3.contract", "contract", true), ("web3.network", "network", true), ("web3.created", "created", true)] {
                let mut p2 = match clone_pres(&pres_json) {
                    Some(p) => p,
                    None => continue,
                };
                let applied = if let CredentialProof::Web3Id { commitments, holder, contract, network, created, .. } = &mut p2.verifiable_credential[i] {
                    match path {
                        "sig" => {
                            let mut b = commitments.signature.to_bytes();
                            b[r.0.below(64) as usize] ^= 1;
                            commitments.signature = ed25519_dalek::Signature::from_bytes(&b);
                            true
                        }
                        "cmm" => match commitments.commitments.values_mut().next() {
                            Some(e) => {
                                *e = Commitment(e.0.plus_point(&G1::one_point()));
                                true
                            }
                            None => false,
                        },
                        "holder" => {
                            *holder = ed25519_dalek::SigningKey::generate(r).verifying_key().into();
                            true
                        }
                        "contract" => {
                            *contract = ContractAddress::new(contract.index + 1, contract.subindex);
                            true
                        }
                        "network" => {
                            *network = if *network == Network::Testnet { Network::Mainnet } else { Network::Testnet };
                            true
                        }
                        _ => {
                            *created += chrono::Duration::try_seconds(1).unwrap();
                            true
                        }
                    }
                } else {
                    false
                };
                if applied {
                    rej(sh, what, strict, &p2, &public, g);
                }
            }
        } else {
            // documented unchecked metadata of account credentials: lenient oracle
            for (what, path) in [("account.cred_id", "cred"), ("account.network", "network")] {
                let mut p2 = match clone_pres(&pres_json) {
                    Some(p) => p,
                    None => continue,
                };
                if let CredentialProof::Account { cred_id, network, .. } = &mut p2.verifiable_credential[i] {
                    if path == "cred" {
                        *cred_id = CredentialRegistrationID::new(G1::generate(r));
                    } else {
                        *network = if *network == Network::Testnet { Network::Mainnet } else { Network::Testnet };
                    }
                }
                rej(sh, what, false, &p2, &public, g);
            }
        }
        // ---- mixed presentations: the linking signatures of the web3 credentials cover the serialization of
        // ALL credential proofs, so every field of an account credential proof is bound as well
        let mixed = creds.iter().any(|x| x.web3) && creds.iter().any(|x| !x.web3);
        if mixed {
            sh.hit(if c.web3 { "pres.mixed.credential.web3" } else { "pres.mixed.credential.account" });
        }
        if mixed && !c.web3 {
            for field in ["issuer", "network", "cred_id", "created"] {
                let mut p2 = match clone_pres(&pres_json) {
                    Some(p) => p,
                    None => continue,
                };
                if let CredentialProof::Account { cred_id, network, issuer, created, .. } = &mut p2.verifiable_credential[i] {
                    match field {
                        "issuer" => *issuer = IpIdentity(issuer.0 + 1),
                        "network" => *network = if *network == Network::Testnet { Network::Mainnet } else { Network::Testnet },
                        "cred_id" => *cred_id = CredentialRegistrationID::new(G1::generate(r)),
                        _ => *created += chrono::Duration::try_seconds(1).unwrap(),
                    }
                }
                rej(sh, &format!("mixed.account.{}", field), true, &p2, &public, g);
            }
        }
        if mixed && c.web3 {
            for field in ["holder", "contract", "network", "created", "commitments.signature", "commitments.commitment"] {
                sh.hit(&format!("pres.mixed.web3.{}", field));
            }
        }
        // one bit of one statement proof (any kind of credential)
        if n_st > 0 {
            let k = r.0.below(n_st as u64) as usize;
            if let Some(mut p2) = clone_pres(&pres_json) {
                let slot: &mut AtomicProof<G1, Attr> = match &mut p2.verifiable_credential[i] {
                    CredentialProof::Account { proofs, .. } => &mut proofs[k].1,
                    CredentialProof::Web3Id { proofs, .. } => &mut proofs[k].1,
                };
                let mut b = to_bytes(&*slot);
                let at = 1 + r.0.below(b.len() as u64 - 1) as usize;
                b[at] ^= 1 << r.0.below(8);
                match deser::<AtomicProof<G1, Attr>>(&b) {
                    Some(x) => {
                        *slot = x;
                        let kind = if c.web3 { "web3" } else { "account" };
                        rej(sh, &format!("{}{}.proof_bitflip", if mixed { "mixed." } else { "" }, kind), true, &p2, &public, g);
                    }
                    None => {
                        sh.evaluations += 1;
                        sh.hit("reject.expected");
                        sh.hit("reject.undeserializable");
                    }
                }
            }
        }
        let _ = &vcs;
    }
    // credentials reordered against the public inputs
    if n_creds > 1 {
        let mut v = pres_json.clone();
        if let Some(arr) = v["verifiableCredential"].as_array_mut() {
            arr.swap(0, 1);
        }
        if let Some(p2) = reparse(&v) {
            if to_bytes_pres(&p2) != to_bytes_pres(&pres) {
                // the returned request lists the statements in the presentation's order: lenient oracle
                rej(sh, "credentials.reordered", false, &p2, &public, g);
            }
        }
    }
    // linking proof
    {
        let sigs = pres_json["proof"]["proofValue"].as_array().cloned().unwrap_or_default();
        let n_web3 = creds.iter().filter(|c| c.web3).count();
        if sigs.len() != n_web3 {
            sh.violate(idx, "linking-proof-count", format!("c18:pres:linking-count:{}", sig_base), format!("{} linking signatures for {} web3 credentials", sigs.len(), n_web3), desc(json!({"presentation": pres_json})));
        }
        if !sigs.is_empty() {
            let mut v = pres_json.clone();
            v["proof"]["proofValue"].as_array_mut().unwrap().pop();
            if let Some(p2) = reparse(&v) {
                rej(sh, "linking.signature_removed", true, &p2, &public, g);
            }
            let mut v = pres_json.clone();
            if let Some(s) = sigs[0].as_str() {
                let mut b = vmon_core::unhex(s).unwrap_or_default();
                if !b.is_empty() {
                    let k = r.0.below(b.len() as u64) as usize;
                    b[k] ^= 1;
                    v["proof"]["proofValue"][0] = json!(hex(&b));
                    if let Some(p2) = reparse(&v) {
                        rej(sh, "linking.signature_altered", true, &p2, &public, g);
                    }
                }
            }
        }
        // an extra signature
        let extra = ed25519_dalek::Signer::sign(&ed25519_dalek::SigningKey::generate(r), b"x");
        let mut v = pres_json.clone();
        v["proof"]["proofValue"].as_array_mut().map(|a| a.push(json!(hex(&extra.to_bytes()))));
        if let Some(p2) = reparse(&v) {
            rej(sh, "linking.signature_extra", true, &p2, &public, g);
        }
    }
    sh.nontrivial(fnv(sig_base.as_bytes()));
    sh.sample(|| desc(json!(null)));
}

fn mk_inputs<'a>(creds: &'a [Cred]) -> Vec<CommitmentInputs<'a, G1, Attr, ed25519_dalek::SigningKey>> {
    creds
        .iter()
        .map(|c| {
            if c.web3 {
                CommitmentInputs::Web3Issuer { signature: c.signature.unwrap(), signer: &c.signer, values: &c.w_attrs, randomness: &c.w_rands }
            } else {
                CommitmentInputs::Account { issuer: IpIdentity::from(3u32), values: &c.acc_attrs, randomness: &c.acc_rands }
            }
        })
        .collect()
}

fn clone_inputs(c: &CredentialsInputs<G1>) -> CredentialsInputs<G1> {
    match c {
        CredentialsInputs::Account { commitments } => CredentialsInputs::Account { commitments: commitments.clone() },
        CredentialsInputs::Web3 { issuer_pk } => CredentialsInputs::Web3 { issuer_pk: issuer_pk.public_key.into() },
    }
}

fn clone_pres(v: &Value) -> Option<Presentation<G1, Attr>> { serde_json::from_value(v.clone()).ok() }

fn to_bytes_pres(p: &Presentation<G1, Attr>) -> String { serde_json::to_string(p).unwrap_or_default() }

pub fn run(ctx: &ChildCtx, sh: &mut Shard) {
    for idx in ctx.indices() {
        ctx.begin_case(idx);
        let mut r = CRng(ctx.case_rng(idx));
        match idx % 8 {
            0 | 2 | 4 => id_statement_case(ctx, sh, idx, &mut r),
            1 | 3 | 5 => presentation_case(ctx, sh, idx, &mut r),
            6 => {
                // two independent presentations per case (the second continues the case PRNG)
                crate::c18v1::v1_presentation_case(ctx, sh, idx, 0, &mut r);
                crate::c18v1::v1_presentation_case(ctx, sh, idx, 1, &mut r);
            }
            _ => crate::c18v1::anchored_case(ctx, sh, idx, &mut r),
        }
    }
}

#[allow(dead_code)]
fn _unused(_: Fr) {}
