//! C18 (continued): web3id v1 presentations (account based and identity based
//! credentials, id::identity_attributes_credentials prove/verify) and the
//! anchored verification flow of web3id/v1/anchor/verify.rs.
//!
//! D (deliberately not demanded):
//! * The transcript of each credential is an independent split of the
//!   presentation transcript; an account based credential with an EMPTY
//!   statement list carries no proof at all, so nothing except the issuer
//!   comparison with the verification material can bind it: perturbations of
//!   such a credential (and of the context when no other credential carries a
//!   proof) are not judged.
//! * `LinkingProofV1` is documented "Currently not used": not perturbed.
//! * `PresentationV1::verify` documents that it does not check metadata
//!   (validity, network): these are judged in the anchored flow only.
//! * Anchored flow: every scenario deviates from a fully valid baseline in ONE
//!   respect, so the documented sequence of checks determines a unique expected
//!   result; combinations of deviations are not judged. `anchor_transaction_hash`
//!   of the verification request is not part of `VerificationRequestData` and is
//!   not documented as checked.
//! * Range statements with a gap >= 2^64 and `NotInSet` with the empty set are
//!   not generated as true statements here (see c18.rs).
//! * identity object creation uses `generate_pio_v1_with_rng` and
//!   `sign_identity_object_v1_with_rng` with the case PRNG (fully reproducible).
use crate::{
    c18::{alter_statement, attrs_json, enc, gen_attr, gen_statement, global, other_global, same_kind, truth, Attr, Truth},
    common::*,
};
use concordium_base::{
    base::CredentialRegistrationID,
    common::to_bytes,
    curve_arithmetic::Curve,
    hashes::{BlockHash, TransactionHash},
    id::{
        account_holder::generate_pio_v1_with_rng,
        constants::{ArCurve, IpPairing},
        id_proof_types::*,
        identity_provider::sign_identity_object_v1_with_rng,
        secret_sharing::Threshold,
        test::{test_create_ars, test_create_id_use_data},
        types::*,
    },
    pedersen_commitment::{Commitment, Randomness, Value as PValue},
    web3id::{
        did::Network,
        v1::{
            anchor::{
                verify_presentation_with_request_anchor, ContextLabel, CredentialValidityType, IdentityCredentialType, IdentityProviderDid, LabeledContextProperty, Nonce, PresentationVerificationResult,
                PresentationVerifyFailure as F, RequestedIdentitySubjectClaims, RequestedStatement, RequestedSubjectClaims, UnfilledContextInformation, VerificationAuditRecord, VerificationContext,
                VerificationMaterialWithValidity, VerificationRequest, VerificationRequestAnchorAndBlockHash, VerificationRequestData,
            },
            AccountBasedSubjectClaims, AccountCredentialProofPrivateInputs, AccountCredentialVerificationMaterial, AtomicProofV1, AtomicStatementV1, ContextInformation, ContextProperty,
            CredentialProofPrivateInputs, CredentialV1, CredentialVerificationMaterial, IdentityBasedSubjectClaims, IdentityCredentialEphemeralId, IdentityCredentialProofPrivateInputs,
            IdentityCredentialVerificationMaterial, PresentationV1, RequestV1, SubjectClaims, VerifyError,
        },
    },
};
use std::{collections::BTreeMap, marker::PhantomData};
use vmon_core::{catch, fnv, json, ChildCtx, Shard, Value};

type P = IpPairing;
type G1 = ArCurve;
type St = AtomicStatementV1<G1, AttributeTag, Attr>;
type Pres = PresentationV1<P, G1, Attr>;
type Req = RequestV1<G1, Attr>;
type Mat = CredentialVerificationMaterial<P, G1>;

fn flip(n: Network) -> Network {
    if n == Network::Testnet {
        Network::Mainnet
    } else {
        Network::Testnet
    }
}

fn bump<C: Curve>(p: &mut C) { *p = p.plus_point(&C::one_point()); }

// ---------------------------------------------------------------- credentials

struct IdPart {
    ip_info: IpInfo<P>,
    ars: ArInfos<G1>,
    id_object: IdentityObjectV1<P, G1, Attr>,
    id_use: IdObjectUseData<P, G1>,
}

struct CredV1 {
    network: Network,
    issuer: IpIdentity,
    attrs: BTreeMap<AttributeTag, Attr>,
    validity: CredentialValidity,
    // account based
    rands: BTreeMap<AttributeTag, Randomness<G1>>,
    cred_id: CredentialRegistrationID,
    // identity based
    id: Option<Box<IdPart>>,
}

fn gen_attrs(r: &mut CRng, n: usize) -> BTreeMap<AttributeTag, Attr> {
    let mut attrs = BTreeMap::new();
    while attrs.len() < n {
        attrs.insert(AttributeTag(r.0.below(16) as u8), gen_attr(r));
    }
    attrs
}

fn gen_validity(r: &mut CRng) -> CredentialValidity {
    let created_at = YearMonth::new(2015 + r.0.below(8) as u16, 1 + r.0.below(12) as u8).expect("valid");
    let valid_to = YearMonth::new(2024 + r.0.below(8) as u16, 1 + r.0.below(12) as u8).expect("valid");
    CredentialValidity { valid_to, created_at }
}

fn mk_account_cred(r: &mut CRng, network: Network, issuer: u32) -> CredV1 {
    let n = 1 + r.0.below(4) as usize;
    let attrs = gen_attrs(r, n);
    let rands = attrs.keys().map(|t| (*t, Randomness::<G1>::generate(r))).collect();
    CredV1 { network, issuer: IpIdentity(issuer), attrs, validity: gen_validity(r), rands, cred_id: CredentialRegistrationID::new(G1::generate(r)), id: None }
}

fn mk_identity_cred(r: &mut CRng, network: Network, issuer: u32) -> Result<CredV1, String> {
    let g = global();
    let n = 1 + r.0.below(4) as usize;
    let attrs = gen_attrs(r, n);
    let n_ars = 1 + r.0.below(2) as u8;
    let validity = gen_validity(r);
    catch(|| {
        let ps_len = n + 1 + 5 + r.0.below(3) as usize;
        let sk = concordium_base::ps_sig::SecretKey::<P>::generate(ps_len, r);
        let ip_info = IpInfo {
            ip_identity: IpIdentity(issuer),
            ip_description: Description { name: "IP".into(), url: "ip.example".into(), description: "v1".into() },
            ip_verify_key: concordium_base::ps_sig::PublicKey::from(&sk),
            ip_cdi_verify_key: ed25519_dalek::SigningKey::generate(r).verifying_key(),
        };
        let (ars_infos, _) = test_create_ars(&g.on_chain_commitment_key.g, n_ars, r);
        let id_use = test_create_id_use_data(r);
        let context = IpContext::new(&ip_info, &ars_infos, g);
        let threshold = Threshold::try_new(1 + r.0.below(n_ars as u64) as u8).expect("t>=1");
        let (pio, _) = generate_pio_v1_with_rng(&context, threshold, &id_use, r).ok_or("generate_pio_v1 returned None")?;
        let alist = AttributeList { valid_to: validity.valid_to, created_at: validity.created_at, max_accounts: 25, alist: attrs.clone(), _phantom: PhantomData };
        let signature = sign_identity_object_v1_with_rng(&pio, &ip_info, &alist, &sk, r).map_err(|e| format!("sign: {:?}", e))?;
        let id_object = IdentityObjectV1 { pre_identity_object: pio, alist, signature };
        Ok::<_, String>(IdPart { ip_info, ars: ArInfos { anonymity_revokers: ars_infos }, id_object, id_use })
    })
    .and_then(|x| x)
    .map(|idp| CredV1 { network, issuer: IpIdentity(issuer), attrs, validity, rands: BTreeMap::new(), cred_id: CredentialRegistrationID::new(G1::one_point()), id: Some(Box::new(idp)) })
}

fn private_inputs(c: &CredV1) -> CredentialProofPrivateInputs<'_, P, G1, Attr> {
    match &c.id {
        None => CredentialProofPrivateInputs::Account(AccountCredentialProofPrivateInputs { issuer: c.issuer, attribute_values: &c.attrs, attribute_randomness: &c.rands }),
        Some(i) => CredentialProofPrivateInputs::Identity(IdentityCredentialProofPrivateInputs {
            ip_context: IpContextOnly { ip_info: &i.ip_info, ars_infos: &i.ars.anonymity_revokers },
            id_object: &i.id_object,
            id_object_use_data: &i.id_use,
        }),
    }
}

fn material(c: &CredV1) -> Mat {
    let g = global();
    match &c.id {
        None => CredentialVerificationMaterial::Account(AccountCredentialVerificationMaterial {
            issuer: c.issuer,
            attribute_commitments: c.attrs.iter().map(|(t, v)| (*t, g.on_chain_commitment_key.hide(&PValue::<G1>::new(v.to_field_element()), &c.rands[t]))).collect(),
        }),
        Some(i) => CredentialVerificationMaterial::Identity(IdentityCredentialVerificationMaterial { ip_info: i.ip_info.clone(), ars_infos: i.ars.clone() }),
    }
}

fn claims(c: &CredV1, statements: Vec<St>) -> SubjectClaims<G1, Attr> {
    match &c.id {
        None => SubjectClaims::Account(AccountBasedSubjectClaims { network: c.network, issuer: c.issuer, cred_id: c.cred_id, statements }),
        Some(_) => SubjectClaims::Identity(IdentityBasedSubjectClaims { network: c.network, issuer: c.issuer, statements }),
    }
}

// ---------------------------------------------------------------- statements

fn gen_v1_statement(r: &mut CRng, tag: AttributeTag, v: &Attr, want_true: bool) -> (St, String) {
    if r.0.chance(1, 4) {
        let value = if want_true { v.clone() } else { same_kind(r, v) };
        return (AtomicStatementV1::AttributeValue(AttributeValueStatement { attribute_tag: tag, attribute_value: value, _phantom: PhantomData }), if want_true { "value.equal".into() } else { "value.different".into() });
    }
    let (s, l) = gen_statement(r, &tag, v, want_true);
    (
        match s {
            AtomicStatement::RevealAttribute { statement } => AtomicStatementV1::AttributeValue(AttributeValueStatement { attribute_tag: statement.attribute_tag, attribute_value: v.clone(), _phantom: PhantomData }),
            AtomicStatement::AttributeInRange { statement } => AtomicStatementV1::AttributeInRange(statement),
            AtomicStatement::AttributeInSet { statement } => AtomicStatementV1::AttributeInSet(statement),
            AtomicStatement::AttributeNotInSet { statement } => AtomicStatementV1::AttributeNotInSet(statement),
        },
        if l == "reveal" { "value.equal".to_string() } else { l.to_string() },
    )
}

fn truth_v1(s: &St, attrs: &BTreeMap<AttributeTag, Attr>) -> Truth {
    match s {
        AtomicStatementV1::AttributeValue(st) => match attrs.get(&st.attribute_tag) {
            Some(v) if enc(v) == enc(&st.attribute_value) => Truth::True,
            _ => Truth::False,
        },
        AtomicStatementV1::AttributeInRange(st) => truth(&AtomicStatement::AttributeInRange { statement: st.clone() }, attrs),
        AtomicStatementV1::AttributeInSet(st) => truth(&AtomicStatement::AttributeInSet { statement: st.clone() }, attrs),
        AtomicStatementV1::AttributeNotInSet(st) => truth(&AtomicStatement::AttributeNotInSet { statement: st.clone() }, attrs),
    }
}

fn alter_v1(r: &mut CRng, s: &St, other_tag: Option<&AttributeTag>) -> Option<(St, &'static str)> {
    let as_v0 = match s {
        AtomicStatementV1::AttributeValue(st) => {
            let mut st2 = st.clone();
            if let (Some(t), true) = (other_tag, r.0.chance(1, 3)) {
                st2.attribute_tag = *t;
                return Some((AtomicStatementV1::AttributeValue(st2), "statement.tag"));
            }
            st2.attribute_value = same_kind(r, &st.attribute_value);
            return Some((AtomicStatementV1::AttributeValue(st2), "statement.value"));
        }
        AtomicStatementV1::AttributeInRange(st) => AtomicStatement::AttributeInRange { statement: st.clone() },
        AtomicStatementV1::AttributeInSet(st) => AtomicStatement::AttributeInSet { statement: st.clone() },
        AtomicStatementV1::AttributeNotInSet(st) => AtomicStatement::AttributeNotInSet { statement: st.clone() },
    };
    let (s2, w) = alter_statement(r, &as_v0, other_tag)?;
    Some((
        match s2 {
            AtomicStatement::AttributeInRange { statement } => AtomicStatementV1::AttributeInRange(statement),
            AtomicStatement::AttributeInSet { statement } => AtomicStatementV1::AttributeInSet(statement),
            AtomicStatement::AttributeNotInSet { statement } => AtomicStatementV1::AttributeNotInSet(statement),
            AtomicStatement::RevealAttribute { .. } => return None,
        },
        w,
    ))
}

fn gen_context(r: &mut CRng) -> ContextInformation {
    let prop = |r: &mut CRng| ContextProperty { label: r.0.pick(&["Nonce", "ConnectionID", "ResourceID", "BlockHash", "x"]).to_string(), context: hex(&r.rand_bytes(12)) };
    ContextInformation { given: (0..r.0.below(3)).map(|_| prop(r)).collect(), requested: (0..r.0.below(3)).map(|_| prop(r)).collect() }
}

fn now_of(r: &mut CRng) -> chrono::DateTime<chrono::Utc> { chrono::DateTime::<chrono::Utc>::from_timestamp(1_700_000_000 + r.0.below(50_000_000) as i64, 0).expect("valid") }

// ---------------------------------------------------------------- part C: v1 presentations

pub fn v1_presentation_case(ctx: &ChildCtx, sh: &mut Shard, idx: u64, rep: u64, r: &mut CRng) {
    let g = global();
    let n_creds = 1 + r.0.below(2) as usize;
    let all_true = (idx / 8 + ctx.shard as u64 + 2 * rep) % 3 != 0;
    let false_cred = r.0.below(n_creds as u64) as usize;
    let mut creds = vec![];
    let mut stmts: Vec<Vec<St>> = vec![];
    let mut truths = vec![];
    let mut labels = vec![];
    for ci in 0..n_creds {
        let identity = match (idx / 8 + ctx.shard as u64 + ci as u64 + rep) % 2 {
            0 => true,
            _ => false,
        };
        let network = if r.0.chance(1, 2) { Network::Testnet } else { Network::Mainnet };
        let issuer = r.0.below(5) as u32;
        let c = if identity {
            match mk_identity_cred(r, network, issuer) {
                Ok(c) => c,
                Err(e) => {
                    sh.inconclusive.push(format!("identity credential fixture failed: {}", e));
                    return;
                }
            }
        } else {
            mk_account_cred(r, network, issuer)
        };
        let falsify = !all_true && ci == false_cred;
        let n_st = if falsify { 1 + r.0.below(3) as usize } else { r.0.below(4) as usize };
        let false_at = r.0.below(n_st.max(1) as u64) as usize;
        let tags: Vec<AttributeTag> = c.attrs.keys().copied().collect();
        let mut sts = vec![];
        for i in 0..n_st {
            let t = *r.0.pick(&tags);
            let (s, l) = gen_v1_statement(r, t, &c.attrs[&t], !(falsify && i == false_at));
            truths.push(truth_v1(&s, &c.attrs));
            labels.push(format!("{}.{}", if identity { "identity" } else { "account" }, l));
            sts.push(s);
        }
        sh.hit(if identity { "v1.credential.identity" } else { "v1.credential.account" });
        stmts.push(sts);
        creds.push(c);
    }
    for (l, t) in labels.iter().zip(&truths) {
        sh.hit(&format!("v1.statement.{}.{:?}", l, t));
    }
    let context = gen_context(r);
    let request = Req { context: context.clone(), subject_claims: creds.iter().zip(&stmts).map(|(c, s)| claims(c, s.clone())).collect() };
    let req_json = serde_json::to_value(&request).unwrap_or(json!("<unserializable>"));
    let desc = |extra: Value| json!({"part": "web3id_v1_presentation", "request": req_json, "credentials": creds.iter().map(|c| json!({"kind": if c.id.is_some() {"identity"} else {"account"}, "attributes": attrs_json(&c.attrs)})).collect::<Vec<_>>(), "labels": labels, "ground_truth": truths.iter().map(|t| format!("{:?}", t)).collect::<Vec<_>>(), "detail": extra});
    let sig_base = format!("{:016x}", fnv(serde_json::to_string(&req_json).unwrap_or_default().as_bytes()));
    let mats: Vec<Mat> = creds.iter().map(material).collect();
    let now = now_of(r);
    let pr = catch(|| request.clone().prove_with_rng(g, creds.iter().map(private_inputs).collect::<Vec<_>>().into_iter(), r, now));
    sh.evaluations += 1;
    if truths.contains(&Truth::False) {
        sh.hit("reject.expected");
        sh.hit("v1.false_statement_set");
        match pr {
            Ok(Ok(p)) => {
                sh.hit("v1.false.prover_output");
                if let Ok(Ok(_)) = catch(|| p.verify(g, mats.iter())) {
                    sh.violate(idx, "accepted-false", format!("c18:v1:false:{}", sig_base), "a v1 presentation for a request containing a false statement was produced by the library and verified".into(), desc(json!(null)));
                }
            }
            _ => sh.hit("v1.false.prover_refused"),
        }
        return;
    }
    if truths.contains(&Truth::TrueNotDemanded) {
        sh.hit("observe.v1.not_demanded");
        return;
    }
    sh.hit("complete.v1_presentation");
    let pres: Pres = match pr {
        Ok(Ok(p)) => p,
        other => {
            sh.violate(idx, "rejected-true", format!("c18:v1:prove:{}", sig_base), format!("all statements true but prove failed: {:?}", other.map(|o| o.map(|_| ()).map_err(|e| e.to_string()))), desc(json!(null)));
            return;
        }
    };
    let pres_json = serde_json::to_value(&pres).unwrap_or(json!(null));
    let honest = catch(|| pres.verify(g, mats.iter()));
    match &honest {
        Ok(Ok(q)) if *q == request && !planted("c18.v1.accept") => {}
        other => {
            sh.violate(idx, "rejected-true", format!("c18:v1:verify:{}", sig_base), format!("honest v1 presentation did not verify to the original request: {:?}", other.as_ref().map(|o| o.as_ref().map(|_| "Ok(different request)").map_err(|e| e.to_string()))), desc(json!({"presentation": pres_json})));
            return;
        }
    }
    // JSON and binary round trips
    match serde_json::from_value::<Pres>(pres_json.clone()) {
        Ok(p2) => {
            sh.evaluations += 1;
            sh.hit("complete.v1_presentation.json_roundtrip");
            if p2 != pres || !matches!(catch(|| p2.verify(g, mats.iter())), Ok(Ok(ref q)) if *q == request) {
                sh.violate(idx, "rejected-true", format!("c18:v1:json:{}", sig_base), "v1 presentation changed or no longer verifies after a JSON round trip".into(), desc(json!({"presentation": pres_json})));
            }
        }
        Err(e) => sh.violate(idx, "rejected-true", format!("c18:v1:json-parse:{}", sig_base), format!("honest v1 presentation does not parse back from its JSON: {}", e), desc(json!({"presentation": pres_json}))),
    }
    match deser::<Pres>(&to_bytes(&pres)) {
        Some(p2) if p2 == pres => sh.hit("complete.v1_presentation.binary_roundtrip"),
        _ => sh.violate(idx, "rejected-true", format!("c18:v1:binary:{}", sig_base), "v1 presentation does not survive a binary serialization round trip".into(), desc(json!({"presentation": pres_json}))),
    }
    // revealed values (identity based credentials reveal attributes for AttributeValue statements)
    for ((c, sts), cred) in creds.iter().zip(&stmts).zip(&pres.verifiable_credentials) {
        if let CredentialV1::Identity(ic) = cred {
            for s in sts {
                if let AtomicStatementV1::AttributeValue(st) = s {
                    if let Some(IdentityAttribute::Revealed(v)) = ic.proof.proof_value.identity_attributes.get(&st.attribute_tag) {
                        sh.evaluations += 1;
                        sh.hit("v1.revealed_value_checked");
                        if Some(v) != c.attrs.get(&st.attribute_tag) {
                            sh.violate(idx, "revealed-wrong-value", format!("c18:v1:reveal:{}", sig_base), "identity credential reveals a value different from the signed attribute".into(), desc(json!({"presentation": pres_json})));
                        }
                    }
                }
            }
            sh.evaluations += 1;
            sh.hit("v1.identity.validity_checked");
            if ic.validity != c.validity || ic.issuer != c.issuer {
                sh.violate(idx, "revealed-wrong-value", format!("c18:v1:validity:{}", sig_base), "identity based credential carries a validity / issuer different from the identity object".into(), desc(json!({"presentation": pres_json})));
            }
        }
    }

    // ---- perturbations
    let rej = |sh: &mut Shard, what: &str, p: &Pres, mats: &[Mat], gc: &GlobalContext<G1>| {
        sh.evaluations += 1;
        sh.hit("reject.expected");
        sh.hit(&format!("perturb.v1.{}", what));
        let bad = match catch(|| p.verify(gc, mats.iter())) {
            Ok(Ok(_)) => true,
            Ok(Err(e)) => {
                sh.hit(match e {
                    VerifyError::VerificationMaterialMismatch => "v1.reject.reason.VerificationMaterialMismatch",
                    VerifyError::InvalidCredential(_) => "v1.reject.reason.InvalidCredential",
                    _ => "v1.reject.reason.other",
                });
                false
            }
            Err(_) => {
                sh.hit(&format!("note.verifier_panic.v1.{}", what));
                false
            }
        };
        if bad || (planted("c18.v1.reject") && what == "context.given") {
            sh.violate(idx, "accepted-altered", format!("c18:v1:accepted:{}:{}", what, sig_base), format!("v1 presentation verified although '{}' was altered", what), desc(json!({"altered": what, "presentation": serde_json::to_value(p).unwrap_or(json!(null))})));
        }
    };
    // a credential carries a proof iff it is identity based or has statements
    let proven: Vec<bool> = creds.iter().zip(&stmts).map(|(c, s)| c.id.is_some() || !s.is_empty()).collect();
    if proven.iter().all(|x| *x) {
        let mut p2 = pres.clone();
        p2.presentation_context.given.push(ContextProperty { label: "x".into(), context: "y".into() });
        rej(sh, "context.given", &p2, &mats, g);
        let mut p2 = pres.clone();
        p2.presentation_context.requested.push(ContextProperty { label: "x".into(), context: "y".into() });
        rej(sh, "context.requested", &p2, &mats, g);
        if let Some(first) = pres.presentation_context.given.first() {
            let mut p2 = pres.clone();
            p2.presentation_context.given[0] = ContextProperty { label: first.label.clone(), context: format!("{}0", first.context) };
            rej(sh, "context.property_value", &p2, &mats, g);
            // moved from given to requested
            let mut p2 = pres.clone();
            let x = p2.presentation_context.given.remove(0);
            p2.presentation_context.requested.insert(0, x);
            rej(sh, "context.given_to_requested", &p2, &mats, g);
        }
        rej(sh, "global_context", &pres, &mats, other_global());
    } else {
        sh.hit("observe.v1.unproven_credential.context_not_demanded");
    }
    if n_creds > 1 {
        let m2 = vec![mats[0].clone()];
        rej(sh, "material.missing", &pres, &m2, g);
        if (creds[0].id.is_some() != creds[1].id.is_some()) || (proven[0] && proven[1]) {
            let m2 = vec![mats[1].clone(), mats[0].clone()];
            // exchanged material: only undetectable if both are unproven account credentials of the same issuer
            rej(sh, "material.exchanged", &pres, &m2, g);
        }
    }
    for i in 0..n_creds {
        let c = &creds[i];
        // verification material
        match &mats[i] {
            CredentialVerificationMaterial::Account(am) => {
                let mut m2 = mats.clone();
                m2[i] = CredentialVerificationMaterial::Account(AccountCredentialVerificationMaterial { issuer: IpIdentity(am.issuer.0 + 1), attribute_commitments: am.attribute_commitments.clone() });
                rej(sh, "material.account.issuer", &pres, &m2, g);
                if let Some(t) = stmts[i].first().map(|s| s.attribute()) {
                    let mut cm = am.attribute_commitments.clone();
                    let e = cm.get_mut(&t).unwrap();
                    *e = Commitment(e.0.plus_point(&g.on_chain_commitment_key.g));
                    let mut m2 = mats.clone();
                    m2[i] = CredentialVerificationMaterial::Account(AccountCredentialVerificationMaterial { issuer: am.issuer, attribute_commitments: cm });
                    rej(sh, "material.account.commitment", &pres, &m2, g);
                }
                if let Some(other) = creds.iter().position(|x| x.id.is_some()) {
                    let mut m2 = mats.clone();
                    m2[i] = mats[other].clone();
                    rej(sh, "material.type_mismatch", &pres, &m2, g);
                }
            }
            CredentialVerificationMaterial::Identity(im) => {
                let mut im2 = im.clone();
                bump(&mut im2.ip_info.ip_verify_key.x_tilda);
                let mut m2 = mats.clone();
                m2[i] = CredentialVerificationMaterial::Identity(im2);
                rej(sh, "material.identity.ip_key", &pres, &m2, g);
                let mut im2 = im.clone();
                im2.ip_info.ip_identity = IpIdentity(im.ip_info.ip_identity.0 + 1);
                let mut m2 = mats.clone();
                m2[i] = CredentialVerificationMaterial::Identity(im2);
                rej(sh, "material.identity.ip_identity", &pres, &m2, g);
                let mut im2 = im.clone();
                if let Some(a) = im2.ars_infos.anonymity_revokers.values_mut().next() {
                    bump(&mut a.ar_public_key.key);
                }
                let mut m2 = mats.clone();
                m2[i] = CredentialVerificationMaterial::Identity(im2);
                rej(sh, "material.identity.ar_key", &pres, &m2, g);
            }
        }
        if !proven[i] {
            sh.hit("observe.v1.unproven_credential.fields_not_demanded");
            continue;
        }
        // statements
        if !stmts[i].is_empty() {
            for k in 0..stmts[i].len() {
                let cur = stmts[i][k].attribute();
                let other = c.attrs.keys().find(|x| **x != cur && enc(&c.attrs[*x]) != enc(&c.attrs[&cur])).copied();
                if let Some((s2, w)) = alter_v1(r, &stmts[i][k], other.as_ref()) {
                    let mut p2 = pres.clone();
                    match &mut p2.verifiable_credentials[i] {
                        CredentialV1::Account(a) => a.subject.statements[k] = s2,
                        CredentialV1::Identity(a) => a.subject.statements[k] = s2,
                    }
                    rej(sh, w, &p2, &mats, g);
                }
            }
            let k = r.0.below(stmts[i].len() as u64) as usize;
            // a statement dropped (with and without its proof)
            let mut p2 = pres.clone();
            match &mut p2.verifiable_credentials[i] {
                CredentialV1::Account(a) => {
                    a.subject.statements.pop();
                }
                CredentialV1::Identity(a) => {
                    a.subject.statements.pop();
                }
            }
            rej(sh, "statement.dropped", &p2, &mats, g);
            let mut p2 = pres.clone();
            match &mut p2.verifiable_credentials[i] {
                CredentialV1::Account(a) => {
                    a.proof.proof_value.statement_proofs.pop();
                }
                CredentialV1::Identity(a) => {
                    a.proof.proof_value.statement_proofs.pop();
                }
            }
            rej(sh, "statement_proof.dropped", &p2, &mats, g);
            if stmts[i].len() > 1 && to_bytes(&stmts[i][0]) != to_bytes(&stmts[i][1]) {
                let mut p2 = pres.clone();
                match &mut p2.verifiable_credentials[i] {
                    CredentialV1::Account(a) => a.proof.proof_value.statement_proofs.swap(0, 1),
                    CredentialV1::Identity(a) => a.proof.proof_value.statement_proofs.swap(0, 1),
                }
                // two `AttributeValueAlreadyRevealed` markers are the same proof: only a real change is judged
                if p2 != pres {
                    rej(sh, "statement_proof.exchanged", &p2, &mats, g);
                }
            }
            // one bit of a statement proof
            let mut p2 = pres.clone();
            let proofs: &mut Vec<AtomicProofV1<G1>> = match &mut p2.verifiable_credentials[i] {
                CredentialV1::Account(a) => &mut a.proof.proof_value.statement_proofs,
                CredentialV1::Identity(a) => &mut a.proof.proof_value.statement_proofs,
            };
            let mut b = to_bytes(&proofs[k]);
            if b.len() > 1 {
                let at = 1 + r.0.below(b.len() as u64 - 1) as usize;
                b[at] ^= 1 << r.0.below(8);
                match deser::<AtomicProofV1<G1>>(&b) {
                    Some(x) => {
                        proofs[k] = x;
                        rej(sh, "statement_proof.bitflip", &p2, &mats, g);
                    }
                    None => {
                        sh.evaluations += 1;
                        sh.hit("reject.expected");
                        sh.hit("reject.undeserializable");
                    }
                }
            }
        }
        // metadata bound through the transcript
        let mut p2 = pres.clone();
        match &mut p2.verifiable_credentials[i] {
            CredentialV1::Account(a) => a.proof.created_at += chrono::Duration::try_seconds(1).unwrap(),
            CredentialV1::Identity(a) => a.proof.created_at += chrono::Duration::try_seconds(1).unwrap(),
        }
        rej(sh, "credential.created", &p2, &mats, g);
        let mut p2 = pres.clone();
        match &mut p2.verifiable_credentials[i] {
            CredentialV1::Account(a) => a.subject.network = flip(a.subject.network),
            CredentialV1::Identity(a) => a.subject.network = flip(a.subject.network),
        }
        rej(sh, "credential.network", &p2, &mats, g);
        let mut p2 = pres.clone();
        match &mut p2.verifiable_credentials[i] {
            CredentialV1::Account(a) => a.issuer = IpIdentity(a.issuer.0 + 1),
            CredentialV1::Identity(a) => a.issuer = IpIdentity(a.issuer.0 + 1),
        }
        rej(sh, "credential.issuer", &p2, &mats, g);
        let mut p2 = pres.clone();
        match &mut p2.verifiable_credentials[i] {
            CredentialV1::Account(a) => {
                a.subject.cred_id = CredentialRegistrationID::new(G1::generate(r));
                rej(sh, "account.cred_id", &p2, &mats, g);
            }
            CredentialV1::Identity(a) => {
                // validity
                a.validity.valid_to = YearMonth::new(a.validity.valid_to.year + 1, a.validity.valid_to.month).unwrap();
                rej(sh, "identity.validity.valid_to", &p2, &mats, g);
                let mut p3 = pres.clone();
                if let CredentialV1::Identity(a) = &mut p3.verifiable_credentials[i] {
                    a.validity.created_at = YearMonth::new(a.validity.created_at.year - 1, a.validity.created_at.month).unwrap();
                }
                rej(sh, "identity.validity.created_at", &p3, &mats, g);
                // ephemeral id: one encrypted share, the threshold
                if let CredentialV1::Identity(orig) = &pres.verifiable_credentials[i] {
                    if let Ok(mut d) = orig.subject.cred_id.try_to_data::<G1>() {
                        let mut d2 = d.clone();
                        if let Some(e) = d2.ar_data.values_mut().next() {
                            bump(&mut e.enc_id_cred_pub_share.1);
                        }
                        let mut p4 = pres.clone();
                        if let CredentialV1::Identity(a) = &mut p4.verifiable_credentials[i] {
                            a.subject.cred_id = IdentityCredentialEphemeralId::from_data(d2.as_ref());
                        }
                        rej(sh, "identity.ephemeral_id.share", &p4, &mats, g);
                        d.threshold = Threshold::try_new(d.threshold.threshold() + 1).unwrap();
                        let mut p4 = pres.clone();
                        if let CredentialV1::Identity(a) = &mut p4.verifiable_credentials[i] {
                            a.subject.cred_id = IdentityCredentialEphemeralId::from_data(d.as_ref());
                        }
                        rej(sh, "identity.ephemeral_id.threshold", &p4, &mats, g);
                    } else {
                        sh.inconclusive.push("ephemeral id of an honest identity credential does not parse".into());
                    }
                    // non-canonical encoding of the subject id: trailing bytes after the encoded data.
                    // Reported under ONE fixed signature (it is one root cause, see the final report).
                    let mut p4 = pres.clone();
                    if let CredentialV1::Identity(a) = &mut p4.verifiable_credentials[i] {
                        a.subject.cred_id.0.push(0);
                    }
                    sh.evaluations += 1;
                    sh.hit("reject.expected");
                    sh.hit("perturb.v1.identity.ephemeral_id.trailing_byte");
                    if let Ok(Ok(_)) = catch(|| p4.verify(g, mats.iter())) {
                        sh.hit("v1.ephemeral_id.trailing_byte.accepted");
                        sh.violate(
                            idx,
                            "subject-id-malleable",
                            "c18:v1:ephemeral-id-trailing-bytes".into(),
                            "identity based credential: a byte appended to subject.cred_id (IdentityCredentialEphemeralId) leaves the presentation verifiable - try_to_data() ignores trailing bytes and the id only enters the transcript AFTER the identity-attributes proof, so it is unbound when no transcript-dependent statement proof follows (no statements, or only already-revealed AttributeValue statements)".into(),
                            desc(json!({"altered": "subject.cred_id + 0x00", "presentation": serde_json::to_value(&p4).unwrap_or(json!(null))})),
                        );
                    }
                    // identity attributes
                    for (tag, attr) in orig.proof.proof_value.identity_attributes.iter().take(3) {
                        let mut p4 = pres.clone();
                        if let CredentialV1::Identity(a) = &mut p4.verifiable_credentials[i] {
                            let (new, what) = match attr {
                                IdentityAttribute::Committed(cm) => (IdentityAttribute::Committed(Commitment(cm.0.plus_point(&G1::one_point()))), "identity.attributes.commitment"),
                                IdentityAttribute::Revealed(v) => (IdentityAttribute::Revealed(same_kind(r, v)), "identity.attributes.revealed_value"),
                                IdentityAttribute::Known => (IdentityAttribute::Revealed(c.attrs[tag].clone()), "identity.attributes.known_to_revealed"),
                            };
                            a.proof.proof_value.identity_attributes.insert(*tag, new);
                            rej(sh, what, &p4, &mats, g);
                        }
                    }
                    let mut p4 = pres.clone();
                    if let CredentialV1::Identity(a) = &mut p4.verifiable_credentials[i] {
                        if let Some(t) = orig.proof.proof_value.identity_attributes.keys().next().copied() {
                            a.proof.proof_value.identity_attributes.remove(&t);
                            rej(sh, "identity.attributes.removed", &p4, &mats, g);
                        }
                    }
                    // identity attributes proofs
                    for what in ["signature", "sharing_coeff", "challenge", "bitflip"] {
                        let mut p4 = pres.clone();
                        let mut applied = true;
                        if let CredentialV1::Identity(a) = &mut p4.verifiable_credentials[i] {
                            let pr = &mut a.proof.proof_value.identity_attributes_proofs;
                            match what {
                                "signature" => bump(&mut pr.signature.sig.1),
                                "sharing_coeff" => bump(&mut pr.cmm_id_cred_sec_sharing_coeff[0].0),
                                "challenge" => {
                                    let mut b = to_bytes(&pr.challenge);
                                    b[r.0.below(32) as usize] ^= 4;
                                    pr.challenge = deser(&b).unwrap();
                                }
                                _ => {
                                    let mut b = to_bytes(&*pr);
                                    let at = r.0.below(b.len() as u64) as usize;
                                    b[at] ^= 1 << r.0.below(8);
                                    match deser::<IdentityAttributesCredentialsProofs<P, G1>>(&b) {
                                        Some(x) => *pr = x,
                                        None => applied = false,
                                    }
                                }
                            }
                        }
                        if applied {
                            rej(sh, &format!("identity.proofs.{}", what), &p4, &mats, g);
                        } else {
                            sh.evaluations += 1;
                            sh.hit("reject.expected");
                            sh.hit("reject.undeserializable");
                        }
                    }
                }
            }
        }
    }
    sh.nontrivial(fnv(sig_base.as_bytes()));
    sh.sample(|| desc(json!(null)));
}

// ---------------------------------------------------------------- part D: anchored verification flow

fn to_requested(s: &St) -> RequestedStatement<AttributeTag> {
    match s {
        AtomicStatementV1::AttributeValue(st) => RequestedStatement::RevealAttribute(RevealAttributeStatement { attribute_tag: st.attribute_tag }),
        AtomicStatementV1::AttributeInRange(st) => RequestedStatement::AttributeInRange(st.clone()),
        AtomicStatementV1::AttributeInSet(st) => RequestedStatement::AttributeInSet(st.clone()),
        AtomicStatementV1::AttributeNotInSet(st) => RequestedStatement::AttributeNotInSet(st.clone()),
    }
}

fn hash32<T>(r: &mut CRng) -> concordium_base::contracts_common::hashes::HashBytes<T> {
    let mut b = [0u8; 32];
    r.0.fill(&mut b);
    concordium_base::contracts_common::hashes::HashBytes::new(b)
}

/// independent model of YearMonth::lower / upper
fn month_start(ym: YearMonth, next: bool) -> chrono::DateTime<chrono::Utc> {
    let (mut y, mut m) = (ym.year as i32, ym.month as u32);
    if next {
        m += 1;
        if m == 13 {
            m = 1;
            y += 1;
        }
    }
    chrono::TimeZone::with_ymd_and_hms(&chrono::Utc, y, m, 1, 0, 0, 0).single().expect("valid month")
}

fn fill_context(u: &UnfilledContextInformation, block_hash: &BlockHash, r: &mut CRng) -> ContextInformation {
    ContextInformation {
        given: u.given.iter().map(|p| p.to_context_property()).collect(),
        requested: u
            .requested
            .iter()
            .map(|l| match l {
                ContextLabel::BlockHash => LabeledContextProperty::BlockHash(*block_hash),
                ContextLabel::Nonce => LabeledContextProperty::Nonce(Nonce(hash32::<()>(r).as_ref().try_into().unwrap())),
                ContextLabel::PaymentHash => LabeledContextProperty::PaymentHash(hash32(r)),
                ContextLabel::ConnectionId => LabeledContextProperty::ConnectionId("conn".into()),
                ContextLabel::ResourceId => LabeledContextProperty::ResourceId("res".into()),
                ContextLabel::ContextString => LabeledContextProperty::ContextString("ctx".into()),
            })
            .map(|p| p.to_context_property())
            .collect(),
    }
}

struct Flow<'a> {
    sh: &'a mut Shard,
    idx: u64,
    sig: String,
    base: Value,
}

impl<'a> Flow<'a> {
    #[allow(clippy::too_many_arguments)]
    fn expect(&mut self, scenario: &str, want: PresentationVerificationResult, vc: &VerificationContext, req: &VerificationRequest, pres: &Pres, anchor: &VerificationRequestAnchorAndBlockHash, mats: &[VerificationMaterialWithValidity], gc: &GlobalContext<G1>) {
        self.sh.evaluations += 1;
        self.sh.hit(&format!("anchor.scenario.{}", scenario));
        let got = catch(|| verify_presentation_with_request_anchor(gc, vc, req, pres, anchor, mats));
        match &got {
            Ok(PresentationVerificationResult::Verified) => self.sh.hit("anchor.result.Verified"),
            Ok(PresentationVerificationResult::Failed(f)) => {
                self.sh.hit("reject.expected");
                self.sh.hit(&format!("anchor.result.Failed.{:?}", f))
            }
            Err(_) => self.sh.hit("note.verifier_panic.anchor"),
        }
        let ok = matches!(&got, Ok(x) if *x == want) && !(planted("c18.anchor") && scenario == "issuers.cross_network");
        if !ok {
            let mut c = self.base.clone();
            c["scenario"] = json!(scenario);
            c["expected"] = json!(format!("{:?}", want));
            c["got"] = json!(format!("{:?}", got));
            c["verification_request"] = serde_json::to_value(req).unwrap_or(json!(null));
            c["verification_context"] = json!(format!("{:?}", vc));
            self.sh.violate(self.idx, "anchored-verdict-wrong", format!("c18:anchor:{}:{}", scenario, self.sig), format!("anchored verification, scenario '{}': expected {:?}, got {:?}", scenario, want, got), c);
        }
    }
}

pub fn anchored_case(ctx: &ChildCtx, sh: &mut Shard, idx: u64, r: &mut CRng) {
    let g = global();
    let identity = (idx / 8 + ctx.shard as u64) % 2 == 0;
    let net_c = if r.0.chance(1, 2) { Network::Testnet } else { Network::Mainnet };
    let idp_c = r.0.below(4) as u32;
    let cred = if identity {
        match mk_identity_cred(r, net_c, idp_c) {
            Ok(c) => c,
            Err(e) => {
                sh.inconclusive.push(format!("identity credential fixture failed: {}", e));
                return;
            }
        }
    } else {
        mk_account_cred(r, net_c, idp_c)
    };
    sh.hit(if identity { "anchor.credential.identity" } else { "anchor.credential.account" });
    let my_type = if identity { IdentityCredentialType::IdentityCredential } else { IdentityCredentialType::AccountCredential };
    let other_type = if identity { IdentityCredentialType::AccountCredential } else { IdentityCredentialType::IdentityCredential };
    // true statements within the documented range technique
    let tags: Vec<AttributeTag> = cred.attrs.keys().copied().collect();
    let mut sts: Vec<St> = vec![];
    let mut guard = 0;
    let want = 1 + r.0.below(2) as usize;
    while sts.len() < want && guard < 50 {
        guard += 1;
        let t = *r.0.pick(&tags);
        let (s, _) = gen_v1_statement(r, t, &cred.attrs[&t], true);
        if truth_v1(&s, &cred.attrs) == Truth::True {
            sts.push(s);
        }
    }
    if sts.is_empty() {
        sh.hit("observe.anchor.no_statement_generated");
        return;
    }
    let idp_x = idp_c + 1;
    let idp_y = idp_c + 2;
    let other_net = flip(net_c);
    let me = IdentityProviderDid::new(idp_c, net_c);
    // baseline allow-list: the exact pair plus 0-2 others
    let mut base_issuers = vec![me.clone()];
    for _ in 0..r.0.below(3) {
        base_issuers.insert(r.0.below(base_issuers.len() as u64 + 1) as usize, IdentityProviderDid::new(*r.0.pick(&[idp_x, idp_y]), *r.0.pick(&[net_c, other_net])));
    }
    let sources = match r.0.below(3) {
        0 => vec![my_type],
        1 => vec![my_type, other_type],
        _ => vec![other_type, my_type],
    };
    let mut given = vec![LabeledContextProperty::Nonce(Nonce(hash32::<()>(r).as_ref().try_into().unwrap())), LabeledContextProperty::ConnectionId(format!("conn-{}", r.0.below(1000))), LabeledContextProperty::ResourceId("https://example.org".into())];
    if r.0.chance(1, 2) {
        given.push(LabeledContextProperty::ContextString("hello".into()));
    }
    if r.0.chance(1, 3) {
        given.push(LabeledContextProperty::PaymentHash(hash32(r)));
    }
    let mut requested = vec![ContextLabel::BlockHash];
    if r.0.chance(1, 3) {
        requested.push(ContextLabel::ResourceId);
    }
    let unfilled = UnfilledContextInformation { given, requested };
    let req_claims = RequestedIdentitySubjectClaims { statements: sts.iter().map(to_requested).collect(), issuers: base_issuers.clone(), source: sources.clone() };
    let data = VerificationRequestData { context: unfilled.clone(), subject_claims: vec![RequestedSubjectClaims::Identity(req_claims.clone())] };
    let block_hash: BlockHash = hash32(r);
    let tx_hash: TransactionHash = hash32(r);
    let mk = |d: &VerificationRequestData| {
        (
            VerificationRequest { context: d.context.clone(), subject_claims: d.subject_claims.clone(), anchor_transaction_hash: tx_hash },
            VerificationRequestAnchorAndBlockHash { verification_request_anchor: d.to_anchor(None), block_hash },
        )
    };
    let pres_ctx = fill_context(&unfilled, &block_hash, r);
    let pres_req = Req { context: pres_ctx.clone(), subject_claims: vec![claims(&cred, sts.clone())] };
    let now = now_of(r);
    let prove = |rq: &Req, c: &CredV1, r: &mut CRng| catch(|| rq.clone().prove_with_rng::<P>(g, vec![private_inputs(c)].into_iter(), r, now));
    let pres: Pres = match prove(&pres_req, &cred, r) {
        Ok(Ok(p)) => p,
        other => {
            sh.evaluations += 1;
            sh.violate(idx, "rejected-true", format!("c18:anchor:prove:{}", idx), format!("anchored flow: all statements true but prove failed: {:?}", other.map(|o| o.map(|_| ()).map_err(|e| e.to_string()))), json!({"statements": serde_json::to_value(&sts).unwrap_or(json!(null)), "attributes": attrs_json(&cred.attrs)}));
            return;
        }
    };
    let lower = month_start(cred.validity.created_at, false);
    let upper = month_start(cred.validity.valid_to, true);
    let inside = lower + chrono::Duration::try_seconds(1 + r.0.below((upper - lower).num_seconds() as u64 - 1) as i64).unwrap();
    let vc = VerificationContext { network: net_c, validity_time: inside };
    let mats = vec![VerificationMaterialWithValidity { verification_material: material(&cred), validity: CredentialValidityType::ValidityPeriod(cred.validity.clone()) }];
    let (req0, anchor0) = mk(&data);
    let sig = format!("{}:{:016x}", if identity { "identity" } else { "account" }, fnv(serde_json::to_string(&serde_json::to_value(&req0).unwrap_or(json!(null))).unwrap_or_default().as_bytes()));
    let base = json!({"part": "anchored_verification", "credential": {"kind": if identity {"identity"} else {"account"}, "network": format!("{}", net_c), "identity_provider": idp_c, "validity": format!("{:?}", cred.validity), "attributes": attrs_json(&cred.attrs)},
        "presentation": serde_json::to_value(&pres).unwrap_or(json!(null)), "anchor_block_hash": format!("{}", block_hash)});
    let mut fl = Flow { sh, idx, sig, base };
    use PresentationVerificationResult::{Failed, Verified};

    // ---- baseline
    fl.expect("baseline", Verified, &vc, &req0, &pres, &anchor0, &mats, g);

    // ---- issuer allow-lists: ground truth = exact (identity provider, network) pair listed
    {
        let did = IdentityProviderDid::new;
        let fixed: Vec<(&str, Vec<IdentityProviderDid>)> = vec![
            ("issuers.only_exact", vec![did(idp_c, net_c)]),
            ("issuers.same_idp_other_network", vec![did(idp_c, other_net)]),
            ("issuers.other_idp_same_network", vec![did(idp_x, net_c)]),
            ("issuers.cross_network", vec![did(idp_c, other_net), did(idp_x, net_c)]),
            ("issuers.cross_network_3", vec![did(idp_x, net_c), did(idp_c, other_net), did(idp_y, net_c)]),
            ("issuers.exact_last_of_3", vec![did(idp_x, net_c), did(idp_y, other_net), did(idp_c, net_c)]),
            ("issuers.exact_first_mixed_networks", vec![did(idp_c, net_c), did(idp_x, other_net)]),
            ("issuers.empty", vec![]),
        ];
        let pool = [idp_c, idp_x, idp_y];
        let mut lists = fixed;
        for _ in 0..3 {
            let n = 1 + r.0.below(3);
            lists.push(("issuers.random", (0..n).map(|_| did(*r.0.pick(&pool), *r.0.pick(&[net_c, other_net]))).collect()));
        }
        for (name, list) in lists {
            let listed = list.iter().any(|d| d.identity_provider == IpIdentity(idp_c) && d.network == net_c);
            let mut d2 = data.clone();
            let RequestedSubjectClaims::Identity(c0) = &mut d2.subject_claims[0];
            c0.issuers = list.clone();
            let (rq, an) = mk(&d2);
            fl.sh.hit(if listed { "anchor.issuers.listed" } else { "anchor.issuers.unlisted" });
            fl.sh.hit(&format!("anchor.issuers.len{}", list.len()));
            if list.iter().any(|d| d.network != net_c) && list.iter().any(|d| d.network == net_c) {
                fl.sh.hit("anchor.issuers.mixed_networks");
            }
            fl.expect(name, if listed { Verified } else { Failed(F::CredentialIssuer) }, &vc, &rq, &pres, &an, &mats, g);
        }
    }
    // ---- credential type
    {
        let mut d2 = data.clone();
        let RequestedSubjectClaims::Identity(c0) = &mut d2.subject_claims[0];
        c0.source = vec![other_type];
        let (rq, an) = mk(&d2);
        fl.expect("source.excludes_type", Failed(F::CredentialType), &vc, &rq, &pres, &an, &mats, g);
        let mut d2 = data.clone();
        let RequestedSubjectClaims::Identity(c0) = &mut d2.subject_claims[0];
        c0.source = vec![my_type];
        let (rq, an) = mk(&d2);
        fl.expect("source.only_type", Verified, &vc, &rq, &pres, &an, &mats, g);
    }
    // ---- network of the verification context
    fl.expect("context.network", Failed(F::Network), &VerificationContext { network: other_net, validity_time: inside }, &req0, &pres, &anchor0, &mats, g);
    // ---- validity window [first instant of created_at month, first instant of the month after valid_to)
    {
        let sec = chrono::Duration::try_seconds(1).unwrap();
        for (name, t, want) in [
            ("validity.at_lower", lower, Verified),
            ("validity.before_lower", lower - sec, Failed(F::CredentialNotValidYet)),
            ("validity.last_second", upper - sec, Verified),
            ("validity.at_upper", upper, Failed(F::CredentialExpired)),
            ("validity.long_after", upper + chrono::Duration::try_days(400).unwrap(), Failed(F::CredentialExpired)),
            ("validity.long_before", lower - chrono::Duration::try_days(400).unwrap(), Failed(F::CredentialNotValidYet)),
        ] {
            fl.expect(name, want, &VerificationContext { network: net_c, validity_time: t }, &req0, &pres, &anchor0, &mats, g);
        }
    }
    // ---- request vs anchor
    {
        // request changed after anchoring (context / statements / issuers): the anchor hash no longer matches
        let mut rq = req0.clone();
        rq.context.given[1] = LabeledContextProperty::ConnectionId("other".into());
        fl.expect("anchor.request_context_changed", Failed(F::RequestAnchor), &vc, &rq, &pres, &anchor0, &mats, g);
        let mut rq = req0.clone();
        let RequestedSubjectClaims::Identity(c0) = &mut rq.subject_claims[0];
        c0.issuers.push(IdentityProviderDid::new(idp_y, net_c));
        fl.expect("anchor.request_issuers_changed", Failed(F::RequestAnchor), &vc, &rq, &pres, &anchor0, &mats, g);
        let mut rq = req0.clone();
        let RequestedSubjectClaims::Identity(c0) = &mut rq.subject_claims[0];
        c0.statements.pop();
        fl.expect("anchor.request_statements_changed", Failed(F::RequestAnchor), &vc, &rq, &pres, &anchor0, &mats, g);
        let mut an = anchor0.clone();
        an.verification_request_anchor.hash = hash32(r);
        fl.expect("anchor.hash_changed", Failed(F::RequestAnchor), &vc, &req0, &pres, &an, &mats, g);
        // block hash of the anchor
        let mut an = anchor0.clone();
        an.block_hash = hash32(r);
        fl.expect("anchor.block_hash", Failed(F::VraBlockHash), &vc, &req0, &pres, &an, &mats, g);
    }
    // ---- statements / claims vs request (properly re-anchored)
    {
        let cur = sts[0].attribute();
        let other = cred.attrs.keys().find(|x| **x != cur && enc(&cred.attrs[*x]) != enc(&cred.attrs[&cur])).copied();
        if let Some((s2, _)) = alter_v1(r, &sts[0], other.as_ref()) {
            if to_requested(&s2) != to_requested(&sts[0]) {
                let mut d2 = data.clone();
                let RequestedSubjectClaims::Identity(c0) = &mut d2.subject_claims[0];
                c0.statements[0] = to_requested(&s2);
                let (rq, an) = mk(&d2);
                fl.expect("claims.statement_differs", Failed(F::SubjectClaims), &vc, &rq, &pres, &an, &mats, g);
            }
        }
        let mut d2 = data.clone();
        let RequestedSubjectClaims::Identity(c0) = &mut d2.subject_claims[0];
        c0.statements.push(RequestedStatement::RevealAttribute(RevealAttributeStatement { attribute_tag: cur }));
        let (rq, an) = mk(&d2);
        fl.expect("claims.extra_statement_requested", Failed(F::SubjectClaims), &vc, &rq, &pres, &an, &mats, g);
        let mut d2 = data.clone();
        d2.subject_claims.push(d2.subject_claims[0].clone());
        let (rq, an) = mk(&d2);
        fl.expect("claims.extra_subject_requested", Failed(F::SubjectClaims), &vc, &rq, &pres, &an, &mats, g);
        let mut d2 = data.clone();
        d2.subject_claims.clear();
        let (rq, an) = mk(&d2);
        fl.expect("claims.none_requested", Failed(F::SubjectClaims), &vc, &rq, &pres, &an, &mats, g);
    }
    // ---- context of the request vs the presentation (properly re-anchored)
    {
        let mut d2 = data.clone();
        d2.context.given[1] = LabeledContextProperty::ConnectionId("other".into());
        let (rq, an) = mk(&d2);
        fl.expect("context.given_value_differs", Failed(F::ContextInformation), &vc, &rq, &pres, &an, &mats, g);
        let mut d2 = data.clone();
        d2.context.given.pop();
        let (rq, an) = mk(&d2);
        fl.expect("context.given_missing", Failed(F::ContextInformation), &vc, &rq, &pres, &an, &mats, g);
        let mut d2 = data.clone();
        d2.context.given.swap(0, 1);
        let (rq, an) = mk(&d2);
        fl.expect("context.given_reordered", Failed(F::ContextInformation), &vc, &rq, &pres, &an, &mats, g);
        let mut d2 = data.clone();
        d2.context.requested.push(ContextLabel::ContextString);
        let (rq, an) = mk(&d2);
        fl.expect("context.requested_label_missing_in_presentation", Failed(F::ContextInformation), &vc, &rq, &pres, &an, &mats, g);
    }
    // ---- cryptographic verification
    {
        let mut m2 = mats.clone();
        match &mut m2[0].verification_material {
            CredentialVerificationMaterial::Account(a) => {
                let t = sts[0].attribute();
                let e = a.attribute_commitments.get_mut(&t).unwrap();
                *e = Commitment(e.0.plus_point(&g.on_chain_commitment_key.g));
            }
            CredentialVerificationMaterial::Identity(i) => bump(&mut i.ip_info.ip_verify_key.x_tilda),
        }
        fl.expect("crypto.material_altered", Failed(F::PresentationUnverifiable), &vc, &req0, &pres, &anchor0, &m2, g);
        fl.expect("crypto.no_material", Failed(F::PresentationUnverifiable), &vc, &req0, &pres, &anchor0, &[], g);
        let mut p2 = pres.clone();
        match &mut p2.verifiable_credentials[0] {
            CredentialV1::Account(a) => a.proof.created_at += chrono::Duration::try_seconds(1).unwrap(),
            CredentialV1::Identity(a) => a.proof.created_at += chrono::Duration::try_seconds(1).unwrap(),
        }
        fl.expect("crypto.presentation_altered", Failed(F::PresentationUnverifiable), &vc, &req0, &p2, &anchor0, &mats, g);
        fl.expect("crypto.global_context", Failed(F::PresentationUnverifiable), &vc, &req0, &pres, &anchor0, &mats, other_global());
    }
    // ---- scenarios that need another (cheap, account based) presentation
    {
        let acc = mk_account_cred(r, net_c, idp_c);
        let t = *acc.attrs.keys().next().unwrap();
        let st = AtomicStatementV1::AttributeValue(AttributeValueStatement { attribute_tag: t, attribute_value: acc.attrs[&t].clone(), _phantom: PhantomData });
        let acc_mats = vec![VerificationMaterialWithValidity { verification_material: material(&acc), validity: CredentialValidityType::ValidityPeriod(cred.validity.clone()) }];
        let acc_claims = RequestedIdentitySubjectClaims { statements: vec![to_requested(&st)], issuers: vec![me.clone()], source: vec![IdentityCredentialType::AccountCredential] };
        let mut run_aux = |name: &str, want: PresentationVerificationResult, unf: UnfilledContextInformation, tweak: &dyn Fn(&mut ContextInformation), r: &mut CRng| {
            let d = VerificationRequestData { context: unf.clone(), subject_claims: vec![RequestedSubjectClaims::Identity(acc_claims.clone())] };
            let (rq, an) = mk(&d);
            let mut pc = fill_context(&unf, &block_hash, r);
            tweak(&mut pc);
            let prq = Req { context: pc, subject_claims: vec![claims(&acc, vec![st.clone()])] };
            match prove(&prq, &acc, r) {
                Ok(Ok(p)) => fl.expect(name, want, &vc, &rq, &p, &an, &acc_mats, g),
                _ => fl.sh.inconclusive.push(format!("auxiliary presentation for scenario {} could not be proved", name)),
            }
        };
        let simple = UnfilledContextInformation { given: vec![LabeledContextProperty::ConnectionId("c".into())], requested: vec![ContextLabel::BlockHash] };
        run_aux("aux.baseline", Verified, simple.clone(), &|_| {}, r);
        run_aux("aux.no_block_hash_requested", Failed(F::NoVraBlockHash), UnfilledContextInformation { given: simple.given.clone(), requested: vec![] }, &|_| {}, r);
        run_aux("aux.block_hash_removed_from_presentation", Failed(F::NoVraBlockHash), simple.clone(), &|c| c.requested.clear(), r);
        run_aux("aux.block_hash_unparsable", Failed(F::InvalidContextPropertyValue), simple.clone(), &|c| c.requested[0].context = "zz".into(), r);
        run_aux("aux.block_hash_other_block", Failed(F::VraBlockHash), simple.clone(), &|c| c.requested[0].context = "11".repeat(32), r);
        run_aux("aux.unknown_given_label", Failed(F::UnknownContextProperty), simple.clone(), &|c| c.given.push(ContextProperty { label: "Foo".into(), context: "bar".into() }), r);
        run_aux("aux.unknown_requested_label", Failed(F::UnknownContextProperty), simple.clone(), &|c| c.requested.push(ContextProperty { label: "Foo".into(), context: "bar".into() }), r);
        run_aux("aux.invalid_given_value", Failed(F::InvalidContextPropertyValue), simple.clone(), &|c| c.given.push(ContextProperty { label: "Nonce".into(), context: "not-hex".into() }), r);
        run_aux("aux.extra_given_property", Failed(F::ContextInformation), simple.clone(), &|c| c.given.push(ContextProperty { label: "ResourceID".into(), context: "r".into() }), r);
        run_aux("aux.given_value_changed_in_presentation", Failed(F::ContextInformation), simple.clone(), &|c| c.given[0].context = "d".into(), r);
        run_aux("aux.extra_requested_property", Failed(F::ContextInformation), simple.clone(), &|c| c.requested.push(ContextProperty { label: "ResourceID".into(), context: "r".into() }), r);
    }
    // ---- audit record: hash is a function of every part, anchor carries the hash, serialization round trips
    {
        let rec = VerificationAuditRecord::new("audit-1".into(), req0.clone(), pres.clone());
        let h = rec.hash();
        fl.sh.evaluations += 1;
        fl.sh.hit("audit.checked");
        let mut problems = vec![];
        if rec.to_anchor(None).hash != h || rec.to_anchor(None).r#type != "CCDVAA" {
            problems.push("anchor does not carry the record hash / type");
        }
        if VerificationAuditRecord::new("audit-1".into(), req0.clone(), pres.clone()).hash() != h {
            problems.push("hash is not deterministic");
        }
        if VerificationAuditRecord::new("audit-2".into(), req0.clone(), pres.clone()).hash() == h {
            problems.push("hash ignores the id");
        }
        let mut rq = req0.clone();
        rq.anchor_transaction_hash = hash32(r);
        if VerificationAuditRecord::new("audit-1".into(), rq, pres.clone()).hash() == h {
            problems.push("hash ignores the request's transaction reference");
        }
        let mut p2 = pres.clone();
        p2.presentation_context.given.push(ContextProperty { label: "x".into(), context: "y".into() });
        if VerificationAuditRecord::new("audit-1".into(), req0.clone(), p2).hash() == h {
            problems.push("hash ignores the presentation");
        }
        match deser::<VerificationAuditRecord>(&to_bytes(&rec)) {
            Some(r2) if r2 == rec && r2.hash() == h => {}
            _ => problems.push("record does not survive a serialization round trip"),
        }
        if data.to_anchor(None).hash != data.hash() || data.to_anchor(None).r#type != "CCDVRA" {
            problems.push("request anchor does not carry the request data hash / type");
        }
        if !problems.is_empty() {
            let sigx = fl.sig.clone();
            fl.sh.violate(idx, "audit-record", format!("c18:audit:{}:{}", problems[0], sigx), format!("verification audit record / anchor: {}", problems.join("; ")), fl.base.clone());
        }
    }
    let s = fl.sig.clone();
    fl.sh.nontrivial(fnv(s.as_bytes()));
    let b = fl.base.clone();
    fl.sh.sample(|| b);
}
