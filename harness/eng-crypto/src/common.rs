//! Shared helpers of the crypto engine: deterministic `rand` adaptor, byte
//! level perturbation of serialized group elements / scalars, transcript
//! dispatch, and a recording `TranscriptProtocol`.
#![allow(dead_code)]
use concordium_base::{
    common::{from_bytes, to_bytes, Deserial, Serial},
    curve_arithmetic::{Curve, Field},
    random_oracle::{Challenge, RandomOracle, TranscriptProtocol, TranscriptProtocolV1},
};

/// `rand_core` adaptor over the harness PRNG. Deterministic; claims
/// `CryptoRng` only to satisfy the library's trait bounds.
pub struct CRng(pub vmon_core::Rng);

impl rand_core::RngCore for CRng {
    fn next_u32(&mut self) -> u32 { self.0.next() as u32 }

    fn next_u64(&mut self) -> u64 { self.0.next() }

    fn fill_bytes(&mut self, dest: &mut [u8]) {
        for ch in dest.chunks_mut(8) {
            let x = self.0.next().to_le_bytes();
            ch.copy_from_slice(&x[..ch.len()]);
        }
    }

    fn try_fill_bytes(&mut self, dest: &mut [u8]) -> Result<(), rand_core::Error> {
        self.fill_bytes(dest);
        Ok(())
    }
}
impl rand_core::CryptoRng for CRng {}

impl CRng {
    /// random byte string of length < max
    pub fn rand_bytes(&mut self, max: u64) -> Vec<u8> {
        let n = self.0.below(max) as usize;
        self.0.bytes(n)
    }
}

/// Optional planted break of the *harness* (never of /repo), used to check
/// that the violation path works end to end: `VMON_PLANT=<name>`.
pub fn planted(name: &str) -> bool { std::env::var("VMON_PLANT").map(|v| v == name).unwrap_or(false) }

pub fn deser<T: Deserial>(b: &[u8]) -> Option<T> {
    let mut c = std::io::Cursor::new(b);
    let v: T = from_bytes(&mut c).ok()?;
    if c.position() as usize != b.len() {
        return None;
    }
    Some(v)
}

/// Replace the group element serialized at `off` by itself plus the group
/// generator (another valid point). Returns false if the bytes do not parse.
pub fn bump_point<C: Curve>(bytes: &mut [u8], off: usize) -> bool {
    let l = C::GROUP_ELEMENT_LENGTH;
    if off + l > bytes.len() {
        return false;
    }
    match deser::<C>(&bytes[off..off + l]) {
        Some(p) => {
            let q = p.plus_point(&C::one_point());
            let nb = to_bytes(&q);
            if nb.len() != l {
                return false;
            }
            bytes[off..off + l].copy_from_slice(&nb);
            true
        }
        None => false,
    }
}

/// Replace the scalar serialized at `off` by itself plus one.
pub fn bump_scalar<C: Curve>(bytes: &mut [u8], off: usize) -> bool {
    let l = C::SCALAR_LENGTH;
    if off + l > bytes.len() {
        return false;
    }
    match deser::<C::Scalar>(&bytes[off..off + l]) {
        Some(mut s) => {
            s.add_assign(&C::Scalar::one());
            let nb = to_bytes(&s);
            if nb.len() != l {
                return false;
            }
            bytes[off..off + l].copy_from_slice(&nb);
            true
        }
        None => false,
    }
}

/// Which transcript implementation a case uses.
#[derive(Clone, Copy, PartialEq, Eq, Debug)]
pub enum TrKind {
    Legacy,
    V1,
}
impl TrKind {
    pub fn name(self) -> &'static str {
        match self {
            TrKind::Legacy => "legacy",
            TrKind::V1 => "v1",
        }
    }
}

#[allow(deprecated)]
pub fn legacy(domain: &[u8]) -> RandomOracle { RandomOracle::domain(domain) }

pub fn v1(domain: &[u8]) -> TranscriptProtocolV1 { TranscriptProtocolV1::with_domain(domain) }

/// Run `$body` with `$t` bound to a fresh transcript of kind `$kind` with
/// domain `$dom` (the transcript functions are generic, not object safe).
#[macro_export]
macro_rules! with_tr {
    ($kind:expr, $dom:expr, |$t:ident| $body:expr) => {
        match $kind {
            $crate::common::TrKind::Legacy => {
                let mut $t = $crate::common::legacy($dom);
                $body
            }
            $crate::common::TrKind::V1 => {
                let mut $t = $crate::common::v1($dom);
                $body
            }
        }
    };
}

/// One recorded transcript operation. The encoding (`Rec::bytes`) is
/// injective: tag, then length-prefixed parts.
#[derive(Clone, Debug, PartialEq, Eq)]
pub enum Op {
    Label(Vec<u8>),
    Msg(Vec<u8>, Vec<u8>),
    Msgs(Vec<u8>, Vec<Vec<u8>>),
    Final(Vec<u8>, Vec<u8>),
    EachBegin(Vec<u8>, u64),
    EachEnd,
    ChallengeScalar(Vec<u8>),
}

/// A recording transcript: forwards every operation to the wrapped real
/// transcript (so the real framing and hash are exercised) and records an
/// injective encoding of the operation sequence.
pub struct Rec<T: TranscriptProtocol> {
    pub inner: T,
    pub ops: Vec<Op>,
}

impl<T: TranscriptProtocol> Rec<T> {
    pub fn new(inner: T) -> Self { Rec { inner, ops: vec![] } }

    /// injective byte encoding of the recorded operation stream
    pub fn bytes(&self) -> Vec<u8> {
        fn lp(out: &mut Vec<u8>, b: &[u8]) {
            out.extend_from_slice(&(b.len() as u64).to_be_bytes());
            out.extend_from_slice(b);
        }
        let mut out = vec![];
        for op in &self.ops {
            match op {
                Op::Label(l) => {
                    out.push(1);
                    lp(&mut out, l);
                }
                Op::Msg(l, m) => {
                    out.push(2);
                    lp(&mut out, l);
                    lp(&mut out, m);
                }
                Op::Msgs(l, ms) => {
                    out.push(3);
                    lp(&mut out, l);
                    out.extend_from_slice(&(ms.len() as u64).to_be_bytes());
                    for m in ms {
                        lp(&mut out, m);
                    }
                }
                Op::Final(l, m) => {
                    out.push(4);
                    lp(&mut out, l);
                    lp(&mut out, m);
                }
                Op::EachBegin(l, n) => {
                    out.push(5);
                    lp(&mut out, l);
                    out.extend_from_slice(&n.to_be_bytes());
                }
                Op::EachEnd => out.push(6),
                Op::ChallengeScalar(l) => {
                    out.push(7);
                    lp(&mut out, l);
                }
            }
        }
        out
    }

    /// total number of message payload bytes recorded
    pub fn payload_len(&self) -> usize {
        self.ops
            .iter()
            .map(|o| match o {
                Op::Msg(_, m) | Op::Final(_, m) => m.len(),
                Op::Msgs(_, ms) => ms.iter().map(|m| m.len()).sum(),
                _ => 0,
            })
            .sum()
    }
}

impl<T: TranscriptProtocol> TranscriptProtocol for Rec<T> {
    fn append_label(&mut self, label: impl AsRef<[u8]>) {
        self.ops.push(Op::Label(label.as_ref().to_vec()));
        self.inner.append_label(label)
    }

    fn append_message(&mut self, label: impl AsRef<[u8]>, message: &impl Serial) {
        self.ops.push(Op::Msg(label.as_ref().to_vec(), to_bytes(message)));
        self.inner.append_message(label, message)
    }

    fn append_messages<'a, M: Serial + 'a, B: IntoIterator<Item = &'a M>>(&mut self, label: impl AsRef<[u8]>, messages: B)
    where
        B::IntoIter: ExactSizeIterator, {
        let items: Vec<&'a M> = messages.into_iter().collect();
        self.ops.push(Op::Msgs(label.as_ref().to_vec(), items.iter().map(|m| to_bytes(*m)).collect()));
        self.inner.append_messages(label, items)
    }

    fn append_final_prover_message(&mut self, label: impl AsRef<[u8]>, message: &impl Serial) {
        self.ops.push(Op::Final(label.as_ref().to_vec(), to_bytes(message)));
        self.inner.append_final_prover_message(label, message)
    }

    fn append_each_message<M, B: IntoIterator<Item = M>>(&mut self, label: impl AsRef<[u8]>, messages: B, mut append_item: impl FnMut(&mut Self, M))
    where
        B::IntoIter: ExactSizeIterator, {
        let items: Vec<M> = messages.into_iter().collect();
        self.ops.push(Op::EachBegin(label.as_ref().to_vec(), items.len() as u64));
        // let the real transcript emit its own framing (label, and the item
        // count for V1) for a collection of this size, then feed the items
        // through this recorder
        let units = vec![(); items.len()];
        self.inner.append_each_message(label, units, |_, _| {});
        for m in items {
            append_item(self, m);
        }
        self.ops.push(Op::EachEnd);
    }

    fn extract_challenge_scalar<C: Curve>(&mut self, label: impl AsRef<[u8]>) -> C::Scalar {
        self.ops.push(Op::ChallengeScalar(label.as_ref().to_vec()));
        self.inner.extract_challenge_scalar::<C>(label)
    }

    fn extract_raw_challenge(&self) -> Challenge { self.inner.extract_raw_challenge() }
}

pub fn hex(b: &[u8]) -> String { vmon_core::hex(b) }
