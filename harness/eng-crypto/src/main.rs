//! eng-crypto: runtime monitors for C11 (bulletproofs), C07 (sigma protocols and
//! transcript framing), C08 (identity credentials), C18 (attribute statement
//! proofs and presentations). See /verif/DESIGN.md section 5 and
//! /verif/harness/ENGINE_GUIDE.md.
mod c07;
mod c08;
mod c11;
mod c18;
mod c18v1;
mod common;

use vmon_core::{ChildCtx, Engine, Plan, Shard, Tier};

struct E;

const SOUNDNESS: &str = "soundness clauses are only exercised with the cheating strategies implemented here (the library's own prover on false inputs, single-component perturbations, cross-instance splicing); 'no accepted forgery among the attempts made', not 'no forgery exists' (DESIGN.md section 7)";
const RNG: &str = "all library randomness comes from a SplitMix64 stream wrapped as rand_core::RngCore + CryptoRng (deterministic, not cryptographically strong; irrelevant for completeness/binding checks)";

fn floors(v: &[(&str, u64)]) -> Vec<(String, u64)> { v.iter().map(|(k, n)| (k.to_string(), *n)).collect() }

impl Engine for E {
    fn name(&self) -> &'static str { "eng-crypto" }

    fn props(&self) -> Vec<&'static str> { vec!["C11", "C07", "C08", "C18"] }

    fn plan(&self, prop: &str, tier: Tier) -> Plan {
        let quick = tier == Tier::Quick;
        let mut p = Plan { assumptions: vec![SOUNDNESS.into(), RNG.into()], ..Plan::default() };
        match prop {
            "C11" => {
                p.cases = if quick { 96 } else { 3400 };
                p.timeout_s = if quick { 900 } else { 3 * 3600 };
                p.rule = "case = one statement instance over BLS12-381 G1 with fresh generators/keys: idx%8 in {0,4} aggregated range proof (n,m cycled over {1,2,4,8,16,32,64}x{1,2,4,8}), 1 a<=b, 5 v in [a,b) (boundary plans cycled), {2,6} set membership, {3,7} set non-membership (sizes 1,2,3,4,5,8,9,16,17; v first/last/some/adjacent/absent). Ground truth by integer arithmetic in the harness. evaluations = judged prover+verifier executions (honest proof must verify; every single-component perturbation of proof/commitments/n/m/generators/keys/transcript/version and every proof the library's prover emits for a false statement must not verify). distinct_nontrivial = distinct true instances (hash of parameters and proof) whose honest proof verified and whose perturbations were all run".into();
                p.assumptions.push("ground truth is u64/u128 integer comparison and set lookup in the harness; commitments to out-of-range values are computed by the harness with CommitmentKey::hide_worker (trusted: a 2-base multiexp)".into());
                p.assumptions.push("proof components are perturbed on the serialized form (field offsets of RangeProof/SetMembershipProof/SetNonMembershipProof over G1) and re-deserialized with the library's Deserial".into());
                let s = if quick { 1 } else { 10 };
                p.floors = floors(&[
                    ("complete.range", 40 * s),
                    ("complete.leq", 10 * s),
                    ("complete.in_range", 10 * s),
                    ("complete.set_member", 30 * s),
                    ("complete.set_nonmember", 15 * s),
                    ("reject.expected", 2000 * s),
                    ("range.n1", s),
                    ("range.n2", s),
                    ("range.n4", s),
                    ("range.n8", s),
                    ("range.n16", s),
                    ("range.n32", s),
                    ("range.n64", s),
                    ("range.m1", 2 * s),
                    ("range.m2", 2 * s),
                    ("range.m4", 2 * s),
                    ("range.m8", 2 * s),
                    ("perturb.range.A", 40 * s),
                    ("perturb.range.S", 40 * s),
                    ("perturb.range.T_1", 40 * s),
                    ("perturb.range.T_2", 40 * s),
                    ("perturb.range.tx", 40 * s),
                    ("perturb.range.tx_tilde", 40 * s),
                    ("perturb.range.e_tilde", 40 * s),
                    ("perturb.range.L", 40 * s),
                    ("perturb.range.R", 40 * s),
                    ("perturb.range.ip_a", 40 * s),
                    ("perturb.range.ip_b", 40 * s),
                    ("perturb.range.commitment", 40 * s),
                    ("perturb.range.n", 40 * s),
                    ("perturb.range.m", 20 * s),
                    ("perturb.range.gens.G_replaced", 40 * s),
                    ("perturb.range.gens.H_replaced", 40 * s),
                    ("perturb.range.gens.permuted", 20 * s),
                    ("perturb.range.transcript.domain", 40 * s),
                    ("perturb.range.false_statement", 20 * s),
                    ("false.range.via_prove", 5 * s),
                    ("false.range.via_prove_given_scalars", 5 * s),
                    ("boundary.leq.true", 10 * s),
                    ("boundary.leq.false", 5 * s),
                    ("boundary.in_range.true", 10 * s),
                    ("boundary.in_range.false", 10 * s),
                    ("in_range.plan.v=a", 2 * s),
                    ("in_range.plan.v=b-1", 2 * s),
                    ("in_range.plan.v=b", 2 * s),
                    ("in_range.plan.a=b=v", 2 * s),
                    ("leq.plan.a=b", 2 * s),
                    ("leq.plan.a=b+1", 2 * s),
                    ("boundary.set_member.true", 30 * s),
                    ("boundary.set_member.false", 15 * s),
                    ("boundary.set_nonmember.true", 15 * s),
                    ("boundary.set_nonmember.false", 30 * s),
                    ("set_member.size1", s),
                    ("set_member.size3", s),
                    ("set_member.size5", s),
                    ("set_member.size9", s),
                    ("set_nonmember.size1", s),
                    ("set_nonmember.size3", s),
                    ("set_nonmember.size5", s),
                    ("set_nonmember.size9", s),
                    ("perturb.set_member.set_makes_statement_false", 30 * s),
                    ("perturb.set_nonmember.set_makes_statement_false", 15 * s),
                    ("perturb.set_member.L", 20 * s),
                    ("perturb.range.lr_short", 40 * s),
                    ("perturb.range.lr_long", 40 * s),
                    ("perturb.range.lr_long_zero", 40 * s),
                    ("perturb.range.lr_long2", 40 * s),
                    ("perturb.set_member.lr_long", 30 * s),
                    ("perturb.set_member.lr_long_zero", 30 * s),
                    ("perturb.set_member.lr_long2", 30 * s),
                    ("perturb.set_nonmember.lr_long", 15 * s),
                    ("perturb.set_nonmember.lr_long2", 15 * s),
                    ("complete.leq_same_commitment", 10 * s),
                    ("perturb.leq.same_commitment_out_of_range", 20 * s),
                    ("perturb.in_range.equal_bounds", 20 * s),
                    ("set_member.member_twice.V1", 4 * s),
                    ("set_member.member_twice.V2", 4 * s),
                    ("set_member.last_repeated_by_padding.V1", 3 * s),
                    ("set_member.last_repeated_by_padding.V2", 3 * s),
                    ("set_member.position.twice", 15 * s),
                    ("perturb.set_nonmember.L", 10 * s),
                ]);
            }
            "C07" => {
                p.cases = if quick { 128 } else { 3000 };
                p.timeout_s = if quick { 900 } else { 3 * 3600 };
                p.rule = "case idx%16 selects the protocol (dlog, com_eq, com_eq_different_groups, com_eq_sig, com_enc_eq(+adaptive-generator forgery attempt), com_lin, com_mult, com_ineq, aggregate_dlog, vcom_eq, ps_sig_known, enc_trans, And(dlog,com_mult), And(And(com_eq,aggregate_dlog),com_eq_sig), Replicate(com_eq|dlog), V1 framing pairs); a valid statement/witness is built by the harness over BLS12-381 (witnesses boundary weighted 0/1/r-1/random, sizes 0/1/2/17/40..64 where a size exists), proved with the library under a random context (legacy or V1 transcript, random domain, optional prefix message). evaluations = judged executions: honest verify must accept and leave the context in the prover's state; verify with each statement field / context / challenge / response scalar altered must reject; `public` on original vs perturbed statement through a recording TranscriptProtocol wrapping the real oracles must give different streams and challenges; framing: pairs of distinct V1 operation sequences with equal skeleton must give different challenges. distinct_nontrivial = distinct honest proofs (hash of proof bytes) whose whole perturbation list ran".into();
                p.assumptions.push("statement/witness instances are built by the harness from the public constructors (with_valid_data is cfg(test)); com_lin's response is computed by the harness because ComLinSecret cannot be constructed outside the crate".into());
                p.assumptions.push("the recording transcript forwards every operation to the real RandomOracle / TranscriptProtocolV1 and records an injective encoding of the operation stream; legacy-oracle streams are only compared for library-produced sequences".into());
                p.floors = c07::floors(if quick { 1 } else { 10 });
            }
            "C08" => {
                p.cases = if quick { 8 } else { 160 };
                p.timeout_s = if quick { 1200 } else { 3 * 3600 };
                p.rule = "case = one full identity pipeline over the library's own functions: IP with n ARs (n,t cycled over all 1<=t<=n<=6), v0 (generate_pio, validate_request, verify_credentials, verify_initial_cdi) or v1 (generate_pio_v1_with_rng, validate_request_v1, verify_credentials_v1) identity object, attribute lists of 0/1/3/13 values (lengths 0..31), policy revealing none/one/all, max_accounts 4/255/random, counter 0/1/max-1/max, new or existing account, 1-3 credential keys with contiguous or sparse key indices, the chosen revokers being a prefix 1..=n or a sparse non-prefix subset of the revokers known to the provider and the chain; create_credential; verify_cdi. evaluations = judged executions: every honest stage must accept (also after a serialization round trip); every subset of >= t revokers must reconstruct g^idCredSec from the decrypted AR data (and the PRF key from the pre-identity object on part of the n<=3 pipelines), subsets of size t-1 must not; verify_cdi must reject each single-field perturbation of values / commitments / challenge / every response scalar / range proof component / account signatures / wire bytes / the key structure of every map (signatures, keys, AR data, proofs, commitments, policy re-indexed in place; also in the identity request), a different expiry/address/IP key/AR key/global context, and counter = max_accounts+1 must not yield an accepted credential. Every 4th case additionally probes an IP key of exactly the minimal length. distinct_nontrivial = distinct accepted credentials (configuration + CDI bytes)".into();
                p.assumptions.push("fixtures come from concordium_base::id::test (feature internal-test-helpers): test_create_ip_info, test_create_ars, test_create_id_use_data; ground truth for revocation is g^idCredSec / the PRF key taken from the holder's secret data".into());
                p.assumptions.push("generate_pio (v0), create_credential and sign_identity_object use thread_rng() inside the library: configurations are reproducible from the seed, proof randomness is not; violation records carry the CDI bytes".into());
                let s = if quick { 1 } else { 10 };
                let mut f: Vec<(&str, u64)> = vec![
                    ("accept.generate_pio", 15), ("accept.generate_pio_v1", 15), ("accept.validate_request", 15), ("accept.validate_request_v1", 15),
                    ("accept.verify_credentials", 15), ("accept.verify_credentials_v1", 15), ("accept.verify_initial_cdi", 15),
                    ("accept.create_credential", 40), ("accept.verify_cdi", 40), ("accept.verify_cdi.after_roundtrip", 40),
                    ("cfg.ars.1", 2), ("cfg.ars.2", 2), ("cfg.ars.3", 2), ("cfg.ars.4", 2), ("cfg.ars.5", 2), ("cfg.ars.6", 2),
                    ("cfg.threshold.1", 2), ("cfg.threshold.2", 2), ("cfg.threshold.3", 2), ("cfg.threshold.4", 2), ("cfg.threshold.5", 2), ("cfg.threshold.6", 1),
                    ("cfg.attrs.0", 8), ("cfg.attrs.1", 8), ("cfg.attrs.3", 8), ("cfg.attrs.13", 8),
                    ("cfg.reveal.none", 10), ("cfg.reveal.one", 10), ("cfg.reveal.all", 10),
                    ("cfg.counter.0", 8), ("cfg.counter.1", 8), ("cfg.counter.max-1", 8), ("cfg.counter.max", 8),
                    ("cfg.max_accounts.4", 10), ("cfg.max_accounts.255", 10),
                    ("cfg.account.new", 15), ("cfg.account.existing", 15),
                    ("revoke.id_cred_pub.subset", 400), ("revoke.id_cred_pub.size_t", 150), ("revoke.id_cred_pub.size_gt_t", 250), ("revoke.id_cred_pub.below_threshold", 50),
                    ("revoke.prf_key.subset", 10), ("revoke.prf_key.below_threshold", 4),
                    ("perturb.counter.max+1", 20), ("cfg.ar_choice.prefix", 10), ("cfg.ar_choice.sparse", 25), ("cfg.ar_choice.proper_subset_of_known", 20), ("cfg.ar_choice.sparse_threshold_ge_2", 15),
                    ("cfg.keys.sparse", 30), ("cfg.keys.contiguous", 10), ("perturb.pio.proof_acc_sk.shifted", 15), ("perturb.pio.ip_ar_data.shifted", 8), ("perturb.pio.vk_acc.keys.shifted", 6), ("perturb.pio_v1.ip_ar_data.shifted", 8), ("perturb.initial_cdi.expiry", 15), ("probe.minimal_ps_key", 8), ("probe.minimal_ps_key.ok", 8), ("probe.minimal_ps_key.ars1", 2), ("probe.minimal_ps_key.ars2", 2), ("probe.minimal_ps_key.ars3", 2), ("probe.minimal_ps_key.attrs0", 2), ("probe.minimal_ps_key.attrs1", 2), ("probe.minimal_ps_key.attrs2", 2), ("probe.minimal_ps_key.attrs3", 2), ("reject.expected", 3000),
                ];
                for k in [
                    "bytes.bitflip", "context.ar_key", "context.global", "context.ip_key", "context.new_or_existing.kind", "context.new_or_existing.value", "proofs.challenge",
                    "proofs.commitments.cmm_attributes", "proofs.commitments.cmm_attributes.removed", "proofs.commitments.cmm_cred_counter", "proofs.commitments.cmm_max_accounts",
                    "proofs.commitments.cmm_prf", "proofs.commitments.sharing_coeff", "proofs.proof_acc_sk.removed", "proofs.proof_acc_sk.sig", "proofs.proof_id_cred_pub",
                    "proofs.proof_ip_sig", "proofs.proof_reg_id", "proofs.range_proof", "proofs.sig", "values.ar_data", "values.ar_data.remove", "values.ar_data.swap", "values.cred_id",
                    "values.cred_key_info.key", "values.cred_key_info.threshold", "values.ip_identity", "values.policy.created_at", "values.policy.revealed_added",
                    "values.policy.revealed_removed", "values.policy.revealed_value", "values.policy.valid_to", "values.threshold",
                    "context.ar_unknown", "index.ar_data.shifted", "index.ar_data_and_proofs.shifted", "index.cmm_attributes.shifted", "index.cred_key_info.shifted", "index.policy.shifted",
                    "index.proof_acc_sk.last_moved", "index.proof_acc_sk.shifted", "index.proof_id_cred_pub.shifted",
                ] {
                    p.floors.push((format!("perturb.cdi.{}", k), 12 * s));
                }
                p.floors.extend(f.drain(..).map(|(k, n)| (k.to_string(), n * s)));
            }
            "C18" => {
                p.cases = if quick { 96 } else { 2400 };
                p.timeout_s = if quick { 900 } else { 3 * 3600 };
                p.rule = "even cases: id statements - 1-5 committed attributes (Web3IdAttribute String of length 1..31 / Numeric), 1-4 atomic statements (reveal, in-range, in-set, not-in-set) generated at the boundaries (lower=value, value=upper-1, value=upper, value=lower-1, lower=upper, member first/last/absent/adjacent, set sizes 0,1,2,3,5,8,9), proof version 1 or 2, StatementWithContext::prove / verify. odd cases: web3id v0 presentations with 1-3 credentials (account and web3, empty statement lists allowed), Request::prove_with_rng / Presentation::verify incl. linking proof and JSON round trip. idx%8==6: two web3id v1 presentations (RequestV1::prove_with_rng / PresentationV1::verify) over account based and identity based credentials (identity object issued in the case, id::identity_attributes_credentials as sub-proof), same oracle style, all perturbations of context / credential fields / statements / statement proofs / identity attributes and their proofs / ephemeral id / validity / verification material. idx%8==7: anchored verification flow (web3id/v1/anchor/verify.rs): one valid baseline (request data, anchor, block hash, presentation, material, verification context) and ~60 single-deviation scenarios (issuer allow-lists with 0-3 (idp, network) pairs incl. cross combinations, credential type, network, validity window boundaries, request-vs-anchor, block hash, context given/requested, claims, cryptographic failure, audit record), each judged against the expected PresentationVerificationResult computed in the harness. Ground truth = comparison of the documented field embeddings in the harness (independent of to_field_element, cross-checked). evaluations = judged executions: all-true sets must be proved, verify (to the original request) and reveal the committed values; a set with one false statement must not yield a verifying proof; every perturbation of statement / challenge / credential id / global context / version / commitments / proofs / public inputs / holder / contract / issuer signature / linking signatures must not verify (for the documented unchecked account metadata: must not verify to the original request). distinct_nontrivial = distinct all-true requests whose perturbations all ran".into();
                p.assumptions.push("ground truth: harness embedding of attributes (String: length byte then right-aligned bytes; Numeric: the integer) compared as big integers; range statements are only demanded to be provable when value-lower < 2^64 and upper-value <= 2^64 (documented 64-bit technique)".into());
                p.assumptions.push("StatementWithContext::prove uses thread_rng() inside the library; web3id v0/v1 proofs use prove_with_rng with the case PRNG; identity objects for v1 identity based credentials are issued in the case with generate_pio_v1_with_rng / sign_identity_object_v1_with_rng; anchored-flow verdicts are predicted for single deviations from a valid baseline using the documented order of checks".into());
                let s = if quick { 1 } else { 10 };
                let mut f: Vec<(String, u64)> = vec![];
                for (k, n) in [
                    ("complete.id_statement_set", 60), ("complete.presentation", 60), ("complete.presentation.json_roundtrip", 60), ("id.false_statement_set", 30), ("pres.false_statement_set", 30),
                    ("id.revealed_value_checked", 40), ("pres.revealed_value_checked", 40), ("pres.credential.account", 80), ("pres.credential.web3", 80),
                    ("pres.credentials.1", 25), ("pres.credentials.2", 25), ("pres.credentials.3", 25), ("reject.expected", 6000),
                    ("id.statement.range.value=upper.False", 3), ("id.statement.range.lower=value,value=upper-1.True", 30), ("id.statement.range.value=upper-1.True", 10),
                    ("id.statement.range.value=lower-1.False", 2), ("id.statement.range.lower=upper=value.False", 2), ("id.statement.in_set.member.True", 40), ("id.statement.in_set.absent.False", 4),
                    ("id.statement.in_set.adjacent_absent.False", 4), ("id.statement.in_set.empty_set.False", 1), ("id.statement.not_in_set.member.False", 10), ("id.statement.not_in_set.absent.True", 20),
                    ("id.statement.not_in_set.adjacent_absent.True", 20), ("id.statement.reveal.True", 50),
                    ("pres.statement.account.range.value=upper.False", 2), ("pres.statement.web3.range.value=upper.False", 2), ("pres.statement.account.range.value=upper-1.True", 8), ("pres.statement.web3.range.value=upper-1.True", 8),
                    ("pres.statement.account.in_set.member.True", 30), ("pres.statement.web3.in_set.member.True", 30), ("pres.statement.account.not_in_set.member.False", 4), ("pres.statement.web3.not_in_set.member.False", 4),
                ] {
                    f.push((k.to_string(), n * s));
                }
                for k in ["challenge", "commitment", "commitment_missing", "credential_id", "global_context", "proof.bitflip", "proof.dropped", "proof.reordered", "proof.revealed_value", "statement.range.lower", "statement.range.upper", "statement.set.element_added", "statement.set.element_removed", "statement.tag", "version"] {
                    f.push((format!("perturb.id.{}", k), 12 * s));
                }
                for k in ["account.cred_id", "account.network", "credentials.reordered", "global_context", "linking.signature_altered", "linking.signature_extra", "linking.signature_removed", "presentation_context", "public.commitment", "public.issuer_key", "public.missing", "proofs.exchanged", "statement.range.lower", "statement.range.upper", "statement.set.element_added", "statement.set.element_removed", "statement.tag", "web3.commitments.commitment", "web3.commitments.signature", "web3.contract", "web3.created", "web3.holder", "web3.network"] {
                    f.push((format!("perturb.pres.{}", k), 8 * s));
                }
                // mixed v0 presentations (web3 + account credentials): the linking signatures bind every field of every credential proof
                for k in ["issuer", "network", "cred_id", "created"] {
                    f.push((format!("perturb.pres.mixed.account.{}", k), 30 * s));
                }
                for k in ["holder", "contract", "network", "created", "commitments.signature", "commitments.commitment"] {
                    f.push((format!("pres.mixed.web3.{}", k), 30 * s));
                }
                for (k, n) in [("pres.mixed.credential.account", 30), ("pres.mixed.credential.web3", 30), ("perturb.pres.account.proof_bitflip", 15), ("perturb.pres.web3.proof_bitflip", 15),
                    ("perturb.pres.mixed.account.proof_bitflip", 6), ("perturb.pres.mixed.web3.proof_bitflip", 6)] {
                    f.push((k.to_string(), n * s));
                }
                // web3id v1 presentations and the anchored verification flow
                for k in [
                    "baseline", "issuers.only_exact", "issuers.same_idp_other_network", "issuers.other_idp_same_network", "issuers.cross_network", "issuers.cross_network_3", "issuers.exact_last_of_3",
                    "issuers.exact_first_mixed_networks", "issuers.empty", "source.excludes_type", "source.only_type", "context.network", "validity.at_lower", "validity.before_lower", "validity.last_second",
                    "validity.at_upper", "validity.long_after", "validity.long_before", "anchor.request_context_changed", "anchor.request_issuers_changed", "anchor.request_statements_changed", "anchor.hash_changed",
                    "anchor.block_hash", "claims.extra_statement_requested", "claims.extra_subject_requested", "claims.none_requested", "context.given_value_differs", "context.given_missing", "context.given_reordered",
                    "context.requested_label_missing_in_presentation", "crypto.material_altered", "crypto.no_material", "crypto.presentation_altered", "crypto.global_context", "aux.baseline", "aux.no_block_hash_requested",
                    "aux.block_hash_removed_from_presentation", "aux.block_hash_unparsable", "aux.block_hash_other_block", "aux.unknown_given_label", "aux.unknown_requested_label", "aux.invalid_given_value",
                    "aux.extra_given_property", "aux.given_value_changed_in_presentation", "aux.extra_requested_property",
                ] {
                    f.push((format!("anchor.scenario.{}", k), 50 * s));
                }
                f.push(("anchor.scenario.claims.statement_differs".into(), 30 * s));
                f.push(("anchor.scenario.issuers.random".into(), 150 * s));
                for k in ["CredentialNotValidYet", "CredentialExpired", "Network", "PresentationUnverifiable", "RequestAnchor", "NoVraBlockHash", "VraBlockHash", "ContextInformation", "InvalidContextPropertyValue", "UnknownContextProperty", "SubjectClaims", "CredentialType", "CredentialIssuer"] {
                    f.push((format!("anchor.result.Failed.{}", k), 50 * s));
                }
                for (k, n) in [
                    ("anchor.result.Verified", 500), ("anchor.issuers.listed", 200), ("anchor.issuers.unlisted", 400), ("anchor.issuers.mixed_networks", 300), ("anchor.issuers.len0", 50), ("anchor.issuers.len1", 150),
                    ("anchor.issuers.len2", 150), ("anchor.issuers.len3", 150), ("anchor.credential.identity", 30), ("anchor.credential.account", 30), ("audit.checked", 50),
                    ("complete.v1_presentation", 60), ("complete.v1_presentation.json_roundtrip", 60), ("complete.v1_presentation.binary_roundtrip", 60), ("v1.credential.identity", 80), ("v1.credential.account", 80),
                    ("v1.false_statement_set", 30), ("v1.revealed_value_checked", 20), ("v1.identity.validity_checked", 40),
                    ("perturb.v1.statement.range.lower", 4), ("perturb.v1.statement.range.upper", 4), ("perturb.v1.statement.set.element_removed", 2), ("perturb.v1.statement.set.element_added", 10),
                    ("perturb.v1.statement.tag", 10), ("perturb.v1.statement.value", 15), ("perturb.v1.identity.attributes.revealed_value", 10),
                ] {
                    f.push((k.to_string(), n * s));
                }
                for k in [
                    "account.cred_id", "context.given", "context.given_to_requested", "context.property_value", "context.requested", "credential.created", "credential.issuer", "credential.network", "global_context",
                    "identity.attributes.commitment", "identity.attributes.known_to_revealed", "identity.attributes.removed", "identity.ephemeral_id.share", "identity.ephemeral_id.threshold",
                    "identity.ephemeral_id.trailing_byte", "identity.proofs.bitflip", "identity.proofs.challenge", "identity.proofs.sharing_coeff", "identity.proofs.signature", "identity.validity.created_at",
                    "identity.validity.valid_to", "material.account.commitment", "material.account.issuer", "material.exchanged", "material.identity.ar_key", "material.identity.ip_identity", "material.identity.ip_key",
                    "material.missing", "material.type_mismatch", "statement.dropped", "statement_proof.bitflip", "statement_proof.dropped", "statement_proof.exchanged",
                ] {
                    f.push((format!("perturb.v1.{}", k), 20 * s));
                }
                p.floors = f;
            }
            _ => {}
        }
        p
    }

    fn run_child(&self, ctx: &ChildCtx, out: &mut Shard) {
        match ctx.prop.as_str() {
            "C11" => c11::run(ctx, out),
            "C07" => c07::run(ctx, out),
            "C08" => c08::run(ctx, out),
            "C18" => c18::run(ctx, out),
            _ => out.inconclusive.push("unknown property".into()),
        }
    }
}

fn main() { vmon_core::main_engine(&E) }
