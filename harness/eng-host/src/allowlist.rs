//! Import/export allow-list table check (part of C09 that lives in the
//! chain-integration crate): every documented import validates with exactly
//! its documented type and is rejected with any parameter/result type changed,
//! when duplicated, under an unknown name or module; `upgrade` only with
//! `support_upgrade`; `debug_print` never on chain; export naming rules of
//! `validate_export_function`.
//! Coverage prefix `allowlist.*`, violation kind `allowlist`.
use crate::script::*;
use concordium_smart_contract_engine::{v0, v1};
use concordium_wasm::{utils::instantiate_with_metering, validate::ValidationConfig, CostConfigurationV1};
use vmon_core::{json, Rng, Shard};
use wasmref::ast::*;

fn flip(t: Ty) -> Ty {
    match t {
        Ty::I32 => Ty::I64,
        Ty::I64 => Ty::I32,
    }
}

/// A module importing the given functions and exporting `export` (a function of type `ety`
/// returning a constant).
fn module(imports: &[(&str, &str, FuncTy)], export: &str, ety: FuncTy) -> Module {
    let mut types: Vec<FuncTy> = vec![];
    let mut imps = vec![];
    for (m, n, t) in imports {
        types.push(t.clone());
        imps.push(Import { module: m.to_string(), name: n.to_string(), ty: (types.len() - 1) as u32 });
    }
    types.push(ety.clone());
    let body = match ety.result {
        Some(Ty::I32) => vec![Instr::Const32(0)],
        Some(Ty::I64) => vec![Instr::Const64(0)],
        None => vec![],
    };
    Module { types: types.clone(), imports: imps.clone(), funcs: vec![Func { ty: (types.len() - 1) as u32, locals: vec![], body }], table: None, elems: vec![], memory: Some((1, Some(1))), data: vec![], globals: vec![], exports: vec![(export.to_string(), imps.len() as u32)] }
}

fn accepted(v1m: bool, support_upgrade: bool, m: &Module) -> Result<bool, String> {
    let bytes = m.encode();
    let r = vmon_core::catch(|| {
        if v1m {
            instantiate_with_metering::<v1::ProcessedImports>(ValidationConfig::V1, CostConfigurationV1, &v1::ConcordiumAllowedImports { support_upgrade, enable_debug: false }, &bytes).is_ok()
        } else {
            instantiate_with_metering::<v0::ProcessedImports>(ValidationConfig::V0, CostConfigurationV1, &v0::ConcordiumAllowedImports, &bytes).is_ok()
        }
    });
    r.map_err(|p| format!("panic: {}", p))
}

fn entry_ty() -> FuncTy { FuncTy { params: vec![Ty::I64], result: Some(Ty::I32) } }

struct Probe {
    what: String,
    v1: bool,
    upgrade: bool,
    module: Module,
    expect: bool,
    key: &'static str,
}

fn import_probes(v1m: bool, sg: &Sig, r: &mut Rng) -> Vec<Probe> {
    let vn = if v1m { "v1" } else { "v0" };
    let good = FuncTy { params: sg.params.to_vec(), result: sg.result };
    let needs_upgrade = sg.name == "upgrade";
    let mut out = vec![];
    let mk = |what: String, imports: &[(&str, &str, FuncTy)], upgrade: bool, expect: bool, key: &'static str| Probe { what, v1: v1m, upgrade, module: module(imports, INIT_NAME, entry_ty()), expect, key };
    out.push(mk(format!("{} import concordium.{} with its documented type", vn, sg.name), &[("concordium", sg.name, good.clone())], true, true, "allowlist.documented_accepted"));
    if needs_upgrade {
        out.push(mk(format!("{} import concordium.upgrade without support_upgrade", vn), &[("concordium", sg.name, good.clone())], false, false, "allowlist.upgrade_gated"));
    }
    // one parameter type changed
    for i in 0..sg.params.len() {
        let mut t = good.clone();
        t.params[i] = flip(t.params[i]);
        out.push(mk(format!("{} import concordium.{} with parameter {} changed to {:?}", vn, sg.name, i, t.params[i]), &[("concordium", sg.name, t)], true, false, "allowlist.param_changed_rejected"));
    }
    // result changed / removed / added
    let results: Vec<Option<Ty>> = match sg.result {
        Some(t) => vec![Some(flip(t)), None],
        None => vec![Some(Ty::I32), Some(Ty::I64)],
    };
    for res in results {
        let mut t = good.clone();
        t.result = res;
        out.push(mk(format!("{} import concordium.{} with result {:?}", vn, sg.name, res), &[("concordium", sg.name, t)], true, false, "allowlist.result_changed_rejected"));
    }
    // one parameter more / fewer
    {
        let mut t = good.clone();
        t.params.push(if r.chance(1, 2) { Ty::I32 } else { Ty::I64 });
        out.push(mk(format!("{} import concordium.{} with an extra parameter", vn, sg.name), &[("concordium", sg.name, t)], true, false, "allowlist.arity_changed_rejected"));
        if !good.params.is_empty() {
            let mut t = good.clone();
            t.params.pop();
            out.push(mk(format!("{} import concordium.{} with one parameter fewer", vn, sg.name), &[("concordium", sg.name, t)], true, false, "allowlist.arity_changed_rejected"));
        }
    }
    // duplicate
    out.push(mk(format!("{} import concordium.{} twice", vn, sg.name), &[("concordium", sg.name, good.clone()), ("concordium", sg.name, good.clone())], true, false, "allowlist.duplicate_rejected"));
    // wrong module / mangled name
    let other_mod = *r.pick(&["env", "concordium_metering", "Concordium", "", "concordium "]);
    out.push(mk(format!("{} import {}.{}", vn, other_mod, sg.name), &[(other_mod, sg.name, good.clone())], true, false, "allowlist.unknown_module_rejected"));
    let mangled = match r.below(3) {
        0 => format!("{}_", sg.name),
        1 => sg.name.to_uppercase(),
        _ => sg.name[..sg.name.len() - 1].to_string(),
    };
    let known = sigs(v1m).iter().any(|s| s.name == mangled);
    if !known {
        out.push(mk(format!("{} import concordium.{}", vn, mangled), &[("concordium", &mangled, good.clone())], true, false, "allowlist.unknown_name_rejected"));
    }
    out
}

fn cross_version_probes() -> Vec<Probe> {
    let mut out = vec![];
    // names of the other version only
    for sg in V0_SIGS {
        if !V1_SIGS.iter().any(|s| s.name == sg.name) {
            let t = FuncTy { params: sg.params.to_vec(), result: sg.result };
            out.push(Probe { what: format!("v1 import of the v0-only function concordium.{}", sg.name), v1: true, upgrade: true, module: module(&[("concordium", sg.name, t)], INIT_NAME, entry_ty()), expect: false, key: "allowlist.other_version_rejected" });
        }
    }
    for sg in V1_SIGS {
        if !V0_SIGS.iter().any(|s| s.name == sg.name) {
            let t = FuncTy { params: sg.params.to_vec(), result: sg.result };
            out.push(Probe { what: format!("v0 import of the v1-only function concordium.{}", sg.name), v1: false, upgrade: true, module: module(&[("concordium", sg.name, t)], INIT_NAME, entry_ty()), expect: false, key: "allowlist.other_version_rejected" });
        }
    }
    // debug_print is never allowed on chain
    let t = FuncTy { params: DEBUG_PRINT.params.to_vec(), result: None };
    out.push(Probe { what: "v1 import of concordium.debug_print without enable_debug".into(), v1: true, upgrade: true, module: module(&[("concordium", "debug_print", t.clone())], INIT_NAME, entry_ty()), expect: false, key: "allowlist.debug_print_rejected" });
    out.push(Probe { what: "v0 import of concordium.debug_print".into(), v1: false, upgrade: true, module: module(&[("concordium", "debug_print", t)], INIT_NAME, entry_ty()), expect: false, key: "allowlist.debug_print_rejected" });
    // the metering import must not be importable by contracts
    let t = FuncTy { params: vec![Ty::I32], result: None };
    for v in [false, true] {
        out.push(Probe { what: format!("{} import of concordium_metering.account_memory by the contract itself", if v { "v1" } else { "v0" }), v1: v, upgrade: true, module: module(&[("concordium_metering", "account_memory", t.clone())], INIT_NAME, entry_ty()), expect: false, key: "allowlist.metering_import_rejected" });
    }
    out
}

fn export_probes() -> Vec<Probe> {
    let good = entry_ty();
    let bad_tys = [FuncTy { params: vec![Ty::I32], result: Some(Ty::I32) }, FuncTy { params: vec![Ty::I64], result: Some(Ty::I64) }, FuncTy { params: vec![Ty::I64], result: None }, FuncTy { params: vec![], result: Some(Ty::I32) }, FuncTy { params: vec![Ty::I64, Ty::I64], result: Some(Ty::I32) }];
    let mut out = vec![];
    let long100_init = format!("init_{}", "a".repeat(95));
    let long101_init = format!("init_{}", "a".repeat(96));
    let long100_recv = format!("{}.{}", "c".repeat(50), "r".repeat(49));
    let long101_recv = format!("{}.{}", "c".repeat(50), "r".repeat(50));
    for v in [false, true] {
        let vn = if v { "v1" } else { "v0" };
        let mut mk = |name: &str, ty: FuncTy, expect: bool, key: &'static str, why: &str| {
            out.push(Probe { what: format!("{} export {:?} of type {:?}->{:?} ({})", vn, name, ty.params, ty.result, why), v1: v, upgrade: true, module: module(&[], name, ty), expect, key });
        };
        mk("init_contract", good.clone(), true, "allowlist.export.init_ok", "init name, right type");
        mk("contract.receive", good.clone(), true, "allowlist.export.receive_ok", "receive name, right type");
        mk("contract.", good.clone(), true, "allowlist.export.receive_ok", "fallback entrypoint name");
        mk(".x", good.clone(), true, "allowlist.export.receive_ok", "contains a dot");
        // D: a name that starts with init_ *and* contains a dot is covered by neither/both bullets of the
        // documentation (v0 rejects it, v1 treats it as "other name"); not judged.
        mk(&long100_init, good.clone(), true, "allowlist.export.len100_ok", "100 bytes");
        mk(&long101_init, good.clone(), false, "allowlist.export.len101_rejected", "101 bytes");
        mk(&long100_recv, good.clone(), true, "allowlist.export.len100_ok", "100 bytes");
        mk(&long101_recv, good.clone(), false, "allowlist.export.len101_rejected", "101 bytes");
        mk("init_a b", good.clone(), false, "allowlist.export.bad_char_rejected", "contains a space");
        mk("a\u{7f}.b", good.clone(), false, "allowlist.export.bad_char_rejected", "contains a control character");
        for t in &bad_tys {
            mk("init_contract", t.clone(), false, "allowlist.export.bad_type_rejected", "init name, wrong type");
            mk("contract.receive", t.clone(), false, "allowlist.export.bad_type_rejected", "receive name, wrong type");
        }
        // neither an init nor a receive name: v0 rejects, v1 does not care about the type
        mk("helper", good.clone(), v, "allowlist.export.other_name", "neither init_ nor dotted");
        mk("helper", bad_tys[0].clone(), v, "allowlist.export.other_name", "neither init_ nor dotted, other type");
        mk("init", good.clone(), v, "allowlist.export.other_name", "'init' without underscore, no dot");
    }
    out
}

/// Run a slice of the probe table (the whole table every 32 cases).
pub fn probe(idx: u64, r: &mut Rng, sh: &mut Shard) {
    let mut rr = r.clone();
    let mut probes: Vec<Probe> = vec![];
    let slice = idx % 32;
    for (v1m, table) in [(false, V0_SIGS), (true, V1_SIGS)] {
        for (i, sg) in table.iter().enumerate() {
            if (i as u64 + if v1m { 11 } else { 0 }) % 32 == slice {
                probes.extend(import_probes(v1m, sg, &mut rr));
            }
        }
    }
    if slice % 8 == 0 {
        probes.extend(cross_version_probes());
    }
    if slice % 8 == 1 {
        probes.extend(export_probes());
    }
    for p in probes {
        match accepted(p.v1, p.upgrade, &p.module) {
            Ok(got) => {
                sh.evaluations += 1;
                if got == p.expect {
                    sh.hit(p.key);
                    sh.hit("allowlist.probes_agree");
                } else {
                    let bytes = p.module.encode();
                    sh.violate(
                        idx,
                        "allowlist",
                        format!("allowlist:{}:{:016x}", if p.v1 { "v1" } else { "v0" }, vmon_core::fnv(&bytes)),
                        format!("{}: the module was {} but the documented allow-list says it must be {}", p.what, if got { "accepted" } else { "rejected" }, if p.expect { "accepted" } else { "rejected" }),
                        json!({"probe": p.what, "module_hex": vmon_core::hex(&bytes), "module_text": wasmref::show::show_mod(&p.module)}),
                    );
                }
            }
            Err(e) => {
                let bytes = p.module.encode();
                sh.violate(idx, "allowlist", format!("allowlist:panic:{:016x}", vmon_core::fnv(&bytes)), format!("{}: validation panicked: {}", p.what, e), json!({"probe": p.what, "module_hex": vmon_core::hex(&bytes)}));
            }
        }
    }
}
