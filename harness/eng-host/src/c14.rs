//! C14: contract host functions are memory-safe, total and enforce protocol
//! limits (plus the chain-level interrupt/resume part of C13 and the
//! end-to-end part of C15). Differential between the real engine running a
//! generated straight-line contract and the reference interpreter running the
//! same module with a model of the host interface.
//!
//! Oracles: (1) same outcome kind (success / reject+code / trap /
//! out-of-energy); (2) same return value, logs, final v0 state, v0 action
//! list, v1 final state contents, state_changed flag, interrupts (operation,
//! logs, remaining energy); (3) remaining energy == budget - reference total;
//! (4) budget sweep; (5) charge before work (outcome and allocation
//! differential); (6) no panic; (7) protocol limits as invariants of every
//! engine result; determinism of repeated executions.
//!
//! D: (deliberately not demanded)
//!  * trap messages; where exactly an execution traps (only "trap vs not").
//!  * energy of `state_iterator_next`, of a `state_delete_prefix` that deletes
//!    something, and of `state_iterator_delete` on an exhausted iterator: the
//!    charge depends on the shape of the tree (TREE_TRAVERSAL_STEP_COST per
//!    step), so from the first such call on only "charged >= scheduled lower
//!    bound" is demanded (exact equality everywhere else).
//!  * handles to an entry that was overwritten by `state_create_entry`, the key
//!    an iterator reports after it is exhausted, `invoke` call payloads with
//!    trailing bytes: not documented; executions touching them are not judged
//!    (coverage key skip.undocumented).
//!  * the 64-log limit across a log-clearing interrupt (the limit is documented
//!    "per execution"; boundary scripts for it contain no interrupt).
//!  * whether the entrypoint's own frame counts towards MAX_ACTIVATION_FRAMES
//!    ("maximum number of nested function calls"): the model allows 1024 nested
//!    calls below the entrypoint and traps on the 1025th.
//!  * `state_entry_resize` beyond MAX_ENTRY_SIZE through a handle whose entry was
//!    deleted: 0 ("too big") wins over u32::MAX ("invalidated") as in
//!    eng-trie/c15.rs; the documentation lists both codes without precedence.
//!  * the accept path of `verify_ecdsa_secp256k1_signature` (the secp256k1 crate
//!    of this sandbox is a shim whose verification always fails; only bounds,
//!    energy, totality and result 0 are checked) and ZIP-215 corner cases of
//!    ed25519 (only honest signatures and single-bit corruptions, ed25519-dalek
//!    on both sides because the ed25519-zebra shim wraps it).
//!  * `debug_print` (never enabled on chain).
//!  * v0 host functions have no doc comments beyond the return codes of
//!    `Logs::log_event`, the state and log size limits and the cost constants;
//!    their corner cases (offset past the end traps, `write_state` truncates at
//!    16 KiB and returns the number of bytes written, `resize_state` charges for
//!    the requested growth even when it is refused, `get_receive_sender` writes
//!    the `Address` serialisation, positive init return codes and out-of-range
//!    action indices are runtime failures) are modelled after the interface
//!    contracts are compiled against (concordium-std prims) and the comments in
//!    `invoke_init`/`invoke_receive`.
//!  * `state_changed` is judged as documented on `InstanceState::changed`: true
//!    iff a state-changing host function was *called* since the last resume
//!    (so it is true whenever the model's state was modified).
//!  * logs at interrupts follow `Interrupt::should_clear_logs`: transfers, calls
//!    and upgrades hand over the logs so far, queries hand over nothing and keep
//!    them.
//!  * the charge-before-work allocation differential compares total bytes
//!    requested between the execution that cannot pay charge j of a call and
//!    the one that stops one charge earlier; allowance 16 KiB + 64 bytes per
//!    unit of energy already paid inside the call. It is applied to at most 3
//!    calls per script and the first 4 charges of a call.
//!  * loading an on-disk entry from the backing store (done by every read, also
//!    by `state_entry_size`) is not counted as chargeable work by itself; it is
//!    only seen through the differential above.
use crate::{
    gen,
    model_v0::*,
    model_v1::*,
    run_engine::{self, Art, EngOut, Outcome},
    script::*,
};
use vmon_core::{json, ChildCtx, Shard};
use wasmref::refint::{Cost, Machine, RefHost, Trap, V};

pub const AMPLE: u64 = 1 << 50;

pub enum Host {
    V0(ModelV0),
    V1(Box<ModelV1>),
}

impl RefHost for Host {
    fn call(&mut self, _imp: &wasmref::ast::Import, _args: &[V], _mem: &mut Vec<u8>) -> Result<Option<V>, Trap> { panic!("harness: host called without energy") }

    fn call_with_energy(&mut self, imp: &wasmref::ast::Import, args: &[V], mem: &mut Vec<u8>, energy: &mut u64) -> Result<Option<V>, Trap> {
        match self {
            Host::V0(m) => m.call(&imp.name, args, mem, energy),
            Host::V1(m) => m.call(&imp.name, args, mem, energy),
        }
    }
}

pub struct RefOut {
    pub outcome: Outcome,
    pub skip: Option<String>,
    pub total: u64,
    pub exact: bool,
    pub logs: Vec<Vec<u8>>,
    pub v0_state: Vec<u8>,
    pub actions: Vec<ActionM>,
    pub return_value: Vec<u8>,
    pub v1_state: Vec<(Vec<u8>, Vec<u8>)>,
    pub changed_called: bool,
    pub modified: bool,
    pub interrupts: Vec<IntRec>,
    pub recs: Vec<CallRec>,
    pub inexact_from: Option<usize>,
    pub stale_after_update: u64,
    pub used_after_unchanged: u64,
    pub edges: Vec<&'static str>,
}

pub fn run_ref(s: &Script, c: &Compiled) -> RefOut {
    let host = if s.kind.v1() { Host::V1(Box::new(ModelV1::new(s, AMPLE))) } else { Host::V0(ModelV0::new(s, AMPLE)) };
    let mut mach = Machine::new(&c.module, host, 3_000_000, if s.cost_v1 { Cost::V1 } else { Cost::V0 });
    // MAX_ACTIVATION_FRAMES nested calls below the entrypoint
    mach.max_depth = MAX_ACTIVATION_FRAMES + 1 + brk("depth") as u32;
    // initial memory is charged before execution starts
    mach.energy = MEMORY_COST_FACTOR * c.layout.pages as u64;
    let r = mach.invoke(c.entry, &[V::I64(s.amount as i64)]);
    let total = mach.energy;
    let mach_grows: Vec<u32> = mach.grow_requests.clone();
    let mut skip = None;
    let (logs, v0_state, actions, return_value, v1_state, changed_called, modified, interrupts, recs, inexact, inexact_from, stale, unch, edges) = match mach.host {
        Host::V0(m) => (m.sh.logs, m.state, m.actions, vec![], vec![], false, false, vec![], m.meter.recs, m.meter.inexact, m.meter.inexact_from, 0, 0, m.meter.edges),
        Host::V1(m) => {
            if let Some(u) = &m.unjudged {
                skip = Some(u.clone());
            }
            (m.sh.logs, vec![], vec![], m.rv, m.contents.into_iter().collect(), m.changed_called, m.modified, m.interrupts, m.meter.recs, m.meter.inexact, m.meter.inexact_from, m.stale_after_update, m.used_after_unchanged, m.meter.edges)
        }
    };
    let outcome = match r {
        Ok(Some(V::I32(n))) => match s.kind {
            Kind::V0Init | Kind::V1Init => {
                if n == 0 {
                    Outcome::Success
                } else if n < 0 {
                    Outcome::Reject(n)
                } else {
                    Outcome::Trap
                }
            }
            Kind::V0Receive => {
                if n >= 0 && (n as usize) < actions.len() {
                    Outcome::Success
                } else if n >= 0 {
                    Outcome::Trap
                } else {
                    Outcome::Reject(n)
                }
            }
            Kind::V1Receive => {
                if n >= 0 {
                    Outcome::Success
                } else {
                    Outcome::Reject(n)
                }
            }
        },
        Ok(_) => Outcome::Trap,
        Err(Trap::OutOfEnergy) => Outcome::OutOfEnergy,
        Err(Trap::Fuel) => {
            skip = Some("reference fuel".into());
            Outcome::Trap
        }
        Err(_) => Outcome::Trap,
    };
    let mut actions = actions;
    if let (Kind::V0Receive, Outcome::Success, Ok(Some(V::I32(n)))) = (s.kind, &outcome, &r) {
        actions.truncate(*n as usize + 1);
    }
    // memory.grow: every executed grow of n pages is announced to the host before it happens and
    // charged n * MEMORY_COST_FACTOR (InterpreterEnergy::charge_memory_alloc). The announcement sits
    // inside the metering segment of the grow, whose instruction costs were charged at its start, i.e.
    // the energy at that point is the energy at the next host call (or at the end of the function).
    let grows: Vec<u64> = mach_grows.iter().map(|n| *n as u64).collect();
    let mut merged: Vec<CallRec> = vec![];
    let mut g_at_raw: Vec<u64> = vec![];
    let mut raw_to_merged: Vec<usize> = vec![];
    let mut pending: Vec<(usize, u64)> = vec![];
    let (mut g_acc, mut ri, mut gi) = (0u64, 0usize, 0usize);
    let mut stopped = false;
    // invokes of the nested helper run before the calls of the script
    if let Some(d) = &s.deep {
        let (k, hit_limit) = d.reached(MAX_ACTIVATION_FRAMES);
        for _ in 0..k.min(recs.len()) {
            let rec = recs[ri].clone();
            g_at_raw.push(0);
            raw_to_merged.push(merged.len());
            if rec.trapped {
                stopped = true;
            }
            merged.push(rec);
            ri += 1;
        }
        if hit_limit {
            stopped = true;
        }
    }
    for c in &s.calls {
        if stopped {
            break;
        }
        if c.f == GROW {
            if gi >= grows.len() {
                stopped = true;
                break;
            }
            let n = grows[gi];
            gi += 1;
            let cost = if brk("grow_u32") { (n as u32).wrapping_mul(MEMORY_COST_FACTOR as u32) as u64 } else { MEMORY_COST_FACTOR * n };
            merged.push(CallRec { name: GROW.to_string(), e_before: 0, charges: vec![cost], trapped: false, oob: false, max_len: n, copy_charge: None });
            pending.push((merged.len() - 1, g_acc));
            g_acc += cost;
        } else {
            if ri >= recs.len() {
                stopped = true;
                break;
            }
            let mut rec = recs[ri].clone();
            for (oi, gb) in pending.drain(..) {
                merged[oi].e_before = rec.e_before + gb;
            }
            rec.e_before += g_acc;
            g_at_raw.push(g_acc);
            raw_to_merged.push(merged.len());
            let t = rec.trapped;
            merged.push(rec);
            ri += 1;
            if t {
                stopped = true;
                break;
            }
        }
    }
    if !stopped {
        // epilogue calls
        while ri < recs.len() {
            let mut rec = recs[ri].clone();
            for (oi, gb) in pending.drain(..) {
                merged[oi].e_before = rec.e_before + gb;
            }
            rec.e_before += g_acc;
            g_at_raw.push(g_acc);
            raw_to_merged.push(merged.len());
            merged.push(rec);
            ri += 1;
        }
    }
    for (oi, gb) in pending.drain(..) {
        merged[oi].e_before = total + gb;
    }
    let mut interrupts = interrupts;
    for i in interrupts.iter_mut() {
        i.energy += g_at_raw.get(i.rec_idx).copied().unwrap_or(g_acc);
    }
    let inexact_from = inexact_from.map(|f| raw_to_merged.get(f).copied().unwrap_or(merged.len()));
    let total = total + g_acc;
    let recs = merged;
    RefOut { outcome, skip, total, exact: !inexact, logs, v0_state, actions, return_value, v1_state, changed_called, modified, interrupts, recs, inexact_from, stale_after_update: stale, used_after_unchanged: unch, edges }
}

#[derive(Clone, Debug)]
pub struct Finding {
    pub kind: &'static str,
    pub detail: String,
    /// root-cause class with a canonical signature (see F9 in the report), if any
    pub class: Option<String>,
}

fn hx(b: &[u8]) -> String { vmon_core::hex_short(b, 48) }

fn first_diff(a: &[u8], b: &[u8]) -> String {
    if a.len() != b.len() {
        return format!("lengths {} vs {}", a.len(), b.len());
    }
    match (0..a.len()).find(|i| a[*i] != b[*i]) {
        Some(i) => format!("first difference at byte {} ({:#04x} vs {:#04x}; result slot {} if inside the result area)", i, a[i], b[i], i / 8),
        None => "equal".into(),
    }
}

fn logs_diff(a: &[Vec<u8>], b: &[Vec<u8>]) -> String {
    if a.len() != b.len() {
        return format!("{} vs {} log items", a.len(), b.len());
    }
    match (0..a.len()).find(|i| a[*i] != b[*i]) {
        Some(i) => format!("log item {}: {} vs {} ({})", i, hx(&a[i]), hx(&b[i]), first_diff(&a[i], &b[i])),
        None => "equal".into(),
    }
}

/// Invariants of every engine result, independent of the model (oracle 7).
pub fn limit_invariants(s: &Script, e: &EngOut, out: &mut Vec<Finding>) {
    let limit = s.proto <= 4;
    let max_param = if s.proto <= 4 { 1024 } else { 65535 };
    if let Some(st) = &e.v0_state {
        if st.len() > MAX_CONTRACT_STATE {
            out.push(Finding { kind: "limit", class: None, detail: format!("v0 state of {} bytes exceeds the 16 KiB limit", st.len()) });
        }
    }
    let all_logs = e.logs.iter().chain(e.interrupts.iter().flat_map(|i| i.logs.iter()));
    for l in all_logs {
        if l.len() > MAX_LOG_SIZE as usize {
            out.push(Finding { kind: "limit", class: None, detail: format!("log item of {} bytes exceeds the 512 byte limit", l.len()) });
        }
    }
    if limit && e.interrupts.is_empty() && e.logs.len() > MAX_NUM_LOGS {
        out.push(Finding { kind: "limit", class: None, detail: format!("{} log items under the P4 rules (limit 64)", e.logs.len()) });
    }
    if limit {
        if let Some(rv) = &e.return_value {
            if rv.len() > MAX_CONTRACT_STATE {
                out.push(Finding { kind: "limit", class: None, detail: format!("return value of {} bytes under the P4 rules (limit 16384)", rv.len()) });
            }
        }
    }
    for a in &e.actions {
        if let ActionM::Send { parameter, name, .. } = a {
            if parameter.len() > max_param {
                out.push(Finding { kind: "limit", class: None, detail: format!("send action with a parameter of {} bytes (limit {})", parameter.len(), max_param) });
            }
            if !valid_receive_name(name.as_bytes()) {
                out.push(Finding { kind: "limit", class: None, detail: format!("send action with the invalid receive name {:?}", name) });
            }
        }
    }
    for i in &e.interrupts {
        if let IntM::Call { parameter, name, .. } = &i.int {
            if parameter.len() > max_param {
                out.push(Finding { kind: "limit", class: None, detail: format!("invoke with a parameter of {} bytes (limit {})", parameter.len(), max_param) });
            }
            if !valid_entrypoint_name(name.as_bytes()) {
                out.push(Finding { kind: "limit", class: None, detail: format!("invoke with the invalid entrypoint name {:?}", name) });
            }
        }
    }
}

/// Oracles (1)-(3) on one ample-budget execution.
pub fn compare(s: &Script, ro: &RefOut, e: &EngOut, budget: u64, out: &mut Vec<Finding>) {
    if ro.outcome != e.outcome {
        out.push(Finding { kind: "outcome", class: None, detail: format!("the documented interface gives {:?}, the engine ended with {:?}{}", ro.outcome, e.outcome, if e.trap_msg.is_empty() { String::new() } else { format!(" ({})", e.trap_msg) }) });
        return;
    }
    let v1 = s.kind.v1();
    match &e.outcome {
        Outcome::Success => {
            if e.logs != ro.logs {
                out.push(Finding { kind: "logs", class: None, detail: format!("logs differ (reference vs engine): {}", logs_diff(&ro.logs, &e.logs)) });
            }
            if v1 {
                let rv = e.return_value.clone().unwrap_or_default();
                if rv != ro.return_value {
                    out.push(Finding { kind: "return-value", class: None, detail: format!("return value differs (reference vs engine): {}", first_diff(&ro.return_value, &rv)) });
                }
                let st = e.v1_state.clone().unwrap_or_default();
                if st != ro.v1_state {
                    let rk: Vec<String> = ro.v1_state.iter().map(|(k, v)| format!("{}=>{}", vmon_core::hex(k), hx(v))).collect();
                    let ek: Vec<String> = st.iter().map(|(k, v)| format!("{}=>{}", vmon_core::hex(k), hx(v))).collect();
                    out.push(Finding { kind: "state", class: None, detail: format!("final v1 state differs: reference {:?} engine {:?}", rk, ek) });
                }
                if let Some(ch) = e.state_changed {
                    if ch != ro.changed_called {
                        out.push(Finding { kind: "state-changed", class: None, detail: format!("state_changed = {} but a state-changing host function was {}called since the last resume (state modified: {})", ch, if ro.changed_called { "" } else { "not " }, ro.modified) });
                    }
                }
            } else {
                let st = e.v0_state.clone().unwrap_or_default();
                if st != ro.v0_state {
                    out.push(Finding { kind: "state", class: None, detail: format!("final v0 state differs (reference vs engine): {}", first_diff(&ro.v0_state, &st)) });
                }
                if e.actions != ro.actions {
                    out.push(Finding { kind: "actions", class: None, detail: format!("action list differs: reference {:?} engine {:?}", ro.actions, e.actions) });
                }
            }
        }
        Outcome::Reject(_) => {
            if v1 {
                let rv = e.return_value.clone().unwrap_or_default();
                if rv != ro.return_value {
                    out.push(Finding { kind: "return-value", class: None, detail: format!("return value of the rejection differs (reference vs engine): {}", first_diff(&ro.return_value, &rv)) });
                }
            }
        }
        _ => {}
    }
    // interrupts
    if s.kind == Kind::V1Receive {
        if e.interrupts.len() != ro.interrupts.len() {
            out.push(Finding { kind: "interrupts", class: None, detail: format!("{} interrupts in the reference, {} in the engine", ro.interrupts.len(), e.interrupts.len()) });
        }
        for (k, (a, b)) in ro.interrupts.iter().zip(e.interrupts.iter()).enumerate() {
            if a.int != b.int {
                out.push(Finding { kind: "interrupts", class: None, detail: format!("interrupt {}: the payload describes {:?}, the engine raised {:?}", k, a.int, b.int) });
            }
            if a.logs != b.logs {
                out.push(Finding { kind: "logs", class: None, detail: format!("logs handed over at interrupt {} differ (reference vs engine): {}", k, logs_diff(&a.logs, &b.logs)) });
            }
            if a.changed_called != b.state_changed {
                out.push(Finding { kind: "state-changed", class: None, detail: format!("interrupt {}: state_changed = {} but a state-changing host function was {}called since the last resume (state modified: {})", k, b.state_changed, if a.changed_called { "" } else { "not " }, a.modified) });
            }
            let want = budget.saturating_sub(a.energy);
            if a.exact && b.remaining != want {
                out.push(Finding { kind: "energy", class: None, detail: format!("interrupt {}: remaining energy {} but budget - scheduled = {} (difference {})", k, b.remaining, want, b.remaining as i128 - want as i128) });
            } else if !a.exact && b.remaining > want {
                out.push(Finding { kind: "undercharge", class: None, detail: format!("interrupt {}: remaining energy {} exceeds budget - scheduled lower bound = {}", k, b.remaining, want) });
            }
        }
    }
    // energy
    if matches!(e.outcome, Outcome::Success | Outcome::Reject(_)) {
        if let Some(rem) = e.remaining {
            let want = budget.saturating_sub(ro.total);
            if ro.exact && rem != want {
                out.push(Finding { kind: "energy", class: None, detail: format!("remaining energy {} but budget {} - scheduled total {} = {} (engine charged {} {} than scheduled)", rem, budget, ro.total, want, (rem as i128 - want as i128).abs(), if rem > want { "less" } else { "more" }) });
            } else if !ro.exact && rem > want {
                out.push(Finding { kind: "undercharge", class: None, detail: format!("remaining energy {} exceeds budget - scheduled lower bound = {}", rem, want) });
            }
        }
    }
}

pub struct Flags {
    pub sweep: bool,
    pub charge: bool,
}

pub struct Judged {
    pub skip: Option<String>,
    pub findings: Vec<Finding>,
    pub evaluations: u64,
    pub ro: Option<RefOut>,
    pub eo: Option<EngOut>,
    pub cov: Vec<(String, u64)>,
}

fn alloc_bound(c: &Compiled, ro: &RefOut) -> usize {
    let mem = c.layout.mem_len as usize;
    let paid: usize = ro.recs.iter().map(|r| if r.max_len as usize <= mem { r.max_len as usize } else { 0 }).sum();
    (64 << 20) + 4 * mem + 2 * paid
}

/// Run every oracle on one script.
pub fn judge(s: &Script, flags: &Flags) -> Judged {
    let mut j = Judged { skip: None, findings: vec![], evaluations: 0, ro: None, eo: None, cov: vec![] };
    let c = compile(s);
    let bytes = c.module.encode();
    let ro = match vmon_core::catch(|| run_ref(s, &c)) {
        Ok(r) => r,
        Err(p) => {
            j.skip = Some(format!("reference panicked: {}", p));
            return j;
        }
    };
    if let Some(w) = &ro.skip {
        j.skip = Some(w.clone());
        j.ro = Some(ro);
        return j;
    }
    let art: Art = match run_engine::instantiate(s, &bytes) {
        Ok(a) => a,
        Err(e) => {
            if e.starts_with("panic:") {
                j.findings.push(Finding { kind: "panic", class: None, detail: format!("validation/compilation of the generated module panicked: {}", e) });
            } else {
                j.skip = Some(format!("engine rejected the generated module: {}", e));
            }
            j.ro = Some(ro);
            return j;
        }
    };
    let bound = alloc_bound(&c, &ro);
    let check_alloc = |what: &str, st: &vmon_core::alloc::AllocStats, findings: &mut Vec<Finding>| {
        if st.peak > bound {
            findings.push(Finding { kind: "allocation", class: None, detail: format!("{}: peak allocation {} bytes (largest request {}) exceeds the bound {} for {} bytes of linear memory", what, st.peak, st.largest, bound, c.layout.mem_len) });
        }
    };
    // (1)-(3), (6), (7): ample budget
    let (e1, st1) = run_engine::run_measured(s, &art, AMPLE);
    j.evaluations += 1;
    let e1 = match e1 {
        Ok(e) => e,
        Err(p) => {
            j.findings.push(Finding { kind: "panic", class: None, detail: format!("the engine panicked: {}", p) });
            j.ro = Some(ro);
            return j;
        }
    };
    check_alloc("ample budget", &st1, &mut j.findings);
    limit_invariants(s, &e1, &mut j.findings);
    compare(s, &ro, &e1, AMPLE, &mut j.findings);
    // determinism (C13, chain level)
    let (e2, _) = run_engine::run_measured(s, &art, AMPLE);
    j.evaluations += 1;
    match e2 {
        Ok(e2) => {
            if e2 != e1 {
                j.findings.push(Finding { kind: "nondeterministic", class: None, detail: format!("two identical executions differ: {:?} remaining {:?} / {:?} remaining {:?}", e1.outcome, e1.remaining, e2.outcome, e2.remaining) });
            } else if !e1.interrupts.is_empty() {
                j.cov.push(("interrupt.deterministic_reruns".into(), 1));
            }
        }
        Err(p) => j.findings.push(Finding { kind: "panic", class: None, detail: format!("the engine panicked on the second identical execution: {}", p) }),
    }
    let agree = j.findings.is_empty();
    // (4) budget sweep
    if flags.sweep && agree && matches!(e1.outcome, Outcome::Success | Outcome::Reject(_)) {
        if let Some(rem) = e1.remaining {
            let total = AMPLE - rem;
            let mut budgets = vec![(total, false), (total + 977, false)];
            if total >= 1 {
                budgets.push((total - 1, true));
                budgets.push((0, true));
            }
            if total >= 2 {
                budgets.push((total / 2, true));
            }
            for (b, expect_ooe) in budgets {
                let (e, st) = run_engine::run_measured(s, &art, b);
                j.evaluations += 1;
                let e = match e {
                    Ok(e) => e,
                    Err(p) => {
                        j.findings.push(Finding { kind: "panic", class: None, detail: format!("the engine panicked with budget {}: {}", b, p) });
                        continue;
                    }
                };
                check_alloc(&format!("budget {}", b), &st, &mut j.findings);
                limit_invariants(s, &e, &mut j.findings);
                if expect_ooe {
                    if e.outcome != Outcome::OutOfEnergy {
                        j.findings.push(Finding { kind: "budget-not-enforced", class: None, detail: format!("the execution costs {} but with budget {} it ended as {:?} (remaining {:?}) instead of out-of-energy", total, b, e.outcome, e.remaining) });
                    } else {
                        j.cov.push(("budget.ooe_observed".into(), 1));
                    }
                } else {
                    let mut same = e.clone();
                    same.remaining = e1.remaining;
                    for (i, x) in same.interrupts.iter_mut().enumerate() {
                        if let Some(y) = e1.interrupts.get(i) {
                            x.remaining = y.remaining;
                        }
                    }
                    if same != e1 || e.remaining != Some(b - total) {
                        j.findings.push(Finding { kind: "budget-dependence", class: None, detail: format!("budget {} (execution costs {}): outcome {:?} remaining {:?}; with ample budget: outcome {:?}", b, total, e.outcome, e.remaining, e1.outcome) });
                    } else {
                        j.cov.push(("budget.exact_remaining".into(), 1));
                    }
                }
            }
        }
    }
    // memory.grow of a page count whose charge (n * 100, 64-bit) is far beyond a budget of 1_000_000
    // must never succeed, however the multiplication is carried out
    if agree {
        if let Some(gr) = ro.recs.iter().find(|r| r.name == GROW && r.charges[0] > 1_000_000) {
            let (e, _) = run_engine::run_measured(s, &art, 1_000_000);
            j.evaluations += 1;
            match e {
                Ok(e) if e.outcome == Outcome::OutOfEnergy => j.cov.push(("grow.million_budget_ooe".into(), 1)),
                Ok(e) => j.findings.push(Finding { kind: "grow-undercharged", class: None, detail: format!("memory.grow of {} pages is scheduled to cost {} but with a budget of 1000000 the execution ended as {:?} (remaining {:?}) instead of out-of-energy", gr.max_len, gr.charges[0], e.outcome, e.remaining) }),
                Err(p) => j.findings.push(Finding { kind: "panic", class: None, detail: format!("the engine panicked with budget 1000000: {}", p) }),
            }
        }
    }
    // (5) charge before work
    if flags.charge && agree {
        // calls with a charge, preferring large length arguments and large later charges; at most 3
        let weight = |k: usize| -> u64 {
            let r = &ro.recs[k];
            r.max_len.max(r.charges.iter().skip(1).copied().max().unwrap_or(0) / 50)
        };
        let mut cand: Vec<usize> = (0..ro.recs.len()).filter(|k| ro.recs[*k].charges.iter().any(|c| *c >= 1)).collect();
        cand.sort_by_key(|k| std::cmp::Reverse((weight(*k), *k)));
        cand.truncate(3);
        for k in cand {
            let rec = &ro.recs[k];
            let exact = ro.inexact_from.map(|f| k < f).unwrap_or(true);
            let mut cum = rec.e_before;
            // allocation statistics of the previous (shorter) run of this call
            let mut prev: Option<vmon_core::alloc::AllocStats> = None;
            let mut paid_in_call: u64 = 0;
            for (jx, cj) in rec.charges.iter().copied().enumerate().take(4) {
                if cj == 0 {
                    continue;
                }
                let b = cum.saturating_add(cj) - if brk("charge_budget_plus") { 0 } else { 1 };
                if b >= AMPLE {
                    break;
                }
                let (e, st) = run_engine::run_measured(s, &art, b);
                j.evaluations += 1;
                let e = match e {
                    Ok(e) => e,
                    Err(p) => {
                        j.findings.push(Finding { kind: "panic", class: None, detail: format!("the engine panicked with budget {}: {}", b, p) });
                        break;
                    }
                };
                check_alloc(&format!("budget {} (one short of charge {} of call {} {})", b, jx, k, rec.name), &st, &mut j.findings);
                let ok = match &e.outcome {
                    Outcome::OutOfEnergy => true,
                    Outcome::Trap => rec.trapped,
                    _ => false,
                };
                if !ok {
                    j.findings.push(Finding {
                        kind: "charge-before-work",
                        class: None, detail: format!("call {} {} (largest length argument {}): energy before the call {}, scheduled charges {:?}; with budget {} (one short of charge {}) the execution ended as {:?} instead of out-of-energy{}", k, rec.name, rec.max_len, rec.e_before, rec.charges, b, jx, e.outcome, if rec.trapped { " or trap" } else { "" }),
                    });
                    break;
                }
                j.cov.push((if jx == 0 { "charge.short_budget_refused" } else { "charge.short_of_later_charge_refused" }.into(), 1));
                if rec.max_len >= 1 << 31 {
                    j.cov.push(("charge.short_budget_refused.huge_len".into(), 1));
                }
                if e.outcome == Outcome::OutOfEnergy && rec.trapped {
                    j.cov.push(("charge.oob_and_short.ooe".into(), 1));
                }
                if e.outcome == Outcome::Trap {
                    j.cov.push(("charge.oob_and_short.trap".into(), 1));
                    break;
                }
                // allocation differential against the run that stops one charge earlier (for the
                // first charge: just before the call)
                if exact {
                    let base = match prev {
                        Some(p) => Some(p),
                        None if rec.e_before >= 1 => {
                            let (e0, st0) = run_engine::run_measured(s, &art, rec.e_before - 1);
                            j.evaluations += 1;
                            match e0 {
                                Ok(e0) if e0.outcome == Outcome::OutOfEnergy => Some(st0),
                                _ => None,
                            }
                        }
                        None => None,
                    };
                    if let Some(st0) = base {
                        let delta = st.total as i64 - st0.total as i64;
                        let allowance = 16384 + 64 * paid_in_call.min(1 << 40) as i64;
                        j.cov.push(("alloc.delta_checked".into(), 1));
                        if jx > 0 {
                            j.cov.push(("alloc.delta_checked.later_charge".into(), 1));
                        }
                        j.cov.push(("max.alloc.delta_within_allowance".into(), if delta <= allowance { delta.max(0) as u64 } else { 0 }));
                        if delta > allowance {
                            j.findings.push(Finding {
                                kind: "work-before-charge",
                                class: if rec.copy_charge == Some(jx) { Some(format!("c14:work-before-charge:{}:charge{}:copy-of-unowned-entry", rec.name, jx)) } else { None },
                                detail: format!(
                                    "call {} {} (largest length argument {}, scheduled charges {:?}): the execution that cannot pay charge {} ({} energy) allocated {} bytes more than the execution that stops one charge earlier; {} energy had been paid inside the call up to then (allowance {} bytes)",
                                    k, rec.name, rec.max_len, rec.charges, jx, cj, delta, paid_in_call, allowance
                                ),
                            });
                        }
                    }
                }
                prev = Some(st);
                cum = cum.saturating_add(cj);
                paid_in_call = paid_in_call.saturating_add(cj);
            }
        }
    }
    j.ro = Some(ro);
    j.eo = Some(e1);
    j
}

fn record_cov(sh: &mut Shard, s: &Script, j: &Judged) {
    for (k, n) in &j.cov {
        if k.starts_with("max.") {
            sh.max(k, *n);
        } else {
            sh.add(k, *n);
        }
    }
    let (ro, eo) = match (&j.ro, &j.eo) {
        (Some(r), Some(e)) => (r, e),
        _ => return,
    };
    sh.hit(&format!("kind.{}", s.kind.name()));
    sh.hit(&format!("proto.P{}", s.proto));
    sh.hit(if s.cost_v1 { "cost.V1" } else { "cost.V0" });
    sh.hit(&format!("tag.{}", s.tag));
    if s.tag.starts_with("limits.") {
        sh.hit(s.tag);
    }
    let v = if s.kind.v1() { "v1" } else { "v0" };
    for r in &ro.recs {
        sh.hit(&format!("host.{}.{}.calls", v, r.name));
        if r.trapped {
            sh.hit(&format!("host.{}.{}.trapped", v, r.name));
        }
        if r.oob {
            sh.hit("hostile.oob_pointer");
        }
        if r.max_len >= 1 << 31 {
            sh.hit("hostile.huge_len");
        }
    }
    sh.hit(match eo.outcome {
        Outcome::Success => "outcome.success",
        Outcome::Reject(_) => "outcome.reject",
        Outcome::Trap => "outcome.trap",
        Outcome::OutOfEnergy => "outcome.out_of_energy",
    });
    if matches!(eo.outcome, Outcome::Success | Outcome::Reject(_)) {
        sh.hit(if ro.exact { "energy.exact" } else { "energy.lower_bound" });
    }
    for e in &ro.edges {
        sh.hit(e);
    }
    if s.tag.starts_with("gate.") {
        // the first call is the well-formed operation
        let avail = ro.recs.first().map(|r| !r.trapped).unwrap_or(false) && !ro.interrupts.is_empty();
        sh.hit(&format!("{}.P{}.{}", s.tag, s.proto, if avail { "available" } else { "refused" }));
    }
    if let Some(d) = &s.deep {
        let (k, hit) = d.reached(MAX_ACTIVATION_FRAMES);
        sh.hit(if hit { "depth_interrupt.total_over_limit" } else { "depth_interrupt.total_within_limit" });
        if d.d1 as u64 + d.d2 as u64 == MAX_ACTIVATION_FRAMES as u64 {
            sh.hit("depth_interrupt.total_exactly_limit");
        }
        if d.d1 as u64 + d.d2 as u64 == MAX_ACTIVATION_FRAMES as u64 + 1 {
            sh.hit("depth_interrupt.total_limit_plus_one");
        }
        if k == 2 {
            sh.hit("depth_interrupt.second_interrupt_at_bottom");
        }
        if hit && k == 1 {
            sh.hit("depth_interrupt.limit_hit_after_resume");
        }
    }
    for r in &ro.recs {
        if r.name == GROW {
            sh.hit("grow.charged");
            if r.max_len >= 42_949_673 {
                sh.hit("grow.charge_past_u32");
            }
        }
    }
    if !ro.interrupts.is_empty() && j.findings.is_empty() {
        // chain-level C13: the interrupted-and-resumed execution agreed with the uninterrupted
        // reference run on outcome, return value, logs, final state and energy
        sh.hit(match eo.outcome {
            Outcome::Success => "interrupt.script_agrees.success",
            Outcome::Reject(_) => "interrupt.script_agrees.reject",
            Outcome::Trap => "interrupt.script_agrees.trap",
            Outcome::OutOfEnergy => "interrupt.script_agrees.out_of_energy",
        });
        if matches!(eo.outcome, Outcome::Success | Outcome::Reject(_)) && ro.exact {
            sh.hit("interrupt.script_agrees.energy_exact_after_resume");
        }
        if eo.outcome == Outcome::Success {
            sh.hit("interrupt.script_agrees.final_state_and_return_value");
        }
    }
    sh.add("interrupt.resumed", ro.interrupts.len() as u64);
    for (k, i) in ro.interrupts.iter().enumerate() {
        sh.hit(&format!("interrupt.op.{}", format!("{:?}", i.int).split(|c: char| !c.is_alphanumeric()).next().unwrap_or("")));
        if !s.responses.is_empty() {
            let resp = &s.responses[k % s.responses.len()];
            if resp.state_updated && matches!(resp.kind, RespKind::Success { .. }) {
                sh.hit("interrupt.state_updated");
            } else if resp.rolled_back {
                sh.hit("interrupt.rolled_back");
            } else {
                sh.hit("interrupt.state_unchanged");
            }
            sh.hit(match resp.kind {
                RespKind::Success { data: Some(_), .. } => "interrupt.response.success_with_data",
                RespKind::Success { data: None, .. } => "interrupt.response.success",
                RespKind::Reject { .. } => "interrupt.response.contract_reject",
                RespKind::Fail(_) => "interrupt.response.failure",
            });
        }
    }
    sh.add("interrupt.stale_handle_after_update", ro.stale_after_update);
    sh.add("interrupt.handle_used_after_unchanged", ro.used_after_unchanged);
    if let Some(st) = &eo.v1_state {
        if !st.is_empty() {
            sh.hit("state.v1_final_nonempty");
        }
    }
    if !eo.actions.is_empty() {
        sh.hit("state.v0_actions");
    }
}

pub fn run(ctx: &ChildCtx, sh: &mut Shard) {
    let mut classes_reported: std::collections::HashSet<String> = Default::default();
    for idx in ctx.indices() {
        ctx.begin_case(idx);
        let mut r = ctx.case_rng(idx);
        let s = gen::gen_case(&mut r, idx);
        let flags = Flags { sweep: r.chance(1, 3), charge: r.chance(1, 2) };
        // allow-list probes ride along (a slice of the table per case)
        if !brk("no_allowlist") {
            crate::allowlist::probe(idx, &mut r, sh);
        }
        let j = judge(&s, &flags);
        sh.evaluations += j.evaluations;
        if let Some(w) = &j.skip {
            let key = if w.starts_with("engine rejected") {
                "skip.engine_rejected_module".to_string()
            } else if w.starts_with("reference panicked") {
                "skip.reference_panicked".to_string()
            } else {
                "skip.undocumented".to_string()
            };
            sh.hit(&key);
            if key != "skip.undocumented" {
                sh.inconclusive.push(format!("case {}: {}", idx, w));
            }
            if ctx.replaying() {
                println!("case {} not judged: {}", idx, w);
            }
            continue;
        }
        record_cov(sh, &s, &j);
        if let Some(ro) = &j.ro {
            if ro.recs.len() >= 3 && ro.recs.iter().any(|r| !r.charges.is_empty()) {
                sh.nontrivial(fingerprint(&s));
            }
        }
        sh.sample(|| to_json(&s));
        if ctx.replaying() {
            println!("script: {}", serde_json::to_string_pretty(&to_json(&s)).unwrap());
            if let (Some(ro), Some(eo)) = (&j.ro, &j.eo) {
                println!("reference: {:?} total {} exact {}; engine: {:?} remaining {:?}", ro.outcome, ro.total, ro.exact, eo.outcome, eo.remaining);
            }
        }
        // one report per (kind, root-cause class) and case: a finding outside a known class is never
        // hidden behind a class finding of the same kind
        let mut seen: Vec<(&'static str, Option<String>)> = vec![];
        for f in &j.findings {
            let key = (f.kind, f.class.clone());
            if seen.contains(&key) {
                continue;
            }
            seen.push(key);
            if let Some(cl) = &f.class {
                sh.hit(&format!("class.{}", cl));
                if classes_reported.contains(cl) {
                    sh.hit(&format!("violation.{}", f.kind));
                    continue;
                }
            }
            if !sh.violation_budget_left() {
                sh.hit("violation.suppressed");
                continue;
            }
            let kind = f.kind;
            let class = f.class.clone();
            let small = shrink(&s, |c| judge(c, &flags).findings.iter().any(|x| x.kind == kind && x.class == class), 250);
            let js = judge(&small, &flags);
            let detail = js.findings.iter().find(|x| x.kind == kind && x.class == class).map(|x| x.detail.clone()).unwrap_or_else(|| f.detail.clone());
            let l = small.layout();
            let mut calls: Vec<String> = vec![];
            if let Some(d) = small.recursion {
                calls.push(format!("recurse {} deep and return", d));
            }
            if let Some(d) = &small.deep {
                calls.push(format!("nest {} activations, invoke(transfer) there, after the resume nest {} further (total {}){}, return", d.d1, d.d2, d.d1 + d.d2, if d.second { ", invoke again at the bottom" } else { "" }));
            }
            calls.extend(small.calls.iter().map(|c| show_call(&small, &l, c)));
            let signature = match &class {
                Some(cl) => {
                    classes_reported.insert(cl.clone());
                    cl.clone()
                }
                None => format!("c14:{}:{}:{:016x}", kind, small.kind.name(), fingerprint(&small)),
            };
            sh.violate(
                idx,
                kind,
                signature,
                format!("{} [{} P{} {}; minimised script: {}]", detail, small.kind.name(), small.proto, if small.cost_v1 { "cost V1" } else { "cost V0" }, calls.join("; ")),
                json!({"minimised": to_json(&small), "original_calls": s.calls.len(), "original_detail": f.detail}),
            );
        }
    }
}
