//! Script generator: random scripts over all v0/v1 imports with hostile
//! arguments, and boundary scripts for the protocol limits.
use crate::script::*;
use vmon_core::Rng;

const ALPHABET: [u8; 5] = [0x00, 0x01, 0x10, 0x11, 0xff];

pub struct G<'a> {
    pub r: &'a mut Rng,
    pub s: Script,
    scratch: usize,
    next_slot: usize,
    keys: Vec<usize>,
    entry_slots: Vec<usize>,
    iter_slots: Vec<usize>,
    action_slots: Vec<usize>,
    n_logs: usize,
    /// 1 in `hostile_den/7`-ish arguments is hostile
    hostile_den: u64,
}

fn base_script(r: &mut Rng, kind: Kind) -> Script {
    let proto = 4 + r.below(4) as u8;
    let cost_v1 = if r.chance(1, 5) { proto != 7 } else { proto == 7 };
    Script {
        kind,
        proto,
        cost_v1,
        pages_min: match r.below(20) {
            0..=11 => 1,
            12..=16 => 2,
            17 | 18 => 3,
            _ => *r.pick(&[4u32, 17, 32]),
        },
        mem_max: match r.below(8) {
            0 => Some(None),
            1 => Some(Some(1 + r.below(3) as u32)),
            2 => Some(Some(*r.pick(&[480u32, 511, 512, 600]))),
            _ => None,
        },
        calls: vec![],
        blobs: vec![],
        param: vec![],
        policy: vec![],
        v0_state: vec![],
        v1_state: vec![],
        on_disk: r.chance(1, 2),
        ret: Ret::Const(0),
        dump: Dump::None,
        dump_len: 4096,
        responses: vec![],
        recursion: None,
        deep: None,
        amount: r.u64v(),
        balance: r.u64v(),
        slot_time: r.u64v(),
        sender_contract: r.chance(1, 2),
        tag: "random",
    }
}

pub fn gen_key(r: &mut Rng) -> Vec<u8> {
    let len = match r.below(14) {
        0 => 0,
        11 => 20 + r.below(60) as usize,
        12 => 64 + r.below(3) as usize,
        13 => 100 + r.below(250) as usize,
        _ => 1 + r.below(5) as usize,
    };
    (0..len).map(|i| if len > 10 && i < len - 2 { 0xab } else { *r.pick(&ALPHABET) }).collect()
}

fn near_key(r: &mut Rng, keys: &[Vec<u8>]) -> Vec<u8> {
    if keys.is_empty() || r.chance(1, 4) {
        return gen_key(r);
    }
    let mut k = r.pick(keys).clone();
    match r.below(8) {
        0 => {
            k.pop();
        }
        1 => k.push(*r.pick(&ALPHABET)),
        2 => {
            if let Some(l) = k.last_mut() {
                *l ^= 0x10
            }
        }
        3 => {
            if let Some(l) = k.last_mut() {
                *l ^= 0x01
            }
        }
        4 => {
            let n = r.below(k.len() as u64 + 1) as usize;
            k.truncate(n);
        }
        _ => {}
    }
    k
}

fn gen_val(r: &mut Rng) -> Vec<u8> {
    let len = *r.pick(&[0usize, 1, 3, 63, 64, 65, 200, 3000]);
    let len = if len == 3000 && !r.chance(1, 6) { 7 } else { len };
    let b = r.next() as u8;
    let mut v = vec![b; len];
    if len > 2 {
        v[1] = r.next() as u8;
        v[len - 1] = r.next() as u8;
    }
    v
}

fn patterned(r: &mut Rng, len: usize) -> Vec<u8> {
    let a = r.next() as u8;
    (0..len).map(|i| a.wrapping_add((i as u8).wrapping_mul(7)) ^ ((i >> 8) as u8)).collect()
}

fn gen_resp(r: &mut Rng, keys: &[Vec<u8>]) -> Resp {
    let kind = match r.below(10) {
        0..=2 => RespKind::Success { new_balance: r.u64v(), data: None },
        3..=5 => RespKind::Success { new_balance: r.u64v(), data: Some({ let n__ = *r.pick(&[0usize, 1, 8, 100, 1024, 1025, 70000]); patterned(r, n__) }) },
        6 | 7 => RespKind::Reject { code: -(1 + r.below(0x7fff_ffff) as i32), data: { let n__ = *r.pick(&[0usize, 3, 200]); patterned(r, n__) } },
        _ => RespKind::Fail(1 + r.below(11) as u8),
    };
    let success = matches!(kind, RespKind::Success { .. });
    let mode = r.below(4);
    let state_updated = success && mode == 0;
    let rolled_back = mode == 1;
    let mut reentrant = vec![];
    if state_updated || rolled_back {
        for _ in 0..r.below(4) {
            let k = near_key(r, keys);
            if r.chance(2, 3) {
                reentrant.push((k, Some(gen_val(r))));
            } else {
                reentrant.push((k, None));
            }
        }
    }
    Resp { kind, state_updated, reentrant, rolled_back, energy_used: *r.pick(&[0u64, 0, 1, 1234, 300_000]) }
}

impl<'a> G<'a> {
    pub fn new(r: &'a mut Rng, kind: Kind) -> Self {
        let s = base_script(r, kind);
        let hostile_den = *r.pick(&[40u64, 150, 150, 800]);
        let mut g = G { r, s, scratch: 0, next_slot: 0, keys: vec![], entry_slots: vec![], iter_slots: vec![], action_slots: vec![], n_logs: 0, hostile_den };
        g.scratch = g.blob(vec![0u8; 1024]);
        g
    }

    pub fn blob(&mut self, bytes: Vec<u8>) -> usize {
        self.s.blobs.push(Blob { bytes, at_end: false });
        self.s.blobs.len() - 1
    }

    fn blob_maybe_at_end(&mut self, bytes: Vec<u8>) -> usize {
        let at_end = !self.s.blobs.iter().any(|b| b.at_end) && self.r.chance(1, 12);
        self.s.blobs.push(Blob { bytes, at_end });
        self.s.blobs.len() - 1
    }

    pub fn call(&mut self, f: &'static str, args: Vec<Arg>) -> usize {
        let slot = self.next_slot;
        self.next_slot += 1;
        self.s.calls.push(Call { f, args, slot });
        slot
    }

    fn hostile(&mut self) -> bool { self.r.below(self.hostile_den) < 7 }

    fn huge_len(&mut self) -> u32 { *self.r.pick(&[1u32 << 16, 1 << 31, u32::MAX, (1 << 31) - 1, 1 << 20, 0x8000_0001, 65537]) }

    /// (pointer, length) of input data; sometimes hostile
    fn input(&mut self, data: Vec<u8>) -> (Arg, Arg) {
        let n = data.len() as i64;
        match self.r.below(self.hostile_den) {
            0 => (Arg::MemEnd(-n), Arg::C32(n as u32 + 1)),
            1 => (Arg::MemEnd(-(self.r.below(40) as i64)), Arg::C32(self.r.below(50) as u32)),
            2 => (Arg::C32(0u32.wrapping_sub(self.r.below(64) as u32)), Arg::C32(self.r.below(70) as u32)),
            3 => {
                let b = self.blob(data);
                (Arg::Ptr(b, 0), Arg::C32(self.huge_len()))
            }
            4 => (Arg::MemEnd(0), Arg::C32(0)),
            5 => (Arg::C32(self.r.i32v() as u32), Arg::C32(self.r.below(100) as u32)),
            6 => (Arg::MemEnd(1), Arg::C32(0)),
            _ => {
                let b = self.blob_maybe_at_end(data);
                (Arg::Ptr(b, 0), Arg::Len(b, 0))
            }
        }
    }

    /// (pointer, length) of an output buffer of about `want` bytes; sometimes hostile
    fn output(&mut self, want: u32) -> (Arg, Arg) {
        match self.r.below(self.hostile_den) {
            0 => (Arg::MemEnd(-(want as i64)), Arg::C32(want + 1)),
            1 => (Arg::MemEnd(-(want as i64)), Arg::C32(want)),
            2 => (Arg::C32(0u32.wrapping_sub(self.r.below(64) as u32)), Arg::C32(want)),
            3 => (Arg::Ptr(self.scratch, 0), Arg::C32(self.huge_len())),
            4 => (Arg::C32(self.r.i32v() as u32), Arg::C32(want)),
            5 => (Arg::MemEnd(-(self.r.below(8) as i64)), Arg::C32(self.r.below(16) as u32)),
            _ => {
                let off = self.r.below(512) as i64;
                (Arg::Ptr(self.scratch, off), Arg::C32(want.min(512)))
            }
        }
    }

    /// pointer to a fixed-size output/input area
    fn fixed(&mut self, size: u32) -> Arg {
        match self.r.below(self.hostile_den * 5 / 8) {
            0 => Arg::MemEnd(-(size as i64) + 1),
            1 => Arg::MemEnd(-(size as i64)),
            2 => Arg::C32(0u32.wrapping_sub(self.r.below(40) as u32)),
            3 => Arg::MemEnd(0),
            4 => Arg::C32(self.r.i32v() as u32),
            _ => Arg::Ptr(self.scratch, self.r.below(900) as i64),
        }
    }

    fn offset(&mut self, size: usize) -> Arg {
        let s = size as u32;
        if self.r.below(self.hostile_den) < 8 {
            return Arg::C32(*self.r.pick(&[s.wrapping_add(1), u32::MAX, 16384, 16385, 1 << 31, s.wrapping_add(1000)]));
        }
        Arg::C32(match self.r.below(12) {
            0 => 1.min(s),
            1 => s.saturating_sub(1),
            2 => s,
            3 | 4 => self.r.below(size as u64 + 1) as u32,
            _ => 0,
        })
    }

    fn entry_handle(&mut self) -> Arg {
        match self.r.below(14 * self.hostile_den / 40) {
            0 => Arg::C64(self.r.next()),
            1 => Arg::C64(self.r.below(6)),
            2 => Arg::C64((1u64 << 32) | self.r.below(6)),
            3 => Arg::C64(*self.r.pick(&[u64::MAX, u64::MAX & !(1 << 62), 1 << 63, 0xffff_ffff])),
            4 if !self.iter_slots.is_empty() => Arg::R64(*self.r.pick(&self.iter_slots)),
            _ if !self.entry_slots.is_empty() => Arg::R64(*self.r.pick(&self.entry_slots)),
            _ => Arg::C64(self.r.below(4)),
        }
    }

    fn iter_handle(&mut self) -> Arg {
        match self.r.below(14 * self.hostile_den / 40) {
            0 => Arg::C64(self.r.next()),
            1 => Arg::C64(self.r.below(4)),
            2 => Arg::C64((1u64 << 32) | self.r.below(4)),
            3 => Arg::C64(*self.r.pick(&[u64::MAX, u64::MAX & !(1 << 62), 1 << 63])),
            4 if !self.entry_slots.is_empty() => Arg::R64(*self.r.pick(&self.entry_slots)),
            _ if !self.iter_slots.is_empty() => Arg::R64(*self.r.pick(&self.iter_slots)),
            _ => Arg::C64(self.r.below(3)),
        }
    }

    fn key_bytes(&mut self) -> Vec<u8> {
        let known: Vec<Vec<u8>> = self.keys.iter().map(|b| self.s.blobs[*b].bytes.clone()).chain(self.s.v1_state.iter().map(|(k, _)| k.clone())).collect();
        near_key(self.r, &known)
    }

    fn key_args(&mut self) -> (Arg, Arg) {
        let k = self.key_bytes();
        let (p, l) = self.input(k);
        if let Arg::Ptr(b, 0) = p {
            self.keys.push(b);
        }
        (p, l)
    }

    fn log_call(&mut self) {
        let len = *self.r.pick(&[0usize, 1, 17, 100, 511, 512, 513, 600, 4000]);
        let d = patterned(self.r, len);
        let (p, l) = self.input(d);
        self.call("log_event", vec![p, l]);
        self.n_logs += 1;
    }

    // ------------------------------------------------------------------ v0

    /// the memory.grow instruction with small, boundary and hostile page counts
    fn grow_call(&mut self) {
        let n = if self.hostile() || self.r.chance(1, 4) { *self.r.pick(&[42_949_672u32, 42_949_673, 1 << 31, u32::MAX, 511, 512, 513, 65535, 65536, 1 << 16 | 1]) } else { *self.r.pick(&[0u32, 1, 1, 2, 3, 16]) };
        self.call(GROW, vec![Arg::C32(n)]);
    }

    fn v0_call(&mut self) {
        if self.r.below(50) == 0 {
            self.grow_call();
            return;
        }
        let init = self.s.kind.init();
        let pick = self.r.below(100);
        match pick {
            0..=2 => {
                self.call("get_parameter_size", vec![]);
            }
            3..=11 => {
                let want = *self.r.pick(&[0u32, 1, 8, 100, 512, 1024, 1025]);
                let (p, l) = self.output(want);
                let o = self.offset(self.s.param.len());
                self.call("get_parameter_section", vec![p, l, o]);
            }
            12..=16 => {
                let want = *self.r.pick(&[0u32, 1, 8, 100, 512]);
                let (p, l) = self.output(want);
                let o = self.offset(self.s.policy.len());
                self.call("get_policy_section", vec![p, l, o]);
            }
            17..=25 => self.log_call(),
            26..=34 => {
                let want = *self.r.pick(&[0u32, 1, 8, 100, 512]);
                let (p, l) = self.output(want);
                let o = self.offset(self.s.v0_state.len());
                self.call("load_state", vec![p, l, o]);
            }
            35..=46 => {
                let len = *self.r.pick(&[0usize, 1, 8, 100, 1000, 5000, 16384, 16385, 20000]);
                let len = if len > 1000 && !self.r.chance(1, 3) { 24 } else { len };
                let d = patterned(self.r, len);
                let (p, l) = self.input(d);
                let o = self.offset(self.s.v0_state.len());
                self.call("write_state", vec![p, l, o]);
            }
            47..=53 => {
                let n = *self.r.pick(&[0u32, 1, 100, 5000, 16383, 16384, 16385, 20000, 1 << 31, u32::MAX]);
                self.call("resize_state", vec![Arg::C32(n)]);
            }
            54..=57 => {
                self.call("state_size", vec![]);
            }
            58 => {
                self.call("get_slot_time", vec![]);
            }
            59 | 60 => {
                if init || self.r.chance(1, 15) {
                    let p = self.fixed(32);
                    self.call("get_init_origin", vec![p]);
                }
            }
            _ => {
                if init && !self.r.chance(1, 25) {
                    return;
                }
                match self.r.below(30) {
                    0..=3 => {
                        let s = self.call("accept", vec![]);
                        self.action_slots.push(s);
                    }
                    4..=7 => {
                        let p = if self.r.chance(3, 4) {
                            let b = { let a__ = patterned(self.r, 32); self.blob(a__) };
                            Arg::Ptr(b, 0)
                        } else {
                            self.fixed(32)
                        };
                        let amt = self.r.u64v();
                        let s = self.call("simple_transfer", vec![p, Arg::C64(amt)]);
                        self.action_slots.push(s);
                    }
                    8..=12 => {
                        let name: Vec<u8> = match if self.hostile() { self.r.below(5) } else { 9 } {
                            0 => b"nodot".to_vec(),
                            1 => b"bad name.x".to_vec(),
                            2 => {
                                let mut v = vec![b'a'; 99];
                                v.push(b'.');
                                if self.r.chance(1, 2) {
                                    v.push(b'b');
                                }
                                v
                            }
                            3 => vec![0xff, b'.', 0xfe],
                            4 => vec![],
                            _ => b"other.entry".to_vec(),
                        };
                        let (np, nl) = self.input(name);
                        let max = if self.s.proto <= 4 { 1024usize } else { 65535 };
                        let plen = *self.r.pick(&[0usize, 1, 64, 1024, max, max]);
                        let plen = if self.hostile() { *self.r.pick(&[1025usize, max + 1]) } else { plen };
                        let plen = if plen > 1025 && !self.r.chance(1, 4) { 10 } else { plen };
                        let d = patterned(self.r, plen);
                        let (pp, pl) = self.input(d);
                        let (x1, x2, x3) = (self.r.u64v(), self.r.u64v(), self.r.u64v());
                        let s = self.call("send", vec![Arg::C64(x1), Arg::C64(x2), np, nl, Arg::C64(x3), pp, pl]);
                        self.action_slots.push(s);
                    }
                    13..=17 => {
                        let f = if self.r.chance(1, 2) { "combine_and" } else { "combine_or" };
                        let a = self.action_arg();
                        let b = self.action_arg();
                        let s = self.call(f, vec![a, b]);
                        self.action_slots.push(s);
                    }
                    18 | 19 => {
                        let p = self.fixed(32);
                        self.call("get_receive_invoker", vec![p]);
                    }
                    20 | 21 => {
                        let p = self.fixed(16);
                        self.call("get_receive_self_address", vec![p]);
                    }
                    22 | 23 => {
                        self.call("get_receive_self_balance", vec![]);
                    }
                    24..=26 => {
                        let p = self.fixed(if self.s.sender_contract { 17 } else { 33 });
                        self.call("get_receive_sender", vec![p]);
                    }
                    _ => {
                        let p = self.fixed(32);
                        self.call("get_receive_owner", vec![p]);
                    }
                }
            }
        }
    }

    fn action_arg(&mut self) -> Arg {
        match if self.hostile() { self.r.below(3) } else { 7 } {
            0 => Arg::C32(self.r.below(5) as u32),
            1 => Arg::C32(u32::MAX),
            2 => Arg::C32(self.action_slots.len() as u32),
            _ if !self.action_slots.is_empty() => Arg::R32(*self.r.pick(&self.action_slots)),
            _ => Arg::C32(0),
        }
    }

    // ------------------------------------------------------------------ v1

    fn invoke_call(&mut self) {
        let max = if self.s.proto <= 4 { 1024usize } else { 65535 };
        let tag_pick = self.r.below(20);
        let (tag, payload): (u32, Vec<u8>) = match tag_pick {
            0..=4 => {
                let mut p = patterned(self.r, 32);
                p.extend_from_slice(&self.r.u64v().to_le_bytes());
                if self.hostile() {
                    if self.r.chance(1, 2) {
                        p.push(0);
                    } else {
                        p.pop();
                        p.pop();
                    }
                }
                (0, p)
            }
            5..=11 => {
                let mut p = vec![];
                p.extend_from_slice(&self.r.u64v().to_le_bytes());
                p.extend_from_slice(&self.r.u64v().to_le_bytes());
                let plen = *self.r.pick(&[0usize, 1, 30, 1024, max.min(1100), max]);
                let plen = if self.hostile() { 1025 } else { plen };
                let plen = if plen > 1100 && !self.r.chance(1, 4) { 12 } else { plen };
                let declared = if self.hostile() { plen + 1 + self.r.below(70000) as usize } else { plen };
                p.extend_from_slice(&(declared as u16).to_le_bytes());
                p.extend_from_slice(&patterned(self.r, plen));
                let name: Vec<u8> = match if self.hostile() { self.r.below(5) } else { 5 + self.r.below(5) } {
                    0 => vec![b'x'; 100],
                    1 => b"with space".to_vec(),
                    2 => vec![0xc3, 0xa9],
                    3 => vec![b'z'; 101],
                    4 => b"tab\tname".to_vec(),
                    5 => vec![],
                    6 => vec![b'y'; 99],
                    _ => b"entry_point".to_vec(),
                };
                p.extend_from_slice(&(name.len() as u16).to_le_bytes());
                p.extend_from_slice(&name);
                p.extend_from_slice(&self.r.u64v().to_le_bytes());
                if self.hostile() {
                    let cut = 1 + self.r.below(p.len().min(30) as u64) as usize;
                    p.truncate(p.len() - cut);
                }
                (1, p)
            }
            12 => (2, { let n__ = if self.hostile() { 31 } else { 32 }; patterned(self.r, n__) }),
            13 => (3, { let n__ = if self.hostile() { 17 } else { 16 }; patterned(self.r, n__) }),
            14 => (4, if self.hostile() { vec![1] } else { vec![] }),
            15 => (5, { let n__ = if self.hostile() { 31 } else { *self.r.pick(&[32usize, 33, 200, 5000]) }; patterned(self.r, n__) }),
            16 => (6, { let n__ = if self.hostile() { 33 } else { 32 }; patterned(self.r, n__) }),
            17 => (7, { let n__ = if self.hostile() { 15 } else { 16 }; patterned(self.r, n__) }),
            18 => (8, patterned(self.r, 16)),
            _ => (if self.hostile() { *self.r.pick(&[9u32, 10, 255, 1 << 31, u32::MAX]) } else { 3 }, patterned(self.r, 16)),
        };
        let (p, l) = self.input(payload);
        self.call("invoke", vec![Arg::C32(tag), p, l]);
    }

    fn v1_call(&mut self) {
        if self.r.below(50) == 0 {
            self.grow_call();
            return;
        }
        let init = self.s.kind.init();
        match self.r.below(100) {
            0..=9 => {
                let (p, l) = self.key_args();
                let s = self.call("state_create_entry", vec![p, l]);
                self.entry_slots.push(s);
            }
            10..=15 => {
                let (p, l) = self.key_args();
                let s = self.call("state_lookup_entry", vec![p, l]);
                self.entry_slots.push(s);
            }
            16..=19 => {
                let (p, l) = self.key_args();
                self.call("state_delete_entry", vec![p, l]);
            }
            20..=22 => {
                let (p, l) = self.key_args();
                self.call("state_delete_prefix", vec![p, l]);
            }
            23..=27 => {
                let (p, l) = self.key_args();
                let s = self.call("state_iterate_prefix", vec![p, l]);
                self.iter_slots.push(s);
            }
            28..=34 => {
                let h = self.iter_handle();
                let s = self.call("state_iterator_next", vec![h]);
                self.entry_slots.push(s);
            }
            35..=37 => {
                let h = self.iter_handle();
                self.call("state_iterator_delete", vec![h]);
            }
            38 | 39 => {
                let h = self.iter_handle();
                self.call("state_iterator_key_size", vec![h]);
            }
            40..=42 => {
                let h = self.iter_handle();
                let (p, l) = { let a__ = *self.r.pick(&[0u32, 1, 4, 300]); self.output(a__) };
                let o = self.offset(3);
                self.call("state_iterator_key_read", vec![h, p, l, o]);
            }
            43..=48 => {
                let h = self.entry_handle();
                let (p, l) = { let a__ = *self.r.pick(&[0u32, 1, 5, 70, 300]); self.output(a__) };
                let o = self.offset(64);
                self.call("state_entry_read", vec![h, p, l, o]);
            }
            49..=56 => {
                let h = self.entry_handle();
                let d = gen_val(self.r);
                let (p, l) = self.input(d);
                let o = Arg::C32(*self.r.pick(&[0u32, 0, 0, 1, 2, 64, 65, 300, 5000, u32::MAX]));
                self.call("state_entry_write", vec![h, p, l, o]);
            }
            57..=59 => {
                let h = self.entry_handle();
                self.call("state_entry_size", vec![h]);
            }
            60..=63 => {
                let h = self.entry_handle();
                let n = *self.r.pick(&[0u32, 1, 63, 64, 65, 200, 5000, 100_000, (1 << 30) + 1, 1 << 31, u32::MAX]);
                self.call("state_entry_resize", vec![h, Arg::C32(n)]);
            }
            64..=67 => {
                let len = *self.r.pick(&[0usize, 1, 100, 1000, 16384, 16385, 40000]);
                let len = if len > 1000 && !self.r.chance(1, 4) { 33 } else { len };
                let d = patterned(self.r, len);
                let (p, l) = self.input(d);
                let o = Arg::C32(if self.hostile() { *self.r.pick(&[1u32, 33, 100, 16384, u32::MAX]) } else { 0 });
                self.call("write_output", vec![p, l, o]);
            }
            68 | 69 => {
                let i = Arg::C32(*self.r.pick(&[0u32, 0, 1, 2, 3, u32::MAX]));
                self.call("get_parameter_size", vec![i]);
            }
            70..=73 => {
                let i = Arg::C32(*self.r.pick(&[0u32, 0, 0, 1, 2, 5, u32::MAX]));
                let want = *self.r.pick(&[0u32, 1, 8, 100, 512, 1024, 1025]);
                let (p, l) = self.output(want);
                let o = self.offset(self.s.param.len());
                self.call("get_parameter_section", vec![i, p, l, o]);
            }
            74 | 75 => {
                let want = *self.r.pick(&[0u32, 1, 8, 100, 512]);
                let (p, l) = self.output(want);
                let o = self.offset(self.s.policy.len());
                self.call("get_policy_section", vec![p, l, o]);
            }
            76..=79 => self.log_call(),
            80..=85 => {
                if !init || self.r.chance(1, 20) {
                    self.invoke_call();
                }
            }
            86 => {
                if self.s.proto >= 5 && (!init || self.r.chance(1, 10)) {
                    let p = if self.r.chance(3, 4) {
                        let b = { let a__ = patterned(self.r, 32); self.blob(a__) };
                        Arg::Ptr(b, 0)
                    } else {
                        self.fixed(32)
                    };
                    self.call("upgrade", vec![p]);
                }
            }
            87..=89 => {
                let f = *self.r.pick(&["hash_sha2_256", "hash_sha3_256", "hash_keccak_256"]);
                let len = *self.r.pick(&[0usize, 1, 55, 56, 64, 135, 136, 137, 1000, 70000]);
                let len = if len > 1000 && !self.r.chance(1, 5) { 32 } else { len };
                let d = patterned(self.r, len);
                let (p, l) = self.input(d);
                let o = self.fixed(32);
                self.call(f, vec![p, l, o]);
            }
            90 => self.ed25519_call(),
            91 => {
                let pk = self.fixed(33);
                let sig = self.fixed(64);
                let msg = self.fixed(32);
                self.call("verify_ecdsa_secp256k1_signature", vec![pk, sig, msg]);
            }
            92 => {
                self.call("get_slot_time", vec![]);
            }
            93 => {
                if init || self.r.chance(1, 10) {
                    let p = self.fixed(32);
                    self.call("get_init_origin", vec![p]);
                }
            }
            _ => {
                if init && !self.r.chance(1, 20) {
                    return;
                }
                match self.r.below(8) {
                    0 => {
                        let p = self.fixed(32);
                        self.call("get_receive_invoker", vec![p]);
                    }
                    1 => {
                        let p = self.fixed(16);
                        self.call("get_receive_self_address", vec![p]);
                    }
                    2 | 3 => {
                        self.call("get_receive_self_balance", vec![]);
                    }
                    4 => {
                        let p = self.fixed(if self.s.sender_contract { 17 } else { 33 });
                        self.call("get_receive_sender", vec![p]);
                    }
                    5 => {
                        let p = self.fixed(32);
                        self.call("get_receive_owner", vec![p]);
                    }
                    6 => {
                        self.call("get_receive_entrypoint_size", vec![]);
                    }
                    _ => {
                        let p = self.fixed(ENTRYPOINT.len() as u32);
                        self.call("get_receive_entrypoint", vec![p]);
                    }
                }
            }
        }
    }

    fn ed25519_call(&mut self) {
        use ed25519_dalek::Signer;
        let mut seed = [0u8; 32];
        self.r.fill(&mut seed);
        let sk = ed25519_dalek::SigningKey::from_bytes(&seed);
        let msg_len = *self.r.pick(&[0usize, 1, 32, 100, 1000]);
        let mut msg = patterned(self.r, msg_len);
        let mut sig = sk.sign(&msg).to_bytes().to_vec();
        let mut pk = sk.verifying_key().to_bytes().to_vec();
        match self.r.below(8) {
            0 => sig[self.r.below(32) as usize] ^= 1 << self.r.below(8),
            1 => {
                if !msg.is_empty() {
                    let i = self.r.below(msg.len() as u64) as usize;
                    msg[i] ^= 0x40;
                } else {
                    msg.push(1);
                }
            }
            2 => {
                // another honest key
                let mut seed2 = [0u8; 32];
                self.r.fill(&mut seed2);
                pk = ed25519_dalek::SigningKey::from_bytes(&seed2).verifying_key().to_bytes().to_vec();
            }
            _ => {}
        }
        let hostile = self.r.chance(1, 6);
        let pkb = self.blob(pk);
        let sgb = self.blob(sig);
        let (mp, ml) = self.input(msg);
        let (pka, sga) = if hostile { (self.fixed(32), self.fixed(64)) } else { (Arg::Ptr(pkb, 0), Arg::Ptr(sgb, 0)) };
        self.call("verify_ed25519_signature", vec![pka, sga, mp, ml]);
    }

    fn finish(mut self) -> Script {
        let r = &mut *self.r;
        let kind = self.s.kind;
        let limit = self.s.proto <= 4;
        match kind {
            Kind::V1Init | Kind::V1Receive => {
                self.s.dump = if r.chance(6, 7) { Dump::Out } else { Dump::None };
                self.s.dump_len = 4096;
                self.s.ret = match r.below(20) {
                    0..=14 => Ret::Const(0),
                    15 | 16 => Ret::Const(1 + r.below(1000) as i32),
                    17 => Ret::Const(i32::MIN),
                    _ => Ret::Const(-(1 + r.below(100_000) as i32)),
                };
            }
            Kind::V0Init | Kind::V0Receive => {
                let log_room = !limit || self.n_logs + 6 <= 60;
                self.s.dump = match r.below(10) {
                    0..=4 if log_room => Dump::Out,
                    0..=7 => Dump::State,
                    _ => Dump::None,
                };
                self.s.dump_len = if self.s.dump == Dump::Out { 3072 } else { 4096 };
                self.s.ret = if kind == Kind::V0Init {
                    match r.below(20) {
                        0..=15 => Ret::Const(0),
                        16 => Ret::Const(1 + r.below(100) as i32),
                        _ => Ret::Const(-(1 + r.below(100_000) as i32)),
                    }
                } else {
                    match r.below(20) {
                        0..=12 => Ret::Accept,
                        13 | 14 if !self.action_slots.is_empty() => Ret::Slot(*r.pick(&self.action_slots)),
                        15 => Ret::Const(0),
                        16 => Ret::Const(*r.pick(&[1i32, 5, 1000, i32::MAX])),
                        17 => Ret::Const(i32::MIN),
                        _ => Ret::Const(-(1 + r.below(100_000) as i32)),
                    }
                };
            }
        }
        self.s
    }
}

fn fill_env(r: &mut Rng, s: &mut Script) {
    let psz = match r.below(20) {
        0..=5 => 0,
        6..=11 => 1 + r.below(60) as usize,
        12 | 13 => 1024,
        14 | 15 => 1025,
        16 => 5000,
        17 => 65535,
        18 => 65536,
        _ => 100,
    };
    s.param = patterned(r, psz);
    s.policy = { let n__ = *r.pick(&[0usize, 10, 100, 2000]); patterned(r, n__) };
    if s.kind == Kind::V0Receive {
        let n = *r.pick(&[0usize, 0, 10, 100, 1000, 16000, 16384]);
        s.v0_state = patterned(r, n);
    }
    if s.kind == Kind::V1Receive {
        let mut keys: Vec<Vec<u8>> = vec![];
        for _ in 0..r.below(10) {
            let k = near_key(r, &keys);
            keys.push(k.clone());
            if !s.v1_state.iter().any(|(x, _)| *x == k) {
                s.v1_state.push((k, gen_val(r)));
            }
        }
        let known: Vec<Vec<u8>> = s.v1_state.iter().map(|(k, _)| k.clone()).collect();
        for _ in 0..1 + r.below(4) {
            let resp = gen_resp(r, &known);
            s.responses.push(resp);
        }
    }
}

/// A random script of 1..40 calls.
pub fn random_script(r: &mut Rng) -> Script {
    let kind = match r.below(20) {
        0..=2 => Kind::V0Init,
        3..=7 => Kind::V0Receive,
        8..=11 => Kind::V1Init,
        _ => Kind::V1Receive,
    };
    let mut g = G::new(r, kind);
    {
        let (r, s) = (&mut *g.r, &mut g.s);
        fill_env(r, s);
    }
    let n = match g.r.below(10) {
        0 => 1 + g.r.below(3),
        1..=5 => 3 + g.r.below(12),
        _ => 10 + g.r.below(31),
    };
    if g.r.chance(1, 15) {
        g.s.recursion = Some(*g.r.pick(&[1u32, 2, 100, 1000]));
    }
    let mut guard = 0;
    while (g.s.calls.len() as u64) < n && guard < 400 {
        guard += 1;
        if kind.v1() {
            g.v1_call();
        } else {
            g.v0_call();
        }
    }
    g.finish()
}

/// A v1 receive script built so that handles and iterators obtained before an
/// interrupt are used after it (both with and without a state update).
pub fn interrupt_script(r: &mut Rng) -> Script {
    let mut g = G::new(r, Kind::V1Receive);
    {
        let (r, s) = (&mut *g.r, &mut g.s);
        fill_env(r, s);
    }
    g.s.tag = "interrupt";
    let updated = g.r.chance(1, 2);
    let keys: Vec<Vec<u8>> = g.s.v1_state.iter().map(|(k, _)| k.clone()).collect();
    g.s.responses = vec![Resp {
        kind: RespKind::Success { new_balance: g.r.u64v(), data: if g.r.chance(1, 2) { Some(patterned(g.r, 20)) } else { None } },
        state_updated: updated,
        reentrant: if updated { (0..g.r.below(3)).map(|_| (near_key(g.r, &keys), if g.r.chance(2, 3) { Some(gen_val(g.r)) } else { None })).collect() } else { vec![] },
        rolled_back: !updated && g.r.chance(1, 3),
        energy_used: 0,
    }];
    if g.s.responses[0].rolled_back {
        g.s.responses[0].reentrant = vec![(near_key(g.r, &keys), Some(vec![1, 2, 3]))];
    }
    // some state, handles and an iterator
    for _ in 0..2 + g.r.below(3) {
        let k = g.key_bytes();
        let b = g.blob(k);
        g.keys.push(b);
        let s = g.call("state_create_entry", vec![Arg::Ptr(b, 0), Arg::Len(b, 0)]);
        g.entry_slots.push(s);
        let d = { let a__ = gen_val(g.r); g.blob(a__) };
        g.call("state_entry_write", vec![Arg::R64(s), Arg::Ptr(d, 0), Arg::Len(d, 0), Arg::C32(0)]);
    }
    let pfx = g.blob(vec![]);
    let it = g.call("state_iterate_prefix", vec![Arg::Ptr(pfx, 0), Arg::C32(0)]);
    g.iter_slots.push(it);
    let e = g.call("state_iterator_next", vec![Arg::R64(it)]);
    g.entry_slots.push(e);
    // the interrupt
    let mut p = patterned(g.r, 32);
    p.extend_from_slice(&7u64.to_le_bytes());
    let pb = g.blob(p);
    g.call("invoke", vec![Arg::C32(0), Arg::Ptr(pb, 0), Arg::Len(pb, 0)]);
    // use everything again
    let hs = g.entry_slots.clone();
    for h in hs {
        match g.r.below(4) {
            0 => {
                g.call("state_entry_size", vec![Arg::R64(h)]);
            }
            1 => {
                let (p, l) = (Arg::Ptr(g.scratch, 0), Arg::C32(64));
                g.call("state_entry_read", vec![Arg::R64(h), p, l, Arg::C32(0)]);
            }
            2 => {
                let d = g.blob(vec![9, 9, 9]);
                g.call("state_entry_write", vec![Arg::R64(h), Arg::Ptr(d, 0), Arg::Len(d, 0), Arg::C32(0)]);
            }
            _ => {
                g.call("state_entry_resize", vec![Arg::R64(h), Arg::C32(5)]);
            }
        }
    }
    let e2 = g.call("state_iterator_next", vec![Arg::R64(it)]);
    g.entry_slots.push(e2);
    g.call("state_iterator_key_size", vec![Arg::R64(it)]);
    g.call("state_iterator_delete", vec![Arg::R64(it)]);
    g.call("get_receive_self_balance", vec![]);
    g.call("get_parameter_size", vec![Arg::C32(1)]);
    for _ in 0..g.r.below(8) {
        g.v1_call();
    }
    g.finish()
}

pub const LIMIT_TAGS: [&str; 12] =
    ["limits.memory_grow", "limits.v0_state", "limits.log_size", "limits.log_count", "limits.v0_send_param", "limits.call_depth", "limits.v1_invoke_param", "limits.return_value", "limits.entry_size", "limits.param_sizes", "limits.key_size", "limits.v0_write_state"];

/// Boundary scripts on and just over the protocol limits.
pub fn limit_script(r: &mut Rng, which: u64) -> Script {
    let which = which % LIMIT_TAGS.len() as u64;
    let tag = LIMIT_TAGS[which as usize];
    let v0kind = if r.chance(1, 2) { Kind::V0Init } else { Kind::V0Receive };
    let v1kind = if r.chance(1, 2) { Kind::V1Init } else { Kind::V1Receive };
    let anykind = if r.chance(1, 2) { v0kind } else { v1kind };
    // the numbering below predates the memory_grow tag (which is entry 0 of LIMIT_TAGS)
    let grow = which == 0;
    let which = if grow { 99 } else { which - 1 };
    let kind = match which {
        0 | 10 => v0kind,
        3 => Kind::V0Receive,
        5 => Kind::V1Receive,
        6 | 7 | 9 => v1kind,
        _ => anykind,
    };
    let mut g = G::new(r, kind);
    {
        let (r, s) = (&mut *g.r, &mut g.s);
        fill_env(r, s);
    }
    g.s.tag = tag;
    g.s.responses.truncate(1);
    for resp in g.s.responses.iter_mut() {
        resp.reentrant.clear();
        resp.state_updated = false;
        resp.rolled_back = false;
    }
    let over = g.r.chance(1, 2);
    match which {
        0 => {
            // v0 state: 16384 is the maximum, 16385 is refused
            if kind == Kind::V0Receive && g.r.chance(1, 2) {
                g.s.v0_state = patterned(g.r, 16384);
            }
            g.call("resize_state", vec![Arg::C32(16384)]);
            g.call("state_size", vec![]);
            g.call("resize_state", vec![Arg::C32(16385)]);
            g.call("state_size", vec![]);
            let d = { let a__ = patterned(g.r, 100); g.blob(a__) };
            g.call("write_state", vec![Arg::Ptr(d, 0), Arg::C32(100), Arg::C32(16384 - 50)]);
            g.call("write_state", vec![Arg::Ptr(d, 0), Arg::C32(10), Arg::C32(16384)]);
            g.call("state_size", vec![]);
            let big = *g.r.pick(&[1u32 << 31, u32::MAX, 16386, 65536]);
            g.call("resize_state", vec![Arg::C32(big)]);
            g.call("state_size", vec![]);
        }
        10 => {
            g.s.pages_min = g.s.pages_min.max(1);
            let n = if over { 16385u32 } else { 16384 };
            g.call("write_state", vec![Arg::C32(2048), Arg::C32(n), Arg::C32(0)]);
            g.call("state_size", vec![]);
            g.call("write_state", vec![Arg::C32(2048), Arg::C32(20000), Arg::C32(5)]);
            g.call("state_size", vec![]);
            g.call("load_state", vec![Arg::Ptr(g.scratch, 0), Arg::C32(16), Arg::C32(16380)]);
        }
        1 => {
            let d = { let a__ = patterned(g.r, 600); g.blob(a__) };
            g.call("log_event", vec![Arg::Ptr(d, 0), Arg::C32(512)]);
            g.call("log_event", vec![Arg::Ptr(d, 0), Arg::C32(513)]);
            g.call("log_event", vec![Arg::Ptr(d, 0), Arg::C32(511)]);
            let big = *g.r.pick(&[514u32, 1024, 65536, 1 << 31]);
            g.call("log_event", vec![Arg::Ptr(d, 0), Arg::C32(big)]);
            g.n_logs = 4;
        }
        2 => {
            let d = { let a__ = patterned(g.r, 8); g.blob(a__) };
            let n = if over { 65 + g.r.below(3) } else { 64 };
            for i in 0..n {
                g.call("log_event", vec![Arg::Ptr(d, 0), Arg::C32((i % 8) as u32)]);
            }
            g.n_logs = n as usize;
        }
        3 => {
            let max = if g.s.proto <= 4 { 1024usize } else { 65535 };
            let plen = if over { max + 1 } else { max };
            let name = g.blob(b"tgt.recv".to_vec());
            let d = { let a__ = patterned(g.r, plen); g.blob(a__) };
            g.call("send", vec![Arg::C64(1), Arg::C64(2), Arg::Ptr(name, 0), Arg::Len(name, 0), Arg::C64(3), Arg::Ptr(d, 0), Arg::Len(d, 0)]);
            let s = g.call("accept", vec![]);
            g.action_slots.push(s);
        }
        4 => {
            g.s.recursion = Some(if over { 1025 + g.r.below(2) as u32 } else { 1024 - g.r.below(2) as u32 });
            if kind.v1() {
                g.call("get_slot_time", vec![]);
            } else {
                g.call("state_size", vec![]);
            }
        }
        5 => {
            let max = if g.s.proto <= 4 { 1024usize } else { 65535 };
            let plen = if over && max < 65535 { max + 1 } else { max };
            let mut p = vec![];
            p.extend_from_slice(&5u64.to_le_bytes());
            p.extend_from_slice(&6u64.to_le_bytes());
            p.extend_from_slice(&(plen as u16).to_le_bytes());
            p.extend_from_slice(&patterned(g.r, plen));
            p.extend_from_slice(&3u16.to_le_bytes());
            p.extend_from_slice(b"abc");
            p.extend_from_slice(&9u64.to_le_bytes());
            let b = g.blob(p);
            g.call("invoke", vec![Arg::C32(1), Arg::Ptr(b, 0), Arg::Len(b, 0)]);
            g.call("get_parameter_size", vec![Arg::C32(1)]);
        }
        6 => {
            g.s.pages_min = g.s.pages_min.max(1);
            let n = if over { 16385u32 } else { 16384 };
            g.call("write_output", vec![Arg::C32(2048), Arg::C32(n), Arg::C32(0)]);
            g.call("write_output", vec![Arg::C32(2048), Arg::C32(100), Arg::C32(16384 - 10)]);
            g.call("write_output", vec![Arg::C32(2048), Arg::C32(10), Arg::C32(16384)]);
        }
        7 => {
            let k = g.blob(vec![1, 2]);
            let e = g.call("state_create_entry", vec![Arg::Ptr(k, 0), Arg::Len(k, 0)]);
            g.entry_slots.push(e);
            g.call("state_entry_resize", vec![Arg::R64(e), Arg::C32((1 << 30) + 1)]);
            g.call("state_entry_resize", vec![Arg::R64(e), Arg::C32(u32::MAX)]);
            g.call("state_entry_size", vec![Arg::R64(e)]);
            g.call("state_entry_write", vec![Arg::R64(e), Arg::Ptr(g.scratch, 0), Arg::C32(8), Arg::C32(1 << 30)]);
            if over {
                let big = *g.r.pick(&[1u32 << 31, u32::MAX, 1 << 30]);
                g.call("state_entry_write", vec![Arg::R64(e), Arg::Ptr(g.scratch, 0), Arg::C32(big), Arg::C32(0)]);
            }
        }
        8 => {
            let sz = *g.r.pick(&[0usize, 1024, 1025, 65535, 65536]);
            g.s.param = patterned(g.r, sz);
            g.s.pages_min = g.s.pages_min.max(3);
            let pre: Vec<Arg> = if kind.v1() { vec![Arg::C32(0)] } else { vec![] };
            g.call("get_parameter_size", pre.clone());
            let mut a = pre.clone();
            a.extend([Arg::C32(70000), Arg::C32(sz as u32), Arg::C32(0)]);
            g.call("get_parameter_section", a);
            let mut a = pre.clone();
            a.extend([Arg::C32(70000), Arg::C32(sz as u32 + 1), Arg::C32(1)]);
            g.call("get_parameter_section", a);
            let mut a = pre;
            a.extend([Arg::C32(70000), Arg::C32(4), Arg::C32(sz as u32 + if over { 1 } else { 0 })]);
            g.call("get_parameter_section", a);
        }
        9 => {
            // key lengths far beyond anything payable: must be refused without work
            let f = *g.r.pick(&["state_create_entry", "state_lookup_entry", "state_delete_entry", "state_delete_prefix", "state_iterate_prefix"]);
            let l = *g.r.pick(&[(1u32 << 30) + 1, 1 << 31, u32::MAX, 1 << 30]);
            g.call(f, vec![Arg::Ptr(g.scratch, 0), Arg::C32(l)]);
        }
        99 => {
            // memory.grow: charged 100 per requested page before anything happens; 512 pages is the chain limit
            g.s.mem_max = *g.r.pick(&[None, Some(None), Some(None), Some(Some(2)), Some(Some(600))]);
            let probe = |g: &mut G| {
                // 16 bytes just past the initial end of memory: in bounds only after a successful grow
                if g.s.kind.v1() {
                    g.call("write_output", vec![Arg::MemEnd(0), Arg::C32(16), Arg::C32(0)]);
                } else {
                    g.call("log_event", vec![Arg::MemEnd(0), Arg::C32(16)]);
                }
            };
            let first = *g.r.pick(&[0u32, 1, 2]);
            g.call(GROW, vec![Arg::C32(first)]);
            if first > 0 && g.s.mem_max.is_some() && g.r.chance(1, 2) {
                probe(&mut g);
            }
            let big = *g.r.pick(&[42_949_672u32, 42_949_673, 1 << 31, u32::MAX, 513, 65536]);
            g.call(GROW, vec![Arg::C32(big)]);
            let edge = *g.r.pick(&[508u32, 509, 510, 511, 512]);
            g.call(GROW, vec![Arg::C32(edge)]);
            g.call(GROW, vec![Arg::C32(1)]);
            if over {
                probe(&mut g);
            }
        }
        _ => unreachable!(),
    }
    // a few random calls afterwards
    if g.r.chance(1, 3) {
        for _ in 0..g.r.below(6) {
            if kind.v1() {
                g.v1_call();
            } else {
                g.v0_call();
            }
        }
    }
    let mut s = g.finish();
    if which == 2 && s.dump == Dump::Out && !s.kind.v1() {
        s.dump = Dump::State;
        s.dump_len = 4096;
    }
    if which == 6 {
        s.dump = Dump::None;
    }
    if which == 3 && s.ret != Ret::Accept {
        s.ret = Ret::Accept;
    }
    s
}

/// Crypto-heavy v1 script.
pub fn crypto_script(r: &mut Rng) -> Script {
    let kind = if r.chance(1, 2) { Kind::V1Init } else { Kind::V1Receive };
    let mut g = G::new(r, kind);
    {
        let (r, s) = (&mut *g.r, &mut g.s);
        fill_env(r, s);
    }
    g.s.tag = "crypto";
    g.s.responses.clear();
    for _ in 0..3 + g.r.below(6) {
        match g.r.below(6) {
            0 | 1 => g.ed25519_call(),
            2 => {
                let pk = g.fixed(33);
                let sig = g.fixed(64);
                let msg = g.fixed(32);
                g.call("verify_ecdsa_secp256k1_signature", vec![pk, sig, msg]);
            }
            _ => {
                let f = *g.r.pick(&["hash_sha2_256", "hash_sha3_256", "hash_keccak_256"]);
                let len = *g.r.pick(&[0usize, 1, 55, 56, 64, 135, 136, 137, 1000, 70000]);
                let d = patterned(g.r, len);
                let (p, l) = g.input(d);
                let o = g.fixed(32);
                g.call(f, vec![p, l, o]);
            }
        }
    }
    g.finish()
}

/// A v1 receive script working on a large entry that lives in the persistent state.
pub fn big_entry_script(r: &mut Rng) -> Script {
    let mut g = G::new(r, Kind::V1Receive);
    {
        let (r, s) = (&mut *g.r, &mut g.s);
        fill_env(r, s);
    }
    g.s.tag = "big_entry";
    let key = gen_key(g.r);
    let n = 50_000 + g.r.below(250_000) as usize;
    let val = patterned(g.r, n);
    g.s.v1_state.retain(|(k, _)| *k != key);
    g.s.v1_state.push((key.clone(), val));
    let kb = g.blob(key);
    g.keys.push(kb);
    let h = g.call("state_lookup_entry", vec![Arg::Ptr(kb, 0), Arg::Len(kb, 0)]);
    g.entry_slots.push(h);
    for _ in 0..1 + g.r.below(4) {
        match g.r.below(6) {
            0 => {
                g.call("state_entry_size", vec![Arg::R64(h)]);
            }
            1 => {
                let o = g.r.below(n as u64 + 10) as u32;
                g.call("state_entry_read", vec![Arg::R64(h), Arg::Ptr(g.scratch, 0), Arg::C32(64), Arg::C32(o)]);
            }
            2 | 3 => {
                let d = g.blob(vec![7, 7, 7]);
                let o = *g.r.pick(&[0u32, 5, n as u32 - 1, n as u32]);
                g.call("state_entry_write", vec![Arg::R64(h), Arg::Ptr(d, 0), Arg::Len(d, 0), Arg::C32(o)]);
            }
            _ => {
                let m = *g.r.pick(&[0u32, 10, n as u32, n as u32 + 1, n as u32 + 1000]);
                g.call("state_entry_resize", vec![Arg::R64(h), Arg::C32(m)]);
            }
        }
    }
    for _ in 0..g.r.below(5) {
        g.v1_call();
    }
    g.finish()
}

pub const GATE_NAMES: [&str; 10] = [
    "gate.transfer",
    "gate.call",
    "gate.query_account_balance",
    "gate.query_contract_balance",
    "gate.query_exchange_rates",
    "gate.check_account_signature",
    "gate.query_account_keys",
    "gate.query_contract_module_reference",
    "gate.query_contract_name",
    "gate.upgrade",
];

/// Availability of the operations of `invoke` (tags 0..=8) and of `upgrade` (9) per protocol,
/// transcribed from the documentation of `ReceiveParams` (new_p4 .. new_p7: queries were introduced in
/// protocol 5, account signature checks and key queries are on from new_p6, contract inspection
/// queries were introduced in protocol 7) and of `ConcordiumAllowedImports::support_upgrade`
/// (P5 and up). `None`: a module importing the function does not validate at all.
pub fn gate_available(op: usize, proto: u8) -> Option<bool> {
    match op {
        0 | 1 => Some(true),
        2..=4 => Some(proto >= 5),
        5 | 6 => Some(proto >= 6),
        7 | 8 => Some(proto >= 7),
        _ => {
            if proto >= 5 {
                Some(true)
            } else {
                None
            }
        }
    }
}

/// One well-formed operation under one protocol: it must interrupt where the protocol has the
/// operation and trap where it has not.
pub fn gate_script(r: &mut Rng) -> Script {
    let combo = r.below(39);
    let (op, proto) = if combo < 36 { ((combo / 4) as usize, 4 + (combo % 4) as u8) } else { (9usize, 5 + (combo - 36) as u8) };
    let mut g = G::new(r, Kind::V1Receive);
    {
        let (r, s) = (&mut *g.r, &mut g.s);
        fill_env(r, s);
    }
    g.s.proto = proto;
    g.s.cost_v1 = proto == 7;
    g.s.tag = GATE_NAMES[op];
    g.hostile_den = 800;
    let payload: Vec<u8> = match op {
        0 => {
            let mut p = patterned(g.r, 32);
            p.extend_from_slice(&g.r.u64v().to_le_bytes());
            p
        }
        1 => {
            let mut p = vec![];
            p.extend_from_slice(&g.r.u64v().to_le_bytes());
            p.extend_from_slice(&g.r.u64v().to_le_bytes());
            let plen = g.r.below(40) as usize;
            p.extend_from_slice(&(plen as u16).to_le_bytes());
            p.extend_from_slice(&patterned(g.r, plen));
            p.extend_from_slice(&5u16.to_le_bytes());
            p.extend_from_slice(b"entry");
            p.extend_from_slice(&g.r.u64v().to_le_bytes());
            p
        }
        2 | 6 => patterned(g.r, 32),
        3 | 7 | 8 => patterned(g.r, 16),
        4 => vec![],
        5 => {
            let n = 32 + g.r.below(100) as usize;
            patterned(g.r, n)
        }
        _ => patterned(g.r, 32),
    };
    let b = g.blob(payload);
    if op == 9 {
        g.call("upgrade", vec![Arg::Ptr(b, 0)]);
    } else {
        g.call("invoke", vec![Arg::C32(op as u32), Arg::Ptr(b, 0), Arg::Len(b, 0)]);
    }
    g.call("get_receive_self_balance", vec![]);
    g.call("get_parameter_size", vec![Arg::C32(1)]);
    for _ in 0..g.r.below(5) {
        g.v1_call();
    }
    g.finish()
}

/// Interrupts issued from nested functions with the total nesting on both sides of the limit.
pub fn depth_interrupt_script(r: &mut Rng) -> Script {
    let mut g = G::new(r, Kind::V1Receive);
    {
        let (r, s) = (&mut *g.r, &mut g.s);
        fill_env(r, s);
    }
    g.s.tag = "limits.call_depth_interrupt";
    g.hostile_den = 800;
    let d1 = *g.r.pick(&[1u32, 10, 500, 1000, 1024]);
    let total = *g.r.pick(&[1023u32, 1024, 1024, 1025, 1025, 1026, 1500]);
    let d2 = total.saturating_sub(d1);
    let mut p = patterned(g.r, 32);
    p.extend_from_slice(&g.r.u64v().to_le_bytes());
    let payload = g.blob(p);
    g.s.deep = Some(Deep { d1, d2, second: g.r.chance(1, 2), payload });
    if g.r.chance(1, 4) {
        // top-level recursion first: it must not use up anything once it has returned
        g.s.recursion = Some(*g.r.pick(&[1u32, 1000, 1024]));
    }
    g.call("get_receive_self_balance", vec![]);
    g.call("get_parameter_size", vec![Arg::C32(1)]);
    for _ in 0..g.r.below(5) {
        g.v1_call();
    }
    g.finish()
}

/// Offsets strictly beyond the size of an entry / an iterator key / the v0 state limit.
pub fn offset_script(r: &mut Rng) -> Script {
    let v1 = r.chance(2, 3);
    let kind = if v1 {
        if r.chance(1, 2) {
            Kind::V1Init
        } else {
            Kind::V1Receive
        }
    } else if r.chance(1, 2) {
        Kind::V0Init
    } else {
        Kind::V0Receive
    };
    let mut g = G::new(r, kind);
    {
        let (r, s) = (&mut *g.r, &mut g.s);
        fill_env(r, s);
    }
    g.s.tag = "limits.offset_past_end";
    g.hostile_den = 800;
    if v1 {
        let kb = g.blob(vec![0x10, 0x11, 0x01, 0xff]);
        let e = g.call("state_create_entry", vec![Arg::Ptr(kb, 0), Arg::Len(kb, 0)]);
        g.entry_slots.push(e);
        let d = g.blob(vec![1, 2, 3, 4]);
        g.call("state_entry_write", vec![Arg::R64(e), Arg::Ptr(d, 0), Arg::C32(4), Arg::C32(0)]);
        let it = g.call("state_iterate_prefix", vec![Arg::Ptr(kb, 0), Arg::C32(2)]);
        g.iter_slots.push(it);
        g.call("state_iterator_next", vec![Arg::R64(it)]);
        let mut offs = vec![4u32, 5, 6, u32::MAX, 1 << 31, 3];
        g.r.shuffle(&mut offs);
        for o in offs {
            match g.r.below(3) {
                0 => {
                    g.call("state_entry_read", vec![Arg::R64(e), Arg::Ptr(g.scratch, 0), Arg::C32(8), Arg::C32(o)]);
                }
                1 => {
                    g.call("state_entry_write", vec![Arg::R64(e), Arg::Ptr(d, 0), Arg::C32(2), Arg::C32(o.max(5))]);
                    g.call("state_entry_size", vec![Arg::R64(e)]);
                }
                _ => {
                    g.call("state_iterator_key_read", vec![Arg::R64(it), Arg::Ptr(g.scratch, 16), Arg::C32(8), Arg::C32(o)]);
                }
            }
        }
    } else {
        let first = *g.r.pick(&[0u32, 10, 16000]);
        g.call("resize_state", vec![Arg::C32(first.max(1))]);
        let off = 1 + g.r.below(first.max(1) as u64) as u32;
        let len = 16384 - off + 1 + g.r.below(3000) as u32;
        g.s.pages_min = g.s.pages_min.max(1);
        g.call("write_state", vec![Arg::C32(2048), Arg::C32(len), Arg::C32(off)]);
        g.call("state_size", vec![]);
        g.call("write_state", vec![Arg::C32(2048), Arg::C32(5), Arg::C32(16383)]);
        g.call("state_size", vec![]);
        g.call("load_state", vec![Arg::Ptr(g.scratch, 0), Arg::C32(8), Arg::C32(16380)]);
    }
    for _ in 0..g.r.below(4) {
        if v1 {
            g.v1_call();
        } else {
            g.v0_call();
        }
    }
    g.finish()
}

pub fn gen_case(r: &mut Rng, idx: u64) -> Script {
    match r.below(100) {
        0..=13 => limit_script(r, idx),
        14..=18 => crypto_script(r),
        19..=26 => interrupt_script(r),
        27..=29 => big_entry_script(r),
        30..=37 => gate_script(r),
        38..=40 => depth_interrupt_script(r),
        41..=42 => offset_script(r),
        _ => random_script(r),
    }
}
