//! eng-host: see /verif/DESIGN.md section 5 (C14) and /verif/harness/ENGINE_GUIDE.md
use vmon_core::{ChildCtx, Engine, Plan, Shard, Tier};

struct E;

impl Engine for E {
    fn name(&self) -> &'static str { "eng-host" }

    fn props(&self) -> Vec<&'static str> { vec![] }

    fn plan(&self, _prop: &str, _tier: Tier) -> Plan { Plan::default() }

    fn run_child(&self, _ctx: &ChildCtx, out: &mut Shard) { out.inconclusive.push("not implemented".into()); }
}

fn main() { vmon_core::main_engine(&E) }
