//! eng-host: see /verif/DESIGN.md section 5 (C14) and /verif/harness/ENGINE_GUIDE.md
mod allowlist;
mod c14;
mod gen;
mod model_v0;
mod model_v1;
mod run_engine;
mod script;

use vmon_core::{ChildCtx, Engine, Plan, SanTier, Shard, Tier};

#[global_allocator]
static ALLOC: vmon_core::alloc::Counting = vmon_core::alloc::Counting;

struct E;

const ASSUME: &[&str] = &[
    "reference interpreter and Wasm cost schedule transcription (wasmref) are correct; they share no code with /repo",
    "the host-interface models (eng-host/src/model_v0.rs, model_v1.rs) and the transcription of constants.rs are correct; they use std, sha2, sha3 and ed25519-dalek only",
    "shim crates for num_enum/slab/secp256k1/ed25519-zebra stand in for the real crates: secp256k1 verification always fails, ed25519-zebra is ed25519-dalek underneath",
    "the harness plays the chain for interrupts: responses, new balances, re-entrant state changes (in a fresh generation) and energy deductions come from the script",
    "scripts are straight-line modules of <= 256 host calls with one optional recursive helper; memory 1..32 pages, never grown",
];

impl Engine for E {
    fn name(&self) -> &'static str { "eng-host" }

    fn props(&self) -> Vec<&'static str> { vec!["C14"] }

    fn plan(&self, prop: &str, tier: Tier) -> Plan {
        let quick = tier == Tier::Quick;
        let mut p = Plan { assumptions: ASSUME.iter().map(|s| s.to_string()).collect(), ..Plan::default() };
        if prop == "C14" {
            p.cases = if quick { 1200 } else { 40_000 };
            p.timeout_s = if quick { 600 } else { 3 * 3600 };
            // soft budget: on a loaded machine the thorough wave stops starting new cases after 40 min and
            // the floors decide whether enough was exercised (idle 16 cores: all cases in about 12 min)
            p.budget_s = if quick { 0 } else { 2400 };
            p.crash_is_violation = true;
            p.hang_is_violation = true;
            p.rule = "case = generated script of 1..40 v0/v1 host calls (random with hostile pointers/lengths/offsets/handles/tags, boundary scripts on and over each protocol limit, interrupt scripts, crypto scripts) compiled to a straight-line module, for one of P4..P7 and one cost schedule, plus a slice of the import/export allow-list probe table; evaluations = engine executions judged (ample budget twice, budget sweep, short-of-first-charge budgets) plus allow-list probes; distinct_nontrivial = distinct (module, environment) pairs whose reference run made >= 3 host calls and at least one host charge".into();
            let mut floors: Vec<(String, u64)> = vec![];
            let v0 = ["accept", "simple_transfer", "send", "combine_and", "combine_or", "get_parameter_size", "get_parameter_section", "get_policy_section", "log_event", "load_state", "write_state", "resize_state", "state_size", "get_init_origin", "get_receive_invoker", "get_receive_self_address", "get_receive_self_balance", "get_receive_sender", "get_receive_owner", "get_slot_time"];
            for f in v0 {
                floors.push((format!("host.v0.{}.calls", f), if quick { 15 } else { 120 }));
            }
            for s in script::V1_SIGS {
                floors.push((format!("host.v1.{}.calls", s.name), if quick { 15 } else { 120 }));
            }
            for t in gen::LIMIT_TAGS {
                floors.push((t.to_string(), if quick { 20 } else { 160 }));
            }
            floors.push(("limits.call_depth_interrupt".into(), if quick { 60 } else { 480 }));
            floors.push(("limits.offset_past_end".into(), if quick { 40 } else { 320 }));
            for op in 0..10usize {
                for proto in 4..=7u8 {
                    if let Some(av) = gen::gate_available(op, proto) {
                        floors.push((format!("{}.P{}.{}", gen::GATE_NAMES[op], proto, if av { "available" } else { "refused" }), if quick { 3 } else { 24 }));
                    }
                }
            }
            // thorough runs up to 33x the quick cases (fewer when the soft time budget cuts in); floors are 8x
            let f = |k: &str, q: u64, _t: u64| (k.to_string(), if quick { q } else { 8 * q });
            floors.extend([
                f("hostile.oob_pointer", 500, 20_000),
                f("hostile.huge_len", 100, 4_000),
                f("outcome.success", 1200, 60_000),
                f("outcome.reject", 200, 10_000),
                f("outcome.trap", 1000, 50_000),
                f("outcome.out_of_energy", 5, 200),
                f("energy.exact", 1200, 60_000),
                f("energy.lower_bound", 100, 5_000),
                f("budget.ooe_observed", 1000, 50_000),
                f("budget.exact_remaining", 800, 40_000),
                f("charge.short_budget_refused", 1000, 50_000),
                f("charge.short_budget_refused.huge_len", 20, 1000),
                f("alloc.delta_checked", 800, 40_000),
                f("grow.charged", 150, 7_000),
                f("grow.charge_past_u32", 40, 2_000),
                f("grow.million_budget_ooe", 60, 3_000),
                f("interrupt.script_agrees.success", 200, 10_000),
                f("interrupt.script_agrees.energy_exact_after_resume", 150, 7_000),
                f("depth_interrupt.total_within_limit", 20, 0),
                f("depth_interrupt.total_over_limit", 30, 0),
                f("depth_interrupt.total_exactly_limit", 10, 0),
                f("depth_interrupt.total_limit_plus_one", 10, 0),
                f("depth_interrupt.limit_hit_after_resume", 20, 0),
                f("depth_interrupt.second_interrupt_at_bottom", 8, 0),
                f("edge.v1.entry_read.offset_gt_size", 50, 0),
                f("edge.v1.entry_read.offset_u32max", 15, 0),
                f("edge.v1.entry_write.offset_gt_size", 50, 0),
                f("edge.v1.entry_write.offset_u32max", 30, 0),
                f("edge.v1.iterator_key_read.offset_gt_size", 40, 0),
                f("edge.v1.iterator_key_read.offset_u32max", 15, 0),
                f("edge.v0.write_state.offset_gt0_truncated_at_16k", 40, 0),
                f("edge.v0.write_state.truncated_at_16k", 60, 0),
                f("interrupt.resumed", 600, 30_000),
                f("interrupt.state_updated", 100, 5_000),
                f("interrupt.state_unchanged", 300, 15_000),
                f("interrupt.rolled_back", 50, 2_500),
                f("interrupt.stale_handle_after_update", 100, 5_000),
                f("interrupt.handle_used_after_unchanged", 100, 5_000),
                f("interrupt.deterministic_reruns", 400, 20_000),
                f("interrupt.response.failure", 30, 1500),
                f("interrupt.response.contract_reject", 30, 1500),
                f("interrupt.response.success_with_data", 100, 5000),
                f("proto.P4", 500, 25_000),
                f("proto.P5", 500, 25_000),
                f("proto.P6", 500, 25_000),
                f("proto.P7", 500, 25_000),
                f("allowlist.documented_accepted", 500, 25_000),
                f("allowlist.param_changed_rejected", 1000, 50_000),
                f("allowlist.result_changed_rejected", 500, 25_000),
                f("allowlist.duplicate_rejected", 500, 25_000),
                f("allowlist.unknown_module_rejected", 500, 25_000),
                f("allowlist.unknown_name_rejected", 300, 15_000),
                f("allowlist.upgrade_gated", 20, 1000),
                f("allowlist.other_version_rejected", 500, 25_000),
                f("allowlist.export.init_ok", 50, 2500),
                f("allowlist.export.bad_type_rejected", 500, 25_000),
                f("allowlist.export.len101_rejected", 50, 2500),
            ]);
            p.floors = floors;
            p.san = vec![SanTier { name: "asan", shards: 16, cases: if quick { 250 } else { 6_000 }, timeout_s: if quick { 600 } else { 3600 }, budget_s: if quick { 40 } else { 600 } }];
        }
        p
    }

    fn run_child(&self, ctx: &ChildCtx, out: &mut Shard) {
        match ctx.prop.as_str() {
            "C14" => c14::run(ctx, out),
            _ => out.inconclusive.push("unknown property".into()),
        }
    }
}

fn main() { vmon_core::main_engine(&E) }
