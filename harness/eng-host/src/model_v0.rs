//! Reference model of the v0 host interface, and the pieces shared with the
//! v1 model (energy meter with per-call records, memory access, schedule
//! transcribed from constants.rs).
use crate::script::*;
use wasmref::refint::{Trap, V};

// ---------------------------------------------------------------------------
// Energy schedule, transcribed from constants.rs (doc comments there).
// ---------------------------------------------------------------------------
pub const MAX_CONTRACT_STATE: usize = 16384;
pub const MAX_LOG_SIZE: u32 = 512;
pub const MAX_NUM_LOGS: usize = 64;
pub const MAX_ACTIVATION_FRAMES: u32 = 1024;
pub const MAX_ENTRY_SIZE: usize = 1 << 30;
pub const MEMORY_COST_FACTOR: u64 = 100;

pub fn copy_from_host_cost(x: u32) -> u64 { 10 + x as u64 }
pub fn copy_to_host_cost(x: u32) -> u64 { 10 + x as u64 }
pub fn copy_parameter_cost(len: u32) -> u64 {
    if len <= 1024 {
        10 + len as u64
    } else {
        10 + 1000 * len as u64
    }
}
pub fn additional_state_size_cost(x: u64) -> u64 { x / 100 }
pub fn log_event_cost(x: u32) -> u64 { 500 + 1000 * x as u64 }
pub const BASE_ACTION_COST: u64 = 1000;
pub fn action_send_cost(x: u32) -> u64 { 1000 + 72000 + 1000 * x as u64 }
pub fn create_entry_cost(k: u32) -> u64 {
    if k <= 64 {
        48 + 8 * copy_from_host_cost(k) + 100 * k as u64
    } else {
        let l = k as u64;
        match 100u64.checked_mul(l * l) {
            Some(q) => 48 + 8 * copy_from_host_cost(k) + q / 64,
            None => u64::MAX,
        }
    }
}
pub fn lookup_entry_cost(k: u32) -> u64 { 80 + 4 * copy_from_host_cost(k) + 16 * k as u64 }
pub fn delete_entry_cost(k: u32) -> u64 { 80 + 4 * copy_from_host_cost(k) + 16 * k as u64 }
pub const INVOKE_BASE_COST: u64 = 500;
pub fn delete_prefix_find_cost(l: u32) -> u64 { 10 * l as u64 }
pub fn new_iterator_cost(l: u32) -> u64 { 80 + 100 * l as u64 }
pub const DELETE_ITERATOR_BASE_COST: u64 = 10;
pub fn delete_iterator_cost(l: u32) -> u64 { 32 + 32 * l as u64 }
pub const ITERATOR_KEY_SIZE_COST: u64 = 10;
pub const ITERATOR_NEXT_COST: u64 = 32;
pub const RESIZE_ENTRY_BASE_COST: u64 = 10;
pub fn additional_entry_size_cost(x: u64) -> u64 { 100 * x }
pub const ENTRY_SIZE_COST: u64 = 32;
pub fn read_entry_cost(x: u32) -> u64 { 32 + (x / 8) as u64 }
pub fn write_entry_cost(x: u32) -> u64 { 32 + (x / 8) as u64 }
pub fn write_output_cost(x: u32) -> u64 { 10 + x as u64 }
pub fn additional_output_size_cost(x: u64) -> u64 { 30 * x }
pub fn verify_ed25519_cost(l: u32) -> u64 { 100_000 + 100 * l as u64 }
pub const VERIFY_ECDSA_SECP256K1_COST: u64 = 100_000;
pub fn hash_sha2_256_cost(l: u32) -> u64 { 500 + 7 * l as u64 }
pub fn hash_sha3_256_cost(l: u32) -> u64 { 500 + 5 * l as u64 }
pub fn hash_keccak_256_cost(l: u32) -> u64 { 500 + 5 * l as u64 }

// ---------------------------------------------------------------------------

/// What the model did for one host call.
#[derive(Clone, Debug)]
pub struct CallRec {
    pub name: String,
    /// energy accumulated when the host function was entered (includes the call instruction)
    pub e_before: u64,
    pub charges: Vec<u64>,
    pub trapped: bool,
    /// the call had an out-of-bounds pointer/length (trap for that reason)
    pub oob: bool,
    /// the largest length-like argument
    pub max_len: u64,
    /// index in `charges` of the charge for copying a not yet owned entry into the current
    /// generation (`MutableTrie::get_mut`)
    pub copy_charge: Option<usize>,
}

pub struct Meter {
    /// energy budget of the reference run
    pub budget: u64,
    pub recs: Vec<CallRec>,
    /// some charge so far is only a lower bound (tree traversal)
    pub inexact: bool,
    /// index of the first call from which on `e_before` is only a lower bound
    pub inexact_from: Option<usize>,
    /// boundary situations the execution went through (coverage keys)
    pub edges: Vec<&'static str>,
}

impl Meter {
    pub fn new(budget: u64) -> Self { Meter { budget, recs: vec![], inexact: false, inexact_from: None, edges: vec![] } }

    pub fn begin(&mut self, name: &str, energy: u64) { self.recs.push(CallRec { name: name.to_string(), e_before: energy, charges: vec![], trapped: false, oob: false, max_len: 0, copy_charge: None }); }

    /// Charge `n`; out of energy when the accumulated total would pass the budget.
    pub fn tick(&mut self, energy: &mut u64, n: u64) -> Result<(), Trap> {
        if let Some(r) = self.recs.last_mut() {
            r.charges.push(n);
        }
        match energy.checked_add(n) {
            Some(e) if e <= self.budget => {
                *energy = e;
                Ok(())
            }
            _ => {
                *energy = self.budget;
                Err(Trap::OutOfEnergy)
            }
        }
    }

    pub fn mark_inexact(&mut self) {
        if !self.inexact {
            self.inexact = true;
            self.inexact_from = Some(self.recs.len());
        }
    }

    pub fn note_copy_charge(&mut self) {
        if let Some(r) = self.recs.last_mut() {
            r.copy_charge = Some(r.charges.len());
        }
    }

    pub fn note_len(&mut self, l: u64) {
        if let Some(r) = self.recs.last_mut() {
            r.max_len = r.max_len.max(l);
        }
    }

    pub fn oob(&mut self) -> Trap {
        if let Some(r) = self.recs.last_mut() {
            r.oob = true;
        }
        Trap::Host("pointer/length outside linear memory".into())
    }
}

/// Self-test switch: `C14_BREAK=<name>` plants a deliberate error in the *model* (never in the
/// code under test) so that the oracles and the replay path can be seen firing.
pub fn brk(name: &str) -> bool {
    static B: std::sync::OnceLock<String> = std::sync::OnceLock::new();
    B.get_or_init(|| std::env::var("C14_BREAK").unwrap_or_default()) == name
}

pub fn trap(s: &str) -> Trap { Trap::Host(s.to_string()) }

/// `[start, start+len)` must lie inside memory.
pub fn range(m: &mut Meter, mem: &[u8], start: u32, len: u64) -> Result<std::ops::Range<usize>, Trap> {
    let end = start as u64 + len;
    if end > mem.len() as u64 {
        Err(m.oob())
    } else {
        Ok(start as usize..end as usize)
    }
}

pub fn a32(args: &[V], i: usize) -> u32 { args[i].i32() as u32 }
pub fn a64(args: &[V], i: usize) -> u64 { args[i].i64() as u64 }

#[derive(Clone, Debug, PartialEq, Eq)]
pub enum ActionM {
    Send { index: u64, subindex: u64, name: String, amount: u64, parameter: Vec<u8> },
    SimpleTransfer { to: [u8; 32], amount: u64 },
    And(u32, u32),
    Or(u32, u32),
    Accept,
}

pub fn serial_sender(contract: bool) -> Vec<u8> {
    // `Address` serialisation of concordium-contracts-common: tag 0 + 32 bytes account
    // address, tag 1 + index (u64 LE) + subindex (u64 LE)
    let mut v = vec![];
    if contract {
        v.push(1);
        v.extend_from_slice(&SENDER_CONTRACT.0.to_le_bytes());
        v.extend_from_slice(&SENDER_CONTRACT.1.to_le_bytes());
    } else {
        v.push(0);
        v.extend_from_slice(&SENDER_ACC);
    }
    v
}

/// Receive names: contain a '.', at most 100 bytes, ASCII alphanumeric or punctuation.
pub fn valid_receive_name(b: &[u8]) -> bool { b.len() <= 100 && b.contains(&b'.') && b.iter().all(|c| c.is_ascii_alphanumeric() || c.is_ascii_punctuation()) }

/// Entrypoint names: fewer than 100 bytes, ASCII alphanumeric or punctuation.
pub fn valid_entrypoint_name(b: &[u8]) -> bool { b.len() < 100 && b.iter().all(|c| c.is_ascii_alphanumeric() || c.is_ascii_punctuation()) }

/// Functions shared by the v0 and v1 interfaces (same implementation module in the engine).
pub struct Shared {
    pub init: bool,
    pub policy: Vec<u8>,
    pub logs: Vec<Vec<u8>>,
    pub limit_logs: bool,
    pub slot_time: u64,
    pub balance: u64,
    pub sender_contract: bool,
}

impl Shared {
    pub fn new(s: &Script) -> Self { Shared { init: s.kind.init(), policy: s.policy.clone(), logs: vec![], limit_logs: s.proto <= 4, slot_time: s.slot_time, balance: s.balance, sender_contract: s.sender_contract } }

    /// Returns None if the function is not one of the shared ones.
    pub fn call(&mut self, m: &mut Meter, name: &str, args: &[V], mem: &mut [u8], energy: &mut u64) -> Option<Result<Option<V>, Trap>> {
        Some(match name {
            "get_policy_section" => (|| {
                let (start, length, offset) = (a32(args, 0), a32(args, 1), a32(args, 2));
                m.note_len(length as u64);
                m.tick(energy, copy_from_host_cost(length))?;
                let r = range(m, mem, start, length as u64)?;
                let end = (offset as u64 + length as u64).min(self.policy.len() as u64);
                if offset as u64 > end {
                    return Err(trap("reading policy past its end"));
                }
                let src = &self.policy[offset as usize..end as usize];
                mem[r.start..r.start + src.len()].copy_from_slice(src);
                Ok(Some(V::I32(src.len() as i32)))
            })(),
            "log_event" => (|| {
                let (start, length) = (a32(args, 0), a32(args, 1));
                m.note_len(length as u64);
                let r = range(m, mem, start, length as u64)?;
                if length <= MAX_LOG_SIZE {
                    m.tick(energy, log_event_cost(length) + brk("log_cost") as u64)?;
                    if !self.limit_logs || self.logs.len() < MAX_NUM_LOGS {
                        self.logs.push(mem[r].to_vec());
                        Ok(Some(V::I32(1)))
                    } else {
                        Ok(Some(V::I32(0)))
                    }
                } else {
                    Ok(Some(V::I32(-1)))
                }
            })(),
            "get_slot_time" => Ok(Some(V::I64(self.slot_time as i64))),
            "get_init_origin" => (|| {
                if !self.init {
                    return Err(trap("init-only function in receive"));
                }
                let r = range(m, mem, a32(args, 0), 32)?;
                mem[r].copy_from_slice(&INIT_ORIGIN);
                Ok(None)
            })(),
            "get_receive_invoker" | "get_receive_owner" => (|| {
                if self.init {
                    return Err(trap("receive-only function in init"));
                }
                let r = range(m, mem, a32(args, 0), 32)?;
                mem[r].copy_from_slice(if name == "get_receive_invoker" { &INVOKER } else { &OWNER });
                Ok(None)
            })(),
            "get_receive_self_address" => (|| {
                if self.init {
                    return Err(trap("receive-only function in init"));
                }
                let r = range(m, mem, a32(args, 0), 16)?;
                mem[r.start..r.start + 8].copy_from_slice(&SELF_ADDR.0.to_le_bytes());
                mem[r.start + 8..r.start + 16].copy_from_slice(&SELF_ADDR.1.to_le_bytes());
                Ok(None)
            })(),
            "get_receive_self_balance" => {
                if self.init {
                    Err(trap("receive-only function in init"))
                } else {
                    Ok(Some(V::I64(self.balance as i64)))
                }
            }
            "get_receive_sender" => (|| {
                if self.init {
                    return Err(trap("receive-only function in init"));
                }
                let b = serial_sender(self.sender_contract);
                let r = range(m, mem, a32(args, 0), b.len() as u64)?;
                mem[r].copy_from_slice(&b);
                Ok(None)
            })(),
            _ => return None,
        })
    }
}

pub struct ModelV0 {
    pub sh: Shared,
    pub param: Vec<u8>,
    pub state: Vec<u8>,
    pub actions: Vec<ActionM>,
    pub max_param: usize,
    pub meter: Meter,
}

impl ModelV0 {
    pub fn new(s: &Script, budget: u64) -> Self {
        ModelV0 { sh: Shared::new(s), param: s.param.clone(), state: if s.kind.init() { vec![] } else { s.v0_state.clone() }, actions: vec![], max_param: if s.proto <= 4 { 1024 } else { 65535 }, meter: Meter::new(budget) }
    }

    pub fn call(&mut self, name: &str, args: &[V], mem: &mut [u8], energy: &mut u64) -> Result<Option<V>, Trap> {
        self.meter.begin(name, *energy);
        let r = self.call_inner(name, args, mem, energy);
        if r.is_err() {
            self.meter.recs.last_mut().unwrap().trapped = true;
        }
        r
    }

    fn call_inner(&mut self, name: &str, args: &[V], mem: &mut [u8], energy: &mut u64) -> Result<Option<V>, Trap> {
        if let Some(r) = self.sh.call(&mut self.meter, name, args, mem, energy) {
            return r;
        }
        if self.sh.init && matches!(name, "accept" | "simple_transfer" | "send" | "combine_and" | "combine_or") {
            return Err(trap("receive-only function in init"));
        }
        let m = &mut self.meter;
        match name {
            "get_parameter_size" => Ok(Some(V::I32(self.param.len() as i32))),
            "get_parameter_section" => {
                let (start, length, offset) = (a32(args, 0), a32(args, 1), a32(args, 2));
                m.note_len(length as u64);
                m.tick(energy, copy_parameter_cost(length))?;
                let r = range(m, mem, start, length as u64)?;
                let end = (offset as u64 + length as u64).min(self.param.len() as u64);
                if offset as u64 > end {
                    return Err(trap("reading parameter past its end"));
                }
                let src = &self.param[offset as usize..end as usize];
                mem[r.start..r.start + src.len()].copy_from_slice(src);
                Ok(Some(V::I32(src.len() as i32)))
            }
            "load_state" => {
                let (start, length, offset) = (a32(args, 0), a32(args, 1), a32(args, 2));
                m.note_len(length as u64);
                m.tick(energy, copy_from_host_cost(length))?;
                let r = range(m, mem, start, length as u64)?;
                if offset as usize > self.state.len() {
                    m.edges.push("edge.v0.load_state.offset_gt_size");
                    return Err(trap("load_state past the end of the state"));
                }
                let src = &self.state[offset as usize..];
                let n = src.len().min(length as usize);
                mem[r.start..r.start + n].copy_from_slice(&src[..n]);
                Ok(Some(V::I32(n as i32)))
            }
            "write_state" => {
                let (start, length, offset) = (a32(args, 0), a32(args, 1), a32(args, 2));
                m.note_len(length as u64);
                m.tick(energy, copy_to_host_cost(length))?;
                let r = range(m, mem, start, length as u64)?;
                if offset as usize > self.state.len() {
                    return Err(trap("write_state past the end of the state"));
                }
                if offset > 0 && offset as usize + length as usize > MAX_CONTRACT_STATE {
                    m.edges.push("edge.v0.write_state.offset_gt0_truncated_at_16k");
                }
                if offset as usize + length as usize > MAX_CONTRACT_STATE {
                    m.edges.push("edge.v0.write_state.truncated_at_16k");
                }
                let end = (offset as usize + length as usize).min(if brk("write_state_limit") { MAX_CONTRACT_STATE + 1 } else { MAX_CONTRACT_STATE });
                if self.state.len() < end {
                    self.state.resize(end, 0);
                }
                let n = end - offset as usize;
                self.state[offset as usize..end].copy_from_slice(&mem[r.start..r.start + n]);
                Ok(Some(V::I32(n as i32)))
            }
            "resize_state" => {
                let new = a32(args, 0);
                let old = self.state.len() as u32;
                if new > old {
                    m.tick(energy, additional_state_size_cost((new - old) as u64))?;
                }
                if new as usize > MAX_CONTRACT_STATE {
                    Ok(Some(V::I32(0)))
                } else {
                    self.state.resize(new as usize, 0);
                    Ok(Some(V::I32(1)))
                }
            }
            "state_size" => Ok(Some(V::I32(self.state.len() as i32))),
            "accept" => {
                m.tick(energy, BASE_ACTION_COST)?;
                self.actions.push(ActionM::Accept);
                Ok(Some(V::I32(self.actions.len() as i32 - 1)))
            }
            "simple_transfer" => {
                m.tick(energy, BASE_ACTION_COST)?;
                let r = range(m, mem, a32(args, 0), 32)?;
                let mut to = [0u8; 32];
                to.copy_from_slice(&mem[r]);
                self.actions.push(ActionM::SimpleTransfer { to, amount: a64(args, 1) });
                Ok(Some(V::I32(self.actions.len() as i32 - 1)))
            }
            "send" => {
                let (index, subindex, name_start, name_len, amount, par_start, par_len) = (a64(args, 0), a64(args, 1), a32(args, 2), a32(args, 3), a64(args, 4), a32(args, 5), a32(args, 6));
                m.note_len(par_len as u64);
                m.tick(energy, action_send_cost(par_len))?;
                let pr = range(m, mem, par_start, par_len as u64)?;
                let nr = range(m, mem, name_start, name_len as u64)?;
                let nm = &mem[nr];
                if !valid_receive_name(nm) {
                    return Err(trap("send: invalid receive name"));
                }
                if par_len as usize > self.max_param {
                    return Err(trap("send: parameter exceeds the maximum size"));
                }
                self.actions.push(ActionM::Send { index, subindex, name: String::from_utf8_lossy(nm).to_string(), amount, parameter: mem[pr].to_vec() });
                Ok(Some(V::I32(self.actions.len() as i32 - 1)))
            }
            "combine_and" | "combine_or" => {
                m.tick(energy, BASE_ACTION_COST)?;
                let (l, r) = (a32(args, 0), a32(args, 1));
                let n = self.actions.len() as u32;
                if !(l < n && r < n) {
                    return Err(trap("combining unknown actions"));
                }
                self.actions.push(if name == "combine_and" { ActionM::And(l, r) } else { ActionM::Or(l, r) });
                Ok(Some(V::I32(n as i32)))
            }
            other => panic!("harness: v0 model has no function {}", other),
        }
    }
}
