//! Reference model of the v1 host interface: parameters, return value, logs,
//! state (ordered map + iterator locks + handle tables with generation
//! counter; logic of eng-trie/c15.rs), invoke/upgrade with scripted chain
//! responses, crypto primitives.
use crate::{model_v0::*, script::*};
use sha2::Digest;
use std::collections::{BTreeMap, BTreeSet};
use wasmref::refint::{Trap, V};

pub const NONE: u64 = u64::MAX;
pub const ERR: u64 = u64::MAX & !(1u64 << 62);

#[derive(Clone, Debug)]
pub struct IterM {
    pub prefix: Vec<u8>,
    pub snapshot: Vec<Vec<u8>>,
    pub pos: usize,
    pub started: bool,
}

#[derive(Clone, Debug)]
pub struct HandleM {
    pub key: Vec<u8>,
    pub epoch: u64,
    /// the key was overwritten by create_entry after this handle was given out (not documented)
    pub unspecified: bool,
}

#[derive(Clone, Debug, PartialEq, Eq)]
pub enum IntM {
    Transfer { to: [u8; 32], amount: u64 },
    Call { index: u64, subindex: u64, parameter: Vec<u8>, name: String, amount: u64 },
    Upgrade { module_ref: [u8; 32] },
    QueryAccountBalance { address: [u8; 32] },
    QueryContractBalance { index: u64, subindex: u64 },
    QueryExchangeRates,
    CheckAccountSignature { address: [u8; 32], payload: Vec<u8> },
    QueryAccountKeys { address: [u8; 32] },
    QueryContractModuleReference { index: u64, subindex: u64 },
    QueryContractName { index: u64, subindex: u64 },
}

impl IntM {
    /// Transfers, calls and upgrades hand the logs produced so far to the chain; queries do not.
    pub fn clears_logs(&self) -> bool { matches!(self, IntM::Transfer { .. } | IntM::Call { .. } | IntM::Upgrade { .. }) }
}

#[derive(Clone, Debug)]
pub struct IntRec {
    pub int: IntM,
    /// energy accumulated when the interrupt was raised
    pub energy: u64,
    pub logs: Vec<Vec<u8>>,
    /// a state-changing host function was called since the start / the last resume
    pub changed_called: bool,
    /// the contents of the state were modified since the start / the last resume
    pub modified: bool,
    /// `energy` is exact (no traversal-dependent charge before)
    pub exact: bool,
    /// index of the host call (in the meter's records) that raised the interrupt
    pub rec_idx: usize,
}

pub struct ModelV1 {
    pub sh: Shared,
    pub params: Vec<Vec<u8>>,
    pub rv: Vec<u8>,
    pub limit_rv: bool,
    pub max_param: usize,
    pub support_queries: bool,
    pub support_sig: bool,
    pub support_inspect: bool,
    pub contents: BTreeMap<Vec<u8>, Vec<u8>>,
    pub epoch: BTreeMap<Vec<u8>, u64>,
    pub next_epoch: u64,
    /// keys whose value is owned (already copied) in the current generation of the state
    pub owned: BTreeSet<Vec<u8>>,
    pub gen: u32,
    pub iters: Vec<Option<IterM>>,
    pub handles: Vec<HandleM>,
    pub changed_called: bool,
    pub modified: bool,
    pub responses: Vec<Resp>,
    pub interrupts: Vec<IntRec>,
    pub meter: Meter,
    /// the execution touched something the documentation does not define
    pub unjudged: Option<String>,
    /// stale handles/iterators used after an interrupt (coverage)
    pub stale_after_update: u64,
    pub used_after_unchanged: u64,
    handles_before_resume: usize,
}

impl ModelV1 {
    pub fn new(s: &Script, budget: u64) -> Self {
        let mut contents = BTreeMap::new();
        let mut epoch = BTreeMap::new();
        let mut next_epoch = 1;
        if !s.kind.init() {
            for (k, v) in &s.v1_state {
                contents.insert(k.clone(), v.clone());
                epoch.insert(k.clone(), next_epoch);
                next_epoch += 1;
            }
        }
        ModelV1 {
            sh: Shared::new(s),
            params: vec![s.param.clone()],
            rv: vec![],
            limit_rv: s.proto <= 4,
            max_param: if s.proto <= 4 { 1024 } else { 65535 },
            support_queries: s.proto >= 5,
            support_sig: s.proto >= 6,
            support_inspect: s.proto >= 7,
            contents,
            epoch,
            next_epoch,
            owned: BTreeSet::new(),
            gen: 0,
            iters: vec![],
            handles: vec![],
            changed_called: false,
            modified: false,
            responses: s.responses.clone(),
            interrupts: vec![],
            meter: Meter::new(budget),
            unjudged: None,
            stale_after_update: 0,
            used_after_unchanged: 0,
            handles_before_resume: 0,
        }
    }

    fn locked_at_or_under(&self, k: &[u8]) -> bool { !brk("delete_locked") && self.iters.iter().flatten().any(|i| k.starts_with(&i.prefix)) }

    fn locked_related(&self, k: &[u8]) -> bool { self.iters.iter().flatten().any(|i| k.starts_with(&i.prefix) || i.prefix.starts_with(k)) }

    fn split(h: u64) -> (u32, usize) { ((h >> 32) as u32, (h & 0xffff_ffff) as usize) }

    /// generation and table index are right (the entry may still be deleted)
    fn handle_known(&self, h: u64) -> Option<&HandleM> {
        let (g, idx) = Self::split(h);
        if g != self.gen {
            return None;
        }
        self.handles.get(idx)
    }

    fn handle_valid(&self, h: u64) -> Option<HandleM> {
        let hm = self.handle_known(h)?;
        match self.epoch.get(&hm.key) {
            Some(e) if *e == hm.epoch => Some(hm.clone()),
            _ => None,
        }
    }

    fn new_handle(&mut self, key: &[u8]) -> u64 {
        let idx = self.handles.len();
        self.handles.push(HandleM { key: key.to_vec(), epoch: self.epoch[key], unspecified: false });
        ((self.gen as u64) << 32) | idx as u64
    }

    fn note_handle_use(&mut self, h: u64) {
        let (g, idx) = Self::split(h);
        if self.gen > 0 && g == self.gen - 1 {
            self.stale_after_update += 1;
        }
        if g == self.gen && idx < self.handles_before_resume && !self.interrupts.is_empty() {
            self.used_after_unchanged += 1;
        }
    }

    fn live_iter(&self, it: u64) -> Option<usize> {
        let (g, idx) = Self::split(it);
        if g != self.gen {
            return None;
        }
        match self.iters.get(idx) {
            Some(Some(_)) => Some(idx),
            _ => None,
        }
    }

    fn unspec<T>(&mut self, why: &str) -> Result<T, Trap> {
        if self.unjudged.is_none() {
            self.unjudged = Some(why.to_string());
        }
        Err(trap("unjudged"))
    }

    pub fn call(&mut self, name: &str, args: &[V], mem: &mut [u8], energy: &mut u64) -> Result<Option<V>, Trap> {
        self.meter.begin(name, *energy);
        let r = self.call_inner(name, args, mem, energy);
        if r.is_err() {
            self.meter.recs.last_mut().unwrap().trapped = true;
        }
        r
    }

    fn recv_only(&self) -> Result<(), Trap> {
        if self.sh.init {
            Err(trap("receive-only function in init"))
        } else {
            Ok(())
        }
    }

    /// The chain's answer to the k-th interrupt, as the value pushed to the contract.
    fn respond(&mut self, int: IntM, energy: &mut u64) -> Result<Option<V>, Trap> {
        let k = self.interrupts.len();
        let logs = if int.clears_logs() { std::mem::take(&mut self.sh.logs) } else { vec![] };
        self.interrupts.push(IntRec { int, energy: *energy, logs, changed_called: self.changed_called, modified: self.modified, exact: !self.meter.inexact, rec_idx: self.meter.recs.len().saturating_sub(1) });
        let resp = if self.responses.is_empty() { Resp { kind: RespKind::Success { new_balance: self.sh.balance, data: None }, state_updated: false, reentrant: vec![], rolled_back: false, energy_used: 0 } } else { self.responses[k % self.responses.len()].clone() };
        if energy.saturating_add(resp.energy_used) > self.meter.budget {
            return Err(Trap::OutOfEnergy);
        }
        *energy += resp.energy_used;
        self.changed_called = false;
        self.modified = false;
        self.handles_before_resume = self.handles.len();
        let updated = resp.state_updated && matches!(resp.kind, RespKind::Success { .. });
        if updated {
            // everything handed out before is invalid now; the new generation owns nothing
            self.gen += 1;
            self.iters.clear();
            if !brk("stale") {
                self.handles.clear();
            }
            self.owned.clear();
            for (k, v) in &resp.reentrant {
                match v {
                    Some(v) => {
                        self.contents.insert(k.clone(), v.clone());
                        self.epoch.insert(k.clone(), self.next_epoch);
                        self.next_epoch += 1;
                        self.owned.insert(k.clone());
                    }
                    None => {
                        self.contents.remove(k);
                        self.epoch.remove(k);
                        self.owned.remove(k);
                    }
                }
            }
        }
        let code: u64 = match resp.kind {
            RespKind::Success { new_balance, data } => {
                self.sh.balance = new_balance;
                let tag: u64 = if updated && !brk("resp_code") { 1 << 23 } else { 0 };
                match data {
                    Some(d) => {
                        let len = self.params.len() as u64;
                        self.params.push(d);
                        (len | tag) << 40
                    }
                    None => tag << 40,
                }
            }
            RespKind::Reject { code, data } => {
                let len = self.params.len() as u64;
                self.params.push(data);
                (len << 40) | (code as u32 as u64)
            }
            RespKind::Fail(n) => (n as u64) << 32,
        };
        Ok(Some(V::I64(code as i64)))
    }

    fn call_inner(&mut self, name: &str, args: &[V], mem: &mut [u8], energy: &mut u64) -> Result<Option<V>, Trap> {
        if let Some(r) = self.sh.call(&mut self.meter, name, args, mem, energy) {
            return r;
        }
        match name {
            "write_output" => {
                let m = &mut self.meter;
                let (start, length, offset) = (a32(args, 0), a32(args, 1), a32(args, 2));
                m.note_len(length as u64);
                m.tick(energy, write_output_cost(length))?;
                let r = range(m, mem, start, length as u64)?;
                if offset as usize > self.rv.len() {
                    return Err(trap("write_output past the end of the return value"));
                }
                let mut end = offset as usize + length as usize;
                if self.limit_rv && !brk("limit_rv") {
                    end = end.min(MAX_CONTRACT_STATE);
                }
                if self.rv.len() < end {
                    m.tick(energy, additional_output_size_cost((end - self.rv.len()) as u64))?;
                    self.rv.resize(end, 0);
                }
                let n = (end - offset as usize).min(length as usize);
                self.rv[offset as usize..offset as usize + n].copy_from_slice(&mem[r.start..r.start + n]);
                Ok(Some(V::I32(n as i32)))
            }
            "get_parameter_size" => {
                let i = a32(args, 0) as usize;
                Ok(Some(V::I32(match self.params.get(i) {
                    Some(p) => p.len() as i32,
                    None => -1,
                })))
            }
            "get_parameter_section" => {
                let m = &mut self.meter;
                let (i, start, length, offset) = (a32(args, 0) as usize, a32(args, 1), a32(args, 2), a32(args, 3));
                m.note_len(length as u64);
                m.tick(energy, copy_parameter_cost(length))?;
                match self.params.get(i) {
                    None => Ok(Some(V::I32(-1))),
                    Some(p) => {
                        let r = range(m, mem, start, length as u64)?;
                        let end = (offset as u64 + length as u64).min(p.len() as u64);
                        if offset as u64 > end {
                            return Err(trap("reading parameter past its end"));
                        }
                        let src = &p[offset as usize..end as usize];
                        mem[r.start..r.start + src.len()].copy_from_slice(src);
                        Ok(Some(V::I32(src.len() as i32)))
                    }
                }
            }
            "get_receive_entrypoint_size" => {
                self.recv_only()?;
                Ok(Some(V::I32(ENTRYPOINT.len() as i32)))
            }
            "get_receive_entrypoint" => {
                self.recv_only()?;
                let r = range(&mut self.meter, mem, a32(args, 0), ENTRYPOINT.len() as u64)?;
                mem[r].copy_from_slice(ENTRYPOINT.as_bytes());
                Ok(None)
            }
            "invoke" => self.invoke(args, mem, energy),
            "upgrade" => {
                self.recv_only()?;
                let r = range(&mut self.meter, mem, a32(args, 0), 32)?;
                let mut module_ref = [0u8; 32];
                module_ref.copy_from_slice(&mem[r]);
                self.meter.tick(energy, INVOKE_BASE_COST)?;
                self.respond(IntM::Upgrade { module_ref }, energy)
            }
            "state_lookup_entry" => {
                let (start, len) = (a32(args, 0), a32(args, 1));
                self.meter.note_len(len as u64);
                self.meter.tick(energy, lookup_entry_cost(len))?;
                let r = range(&mut self.meter, mem, start, len as u64)?;
                let k = mem[r].to_vec();
                if self.contents.contains_key(&k) && !(brk("lookup_code") && k.len() == 3) {
                    Ok(Some(V::I64(self.new_handle(&k) as i64)))
                } else {
                    Ok(Some(V::I64(NONE as i64)))
                }
            }
            "state_create_entry" => {
                let (start, len) = (a32(args, 0), a32(args, 1));
                self.meter.note_len(len as u64);
                self.meter.tick(energy, create_entry_cost(len))?;
                let r = range(&mut self.meter, mem, start, len as u64)?;
                let k = mem[r].to_vec();
                self.changed_called = true;
                if self.locked_at_or_under(&k) {
                    return Ok(Some(V::I64(NONE as i64)));
                }
                self.modified = true;
                if self.contents.contains_key(&k) {
                    for h in self.handles.iter_mut() {
                        if h.key == k {
                            h.unspecified = true;
                        }
                    }
                } else {
                    self.epoch.insert(k.clone(), self.next_epoch);
                    self.next_epoch += 1;
                }
                self.contents.insert(k.clone(), vec![]);
                self.owned.insert(k.clone());
                Ok(Some(V::I64(self.new_handle(&k) as i64)))
            }
            "state_delete_entry" => {
                let (start, len) = (a32(args, 0), a32(args, 1));
                self.meter.note_len(len as u64);
                self.meter.tick(energy, delete_entry_cost(len))?;
                let r = range(&mut self.meter, mem, start, len as u64)?;
                let k = mem[r].to_vec();
                self.changed_called = !brk("changed_flag");
                let code = if self.contents.is_empty() {
                    1
                } else if self.locked_at_or_under(&k) {
                    0
                } else if self.contents.remove(&k).is_some() {
                    self.epoch.remove(&k);
                    self.owned.remove(&k);
                    self.modified = true;
                    2
                } else {
                    1
                };
                Ok(Some(V::I32(code)))
            }
            "state_delete_prefix" => {
                let (start, len) = (a32(args, 0), a32(args, 1));
                self.meter.note_len(len as u64);
                let r = range(&mut self.meter, mem, start, len as u64)?;
                let k = mem[r].to_vec();
                self.meter.tick(energy, delete_prefix_find_cost(len))?;
                self.changed_called = true;
                let code = if self.contents.is_empty() {
                    1
                } else if self.locked_related(&k) {
                    0
                } else {
                    let victims: Vec<Vec<u8>> = self.contents.keys().filter(|x| x.starts_with(&k)).cloned().collect();
                    for v in &victims {
                        self.contents.remove(v);
                        self.epoch.remove(v);
                        self.owned.remove(v);
                    }
                    if victims.is_empty() {
                        1
                    } else {
                        // D: the traversal part of the charge depends on the tree shape
                        self.meter.mark_inexact();
                        self.modified = true;
                        2
                    }
                };
                Ok(Some(V::I32(code)))
            }
            "state_iterate_prefix" => {
                let (start, len) = (a32(args, 0), a32(args, 1));
                self.meter.note_len(len as u64);
                let r = range(&mut self.meter, mem, start, len as u64)?;
                self.meter.tick(energy, new_iterator_cost(len))?;
                let k = mem[r].to_vec();
                let snap: Vec<Vec<u8>> = self.contents.keys().filter(|x| x.starts_with(&k)).cloned().collect();
                if snap.is_empty() {
                    Ok(Some(V::I64(NONE as i64)))
                } else {
                    let idx = self.iters.len();
                    self.iters.push(Some(IterM { prefix: k, snapshot: snap, pos: 0, started: false }));
                    Ok(Some(V::I64((((self.gen as u64) << 32) | idx as u64) as i64)))
                }
            }
            "state_iterator_next" => {
                let it = a64(args, 0);
                self.meter.tick(energy, ITERATOR_NEXT_COST)?;
                self.note_handle_use(it);
                match self.live_iter(it) {
                    None => Ok(Some(V::I64(ERR as i64))),
                    Some(idx) => {
                        // D: traversal charge depends on the tree shape
                        self.meter.mark_inexact();
                        let im = self.iters[idx].as_mut().unwrap();
                        im.started = true;
                        if im.pos >= im.snapshot.len() {
                            im.pos = im.snapshot.len() + 1;
                            Ok(Some(V::I64(NONE as i64)))
                        } else {
                            let key = im.snapshot[im.pos].clone();
                            im.pos += 1;
                            if !self.contents.contains_key(&key) {
                                return self.unspec("model inconsistency: a locked snapshot key vanished");
                            }
                            Ok(Some(V::I64(self.new_handle(&key) as i64)))
                        }
                    }
                }
            }
            "state_iterator_delete" => {
                let it = a64(args, 0);
                self.meter.tick(energy, DELETE_ITERATOR_BASE_COST)?;
                self.note_handle_use(it);
                let (g, idx) = Self::split(it);
                if g != self.gen {
                    return Ok(Some(V::I32(-1)));
                }
                match self.iters.get(idx) {
                    None => Ok(Some(V::I32(-1))),
                    Some(None) => Ok(Some(V::I32(0))),
                    Some(Some(im)) => {
                        // charged by the length of the key the iterator currently reports
                        let klen = if !im.started {
                            Some(im.prefix.len())
                        } else if im.pos >= 1 && im.pos <= im.snapshot.len() {
                            Some(im.snapshot[im.pos - 1].len())
                        } else {
                            None
                        };
                        match klen {
                            Some(l) => self.meter.tick(energy, delete_iterator_cost(l as u32))?,
                            None => {
                                // position after exhaustion is not documented: lower bound only
                                self.meter.tick(energy, delete_iterator_cost(0))?;
                                self.meter.mark_inexact();
                            }
                        }
                        self.iters[idx] = None;
                        Ok(Some(V::I32(1)))
                    }
                }
            }
            "state_iterator_key_size" => {
                let it = a64(args, 0);
                self.meter.tick(energy, ITERATOR_KEY_SIZE_COST)?;
                self.note_handle_use(it);
                match self.live_iter(it) {
                    None => Ok(Some(V::I32(-1))),
                    Some(idx) => {
                        let im = self.iters[idx].as_ref().unwrap();
                        if !im.started {
                            Ok(Some(V::I32(im.prefix.len() as i32)))
                        } else if im.pos >= 1 && im.pos <= im.snapshot.len() {
                            Ok(Some(V::I32(im.snapshot[im.pos - 1].len() as i32)))
                        } else {
                            self.unspec("iterator key after exhaustion is not documented")
                        }
                    }
                }
            }
            "state_iterator_key_read" => {
                let (it, start, length, offset) = (a64(args, 0), a32(args, 1), a32(args, 2), a32(args, 3));
                self.meter.note_len(length as u64);
                self.meter.tick(energy, copy_from_host_cost(length))?;
                let r = range(&mut self.meter, mem, start, length as u64)?;
                self.note_handle_use(it);
                match self.live_iter(it) {
                    None => Ok(Some(V::I32(-1))),
                    Some(idx) => {
                        let im = self.iters[idx].as_ref().unwrap();
                        let key: Vec<u8> = if !im.started {
                            im.prefix.clone()
                        } else if im.pos >= 1 && im.pos <= im.snapshot.len() {
                            im.snapshot[im.pos - 1].clone()
                        } else {
                            return self.unspec("iterator key after exhaustion is not documented");
                        };
                        if offset as usize > key.len() {
                            self.meter.edges.push(if offset == u32::MAX { "edge.v1.iterator_key_read.offset_u32max" } else { "edge.v1.iterator_key_read.offset_gt_size" });
                        }
                        let o = (offset as usize).min(key.len());
                        let n = (key.len() - o).min(length as usize);
                        mem[r.start..r.start + n].copy_from_slice(&key[o..o + n]);
                        Ok(Some(V::I32(n as i32)))
                    }
                }
            }
            "state_entry_read" => {
                let (h, start, length, offset) = (a64(args, 0), a32(args, 1), a32(args, 2), a32(args, 3));
                self.meter.note_len(length as u64);
                self.meter.tick(energy, read_entry_cost(length))?;
                let r = range(&mut self.meter, mem, start, length as u64)?;
                self.note_handle_use(h);
                match self.handle_valid(h) {
                    None => Ok(Some(V::I32(-1))),
                    Some(hm) if hm.unspecified => self.unspec("handle to an entry overwritten by create_entry"),
                    Some(hm) => {
                        let v = &self.contents[&hm.key];
                        if offset as usize > v.len() {
                            self.meter.edges.push(if offset == u32::MAX { "edge.v1.entry_read.offset_u32max" } else { "edge.v1.entry_read.offset_gt_size" });
                        }
                        let o = (offset as usize).min(v.len());
                        let n = (v.len() - o).min(length as usize);
                        mem[r.start..r.start + n].copy_from_slice(&v[o..o + n]);
                        Ok(Some(V::I32(n as i32)))
                    }
                }
            }
            "state_entry_write" => {
                let (h, start, length, offset) = (a64(args, 0), a32(args, 1), a32(args, 2), a32(args, 3));
                self.meter.note_len(length as u64);
                self.meter.tick(energy, write_entry_cost(length))?;
                let r = range(&mut self.meter, mem, start, length as u64)?;
                self.changed_called = true;
                self.note_handle_use(h);
                match self.handle_valid(h) {
                    None => Ok(Some(V::I32(-1))),
                    Some(hm) if hm.unspecified => self.unspec("handle to an entry overwritten by create_entry"),
                    Some(hm) => {
                        let cur = self.contents[&hm.key].len();
                        if !self.owned.contains(&hm.key) {
                            // the value is copied into the current generation before it is written
                            self.meter.note_copy_charge();
                            self.meter.tick(energy, additional_entry_size_cost(cur as u64))?;
                            self.owned.insert(hm.key.clone());
                        }
                        let off = offset as usize;
                        if off > cur {
                            self.meter.edges.push(if offset == u32::MAX { "edge.v1.entry_write.offset_u32max" } else { "edge.v1.entry_write.offset_gt_size" });
                            return Ok(Some(V::I32(0)));
                        }
                        let end = (off + length as usize).min(MAX_ENTRY_SIZE);
                        if cur < end {
                            self.meter.tick(energy, additional_entry_size_cost((end - cur) as u64))?;
                        }
                        let v = self.contents.get_mut(&hm.key).unwrap();
                        if v.len() < end {
                            v.resize(end, 0);
                        }
                        v[off..end].copy_from_slice(&mem[r.start..r.start + (end - off)]);
                        self.modified = true;
                        Ok(Some(V::I32((end - off) as i32)))
                    }
                }
            }
            "state_entry_size" => {
                let h = a64(args, 0);
                self.meter.tick(energy, ENTRY_SIZE_COST)?;
                self.note_handle_use(h);
                match self.handle_valid(h) {
                    None => Ok(Some(V::I32(-1))),
                    Some(hm) if hm.unspecified => self.unspec("handle to an entry overwritten by create_entry"),
                    Some(hm) => Ok(Some(V::I32(self.contents[&hm.key].len() as i32))),
                }
            }
            "state_entry_resize" => {
                let (h, new) = (a64(args, 0), a32(args, 1));
                self.meter.tick(energy, RESIZE_ENTRY_BASE_COST)?;
                self.meter.note_len(new as u64);
                self.changed_called = true;
                self.note_handle_use(h);
                if self.handle_known(h).is_none() {
                    return Ok(Some(V::I32(-1)));
                }
                if new as usize > MAX_ENTRY_SIZE {
                    return Ok(Some(V::I32(0)));
                }
                match self.handle_valid(h) {
                    None => Ok(Some(V::I32(-1))),
                    Some(hm) if hm.unspecified => self.unspec("handle to an entry overwritten by create_entry"),
                    Some(hm) => {
                        let cur = self.contents[&hm.key].len() as u64;
                        if !self.owned.contains(&hm.key) {
                            self.meter.note_copy_charge();
                            self.meter.tick(energy, additional_entry_size_cost(cur.min(new as u64)))?;
                            self.owned.insert(hm.key.clone());
                        }
                        if new as u64 > cur {
                            self.meter.tick(energy, additional_entry_size_cost(new as u64 - cur))?;
                        }
                        self.contents.get_mut(&hm.key).unwrap().resize(new as usize, 0);
                        self.modified = true;
                        Ok(Some(V::I32(1)))
                    }
                }
            }
            "verify_ed25519_signature" => {
                let (pk, sig, msg, msg_len) = (a32(args, 0), a32(args, 1), a32(args, 2), a32(args, 3));
                self.meter.note_len(msg_len as u64);
                let mr = range(&mut self.meter, mem, msg, msg_len as u64)?;
                let pr = range(&mut self.meter, mem, pk, 32)?;
                let sr = range(&mut self.meter, mem, sig, 64)?;
                self.meter.tick(energy, verify_ed25519_cost(msg_len))?;
                let mut pkb = [0u8; 32];
                pkb.copy_from_slice(&mem[pr]);
                let mut sgb = [0u8; 64];
                sgb.copy_from_slice(&mem[sr]);
                let ok = match ed25519_dalek::VerifyingKey::from_bytes(&pkb) {
                    Ok(vk) => {
                        use ed25519_dalek::Verifier;
                        vk.verify(&mem[mr], &ed25519_dalek::Signature::from_bytes(&sgb)).is_ok()
                    }
                    Err(_) => false,
                };
                Ok(Some(V::I32(ok as i32)))
            }
            "verify_ecdsa_secp256k1_signature" => {
                let (pk, sig, msg) = (a32(args, 0), a32(args, 1), a32(args, 2));
                range(&mut self.meter, mem, msg, 32)?;
                range(&mut self.meter, mem, pk, 33)?;
                range(&mut self.meter, mem, sig, 64)?;
                self.meter.tick(energy, VERIFY_ECDSA_SECP256K1_COST)?;
                // D: the secp256k1 crate of this sandbox is a shim whose verification always fails
                Ok(Some(V::I32(0)))
            }
            "hash_sha2_256" | "hash_sha3_256" | "hash_keccak_256" => {
                let (data, len, out) = (a32(args, 0), a32(args, 1), a32(args, 2));
                self.meter.note_len(len as u64);
                let dr = range(&mut self.meter, mem, data, len as u64)?;
                let or = range(&mut self.meter, mem, out, 32)?;
                let h: [u8; 32] = match name {
                    "hash_sha2_256" => {
                        self.meter.tick(energy, hash_sha2_256_cost(len))?;
                        sha2::Sha256::digest(&mem[dr]).into()
                    }
                    "hash_sha3_256" => {
                        self.meter.tick(energy, hash_sha3_256_cost(len))?;
                        sha3::Sha3_256::digest(&mem[dr]).into()
                    }
                    _ => {
                        self.meter.tick(energy, hash_keccak_256_cost(len))?;
                        sha3::Keccak256::digest(&mem[dr]).into()
                    }
                };
                mem[or].copy_from_slice(&h);
                Ok(None)
            }
            other => panic!("harness: v1 model has no function {}", other),
        }
    }

    fn invoke(&mut self, args: &[V], mem: &mut [u8], energy: &mut u64) -> Result<Option<V>, Trap> {
        self.recv_only()?;
        let (tag, start, length) = (a32(args, 0), a32(args, 1), a32(args, 2));
        self.meter.note_len(length as u64);
        self.meter.tick(energy, INVOKE_BASE_COST)?;
        let addr32 = |mem: &[u8], at: usize| {
            let mut a = [0u8; 32];
            a.copy_from_slice(&mem[at..at + 32]);
            a
        };
        let u64at = |mem: &[u8], at: usize| u64::from_le_bytes(mem[at..at + 8].try_into().unwrap());
        let int = match tag {
            0 => {
                if length != 40 {
                    return Err(trap("transfer payload must be 40 bytes"));
                }
                let r = range(&mut self.meter, mem, start, 40)?;
                IntM::Transfer { to: addr32(mem, r.start), amount: u64at(mem, r.start + 32).wrapping_add(brk("int_amount") as u64) }
            }
            1 => {
                let r = range(&mut self.meter, mem, start, length as u64)?;
                let p = &mem[r];
                // contract address, parameter (u16 length), entrypoint name (u16 length), amount; little endian
                if p.len() < 18 {
                    return Err(trap("call payload too short"));
                }
                let (index, subindex) = (u64at(p, 0), u64at(p, 8));
                let plen = u16::from_le_bytes([p[16], p[17]]) as usize;
                if plen > self.max_param {
                    return Err(trap("call parameter exceeds the maximum size"));
                }
                self.meter.tick(energy, copy_parameter_cost(plen as u32))?;
                let mut at = 18;
                if at + plen > p.len() {
                    return Err(trap("call payload too short"));
                }
                let parameter = p[at..at + plen].to_vec();
                at += plen;
                if at + 2 > p.len() {
                    return Err(trap("call payload too short"));
                }
                let nlen = u16::from_le_bytes([p[at], p[at + 1]]) as usize;
                at += 2;
                if at + nlen > p.len() {
                    return Err(trap("call payload too short"));
                }
                let nm = &p[at..at + nlen];
                if !valid_entrypoint_name(nm) {
                    return Err(trap("invalid entrypoint name"));
                }
                let name = String::from_utf8_lossy(nm).to_string();
                at += nlen;
                if at + 8 > p.len() {
                    return Err(trap("call payload too short"));
                }
                let amount = u64at(p, at);
                if at + 8 != p.len() {
                    // trailing bytes: the payload format does not say whether they are allowed
                    return self.unspec("invoke call payload with trailing bytes");
                }
                IntM::Call { index, subindex, parameter, name, amount }
            }
            2 if self.support_queries => {
                if length != 32 {
                    return Err(trap("payload must be 32 bytes"));
                }
                let r = range(&mut self.meter, mem, start, 32)?;
                IntM::QueryAccountBalance { address: addr32(mem, r.start) }
            }
            3 if self.support_queries => {
                if length != 16 {
                    return Err(trap("payload must be 16 bytes"));
                }
                let r = range(&mut self.meter, mem, start, 16)?;
                IntM::QueryContractBalance { index: u64at(mem, r.start), subindex: u64at(mem, r.start + 8) }
            }
            4 if self.support_queries => {
                if length != 0 {
                    return Err(trap("payload must be empty"));
                }
                IntM::QueryExchangeRates
            }
            5 if self.support_sig => {
                if length < 32 {
                    return Err(trap("payload must have at least 32 bytes"));
                }
                let r = range(&mut self.meter, mem, start, length as u64)?;
                self.meter.tick(energy, copy_to_host_cost(length))?;
                IntM::CheckAccountSignature { address: addr32(mem, r.start), payload: mem[r.start + 32..r.end].to_vec() }
            }
            6 if self.support_sig => {
                if length != 32 {
                    return Err(trap("payload must be 32 bytes"));
                }
                let r = range(&mut self.meter, mem, start, 32)?;
                IntM::QueryAccountKeys { address: addr32(mem, r.start) }
            }
            7 | 8 if self.support_inspect || (tag == 8 && brk("gate8") && self.support_queries) => {
                if length != 16 {
                    return Err(trap("payload must be 16 bytes"));
                }
                let r = range(&mut self.meter, mem, start, 16)?;
                let (index, subindex) = (u64at(mem, r.start), u64at(mem, r.start + 8));
                if tag == 7 {
                    IntM::QueryContractModuleReference { index, subindex }
                } else {
                    IntM::QueryContractName { index, subindex }
                }
            }
            _ => return Err(trap("unknown invoke tag")),
        };
        self.respond(int, energy)
    }
}
