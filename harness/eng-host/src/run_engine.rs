//! Driving the real engine: instantiate with metering as the chain does, run
//! through v0::invoke_init/invoke_receive and v1::invoke_init/invoke_receive/
//! resume_receive; for v1 interrupts the harness plays the chain.
use crate::{
    model_v0::ActionM,
    model_v1::IntM,
    script::*,
};
use concordium_contracts_common::{AccountAddress, Address, Amount, ChainMetadata, ContractAddress, OwnedEntrypointName, Parameter, ReceiveName, Timestamp};
use concordium_smart_contract_engine::{
    v0,
    v1::{
        self,
        trie::{EmptyCollector, Loadable, Loader, MutableState, PersistentState},
        InstanceState, InvokeFailure, InvokeResponse, ReceiveParams,
    },
    InterpreterEnergy,
};
use concordium_wasm::{
    artifact::{Artifact, CompiledFunction},
    utils::instantiate_with_metering,
    validate::ValidationConfig,
    CostConfigurationV0, CostConfigurationV1,
};
use std::sync::Arc;
use vmon_core::alloc::AllocStats;

#[derive(Clone, Debug, PartialEq, Eq)]
pub enum Outcome {
    Success,
    Reject(i32),
    Trap,
    OutOfEnergy,
}

#[derive(Clone, Debug, PartialEq, Eq)]
pub struct EngInt {
    pub int: IntM,
    pub remaining: u64,
    pub logs: Vec<Vec<u8>>,
    pub state_changed: bool,
}

#[derive(Clone, Debug, PartialEq, Eq)]
pub struct EngOut {
    pub outcome: Outcome,
    pub trap_msg: String,
    pub remaining: Option<u64>,
    pub logs: Vec<Vec<u8>>,
    pub v0_state: Option<Vec<u8>>,
    pub actions: Vec<ActionM>,
    pub return_value: Option<Vec<u8>>,
    pub v1_state: Option<Vec<(Vec<u8>, Vec<u8>)>>,
    pub state_changed: Option<bool>,
    pub interrupts: Vec<EngInt>,
}

impl EngOut {
    fn new(outcome: Outcome) -> Self { EngOut { outcome, trap_msg: String::new(), remaining: None, logs: vec![], v0_state: None, actions: vec![], return_value: None, v1_state: None, state_changed: None, interrupts: vec![] } }
}

pub enum Art {
    V0(Artifact<v0::ProcessedImports, CompiledFunction>),
    V1(Arc<Artifact<v1::ProcessedImports, CompiledFunction>>),
}

pub fn validation_config(proto: u8) -> ValidationConfig {
    if proto >= 6 {
        ValidationConfig::V1
    } else {
        ValidationConfig::V0
    }
}

pub fn receive_params(proto: u8) -> ReceiveParams {
    match proto {
        4 => ReceiveParams::new_p4(),
        5 => ReceiveParams::new_p5(),
        6 => ReceiveParams::new_p6(),
        _ => ReceiveParams::new_p7(),
    }
}

/// Validate, inject metering and compile, with the import allow-list of the protocol.
pub fn instantiate(s: &Script, bytes: &[u8]) -> Result<Art, String> {
    let r = vmon_core::catch(|| -> anyhow::Result<Art> {
        if s.kind.v1() {
            let imp = v1::ConcordiumAllowedImports { support_upgrade: s.proto >= 5, enable_debug: false };
            let vc = validation_config(s.proto);
            let a = if s.cost_v1 { instantiate_with_metering::<v1::ProcessedImports>(vc, CostConfigurationV1, &imp, bytes)? } else { instantiate_with_metering::<v1::ProcessedImports>(vc, CostConfigurationV0, &imp, bytes)? };
            Ok(Art::V1(Arc::new(a.artifact)))
        } else {
            let imp = v0::ConcordiumAllowedImports;
            let a = if s.cost_v1 { instantiate_with_metering::<v0::ProcessedImports>(ValidationConfig::V0, CostConfigurationV1, &imp, bytes)? } else { instantiate_with_metering::<v0::ProcessedImports>(ValidationConfig::V0, CostConfigurationV0, &imp, bytes)? };
            Ok(Art::V0(a.artifact))
        }
    });
    match r {
        Err(p) => Err(format!("panic: {}", p)),
        Ok(Err(e)) => Err(format!("{:#}", e)),
        Ok(Ok(a)) => Ok(a),
    }
}

fn logs_of(l: &v0::Logs) -> Vec<Vec<u8>> { l.iterate().cloned().collect() }

fn action_of(a: &v0::Action) -> ActionM {
    match a {
        v0::Action::Send { data } => ActionM::Send { index: data.to_addr.index, subindex: data.to_addr.subindex, name: data.name.as_receive_name().get_chain_name().to_string(), amount: data.amount.micro_ccd, parameter: data.parameter.as_ref().to_vec() },
        v0::Action::SimpleTransfer { data } => ActionM::SimpleTransfer { to: data.to_addr.0, amount: data.amount.micro_ccd },
        v0::Action::And { l, r } => ActionM::And(*l, *r),
        v0::Action::Or { l, r } => ActionM::Or(*l, *r),
        v0::Action::Accept => ActionM::Accept,
    }
}

fn int_of(i: &v1::Interrupt) -> IntM {
    let mr = |m: &concordium_contracts_common::ModuleReference| -> [u8; 32] {
        let mut b = [0u8; 32];
        b.copy_from_slice(m.as_ref());
        b
    };
    match i {
        v1::Interrupt::Transfer { to, amount } => IntM::Transfer { to: to.0, amount: amount.micro_ccd },
        v1::Interrupt::Call { address, parameter, name, amount } => IntM::Call { index: address.index, subindex: address.subindex, parameter: parameter.clone(), name: String::from(name.clone()), amount: amount.micro_ccd },
        v1::Interrupt::Upgrade { module_ref } => IntM::Upgrade { module_ref: mr(module_ref) },
        v1::Interrupt::QueryAccountBalance { address } => IntM::QueryAccountBalance { address: address.0 },
        v1::Interrupt::QueryContractBalance { address } => IntM::QueryContractBalance { index: address.index, subindex: address.subindex },
        v1::Interrupt::QueryExchangeRates => IntM::QueryExchangeRates,
        v1::Interrupt::CheckAccountSignature { address, payload } => IntM::CheckAccountSignature { address: address.0, payload: payload.clone() },
        v1::Interrupt::QueryAccountKeys { address } => IntM::QueryAccountKeys { address: address.0 },
        v1::Interrupt::QueryContractModuleReference { address } => IntM::QueryContractModuleReference { index: address.index, subindex: address.subindex },
        v1::Interrupt::QueryContractName { address } => IntM::QueryContractName { index: address.index, subindex: address.subindex },
    }
}

fn sender(s: &Script) -> Address {
    if s.sender_contract {
        Address::Contract(ContractAddress { index: SENDER_CONTRACT.0, subindex: SENDER_CONTRACT.1 })
    } else {
        Address::Account(AccountAddress(SENDER_ACC))
    }
}

fn v0_receive_ctx(s: &Script) -> v0::ReceiveContext<Vec<u8>> {
    v0::ReceiveContext {
        metadata: ChainMetadata { slot_time: Timestamp::from_timestamp_millis(s.slot_time) },
        invoker: AccountAddress(INVOKER),
        self_address: ContractAddress { index: SELF_ADDR.0, subindex: SELF_ADDR.1 },
        self_balance: Amount::from_micro_ccd(s.balance),
        sender: sender(s),
        owner: AccountAddress(OWNER),
        sender_policies: s.policy.clone(),
    }
}

fn init_ctx(s: &Script) -> v0::InitContext<Vec<u8>> { v0::InitContext { metadata: ChainMetadata { slot_time: Timestamp::from_timestamp_millis(s.slot_time) }, init_origin: AccountAddress(INIT_ORIGIN), sender_policies: s.policy.clone() } }

type L = Loader<Vec<u8>>;

fn read_state(st: &mut MutableState, loader: &mut L) -> Vec<(Vec<u8>, Vec<u8>)> {
    let p = st.freeze(loader, &mut EmptyCollector);
    p.into_iterator(loader).collect()
}

fn failure_of(n: u8) -> InvokeFailure {
    match n {
        1 => InvokeFailure::InsufficientAmount,
        2 => InvokeFailure::NonExistentAccount,
        3 => InvokeFailure::NonExistentContract,
        4 => InvokeFailure::NonExistentEntrypoint,
        5 => InvokeFailure::SendingV0Failed,
        6 => InvokeFailure::RuntimeError,
        7 => InvokeFailure::UpgradeInvalidModuleRef,
        8 => InvokeFailure::UpgradeInvalidContractName,
        9 => InvokeFailure::UpgradeInvalidVersion,
        10 => InvokeFailure::SignatureDataMalformed,
        _ => InvokeFailure::SignatureCheckFailed,
    }
}

/// Run the script's module once with the given energy budget.
pub fn run(s: &Script, art: &Art, budget: u64) -> EngOut {
    let energy = InterpreterEnergy::new(budget);
    let limit = s.proto <= 4;
    match (s.kind, art) {
        (Kind::V0Init, Art::V0(a)) => {
            let r = v0::invoke_init(a, init_ctx(s), v0::InitInvocation { amount: s.amount, init_name: INIT_NAME, parameter: Parameter::new_unchecked(&s.param), energy }, limit);
            match r {
                Err(e) => {
                    let mut o = EngOut::new(Outcome::Trap);
                    o.trap_msg = format!("{:#}", e);
                    o
                }
                Ok(v0::InitResult::OutOfEnergy) => EngOut::new(Outcome::OutOfEnergy),
                Ok(v0::InitResult::Reject { reason, remaining_energy }) => {
                    let mut o = EngOut::new(Outcome::Reject(reason));
                    o.remaining = Some(remaining_energy.energy);
                    o
                }
                Ok(v0::InitResult::Success { state, logs, remaining_energy }) => {
                    let mut o = EngOut::new(Outcome::Success);
                    o.remaining = Some(remaining_energy.energy);
                    o.logs = logs_of(&logs);
                    o.v0_state = Some(state.state);
                    o
                }
            }
        }
        (Kind::V0Receive, Art::V0(a)) => {
            let max_param = if s.proto <= 4 { 1024 } else { 65535 };
            let r = v0::invoke_receive(a, v0_receive_ctx(s), v0::ReceiveInvocation { amount: s.amount, receive_name: RECV_NAME, parameter: Parameter::new_unchecked(&s.param), energy }, &s.v0_state, max_param, limit);
            match r {
                Err(e) => {
                    let mut o = EngOut::new(Outcome::Trap);
                    o.trap_msg = format!("{:#}", e);
                    o
                }
                Ok(v0::ReceiveResult::OutOfEnergy) => EngOut::new(Outcome::OutOfEnergy),
                Ok(v0::ReceiveResult::Reject { reason, remaining_energy }) => {
                    let mut o = EngOut::new(Outcome::Reject(reason));
                    o.remaining = Some(remaining_energy.energy);
                    o
                }
                Ok(v0::ReceiveResult::Success { state, logs, actions, remaining_energy }) => {
                    let mut o = EngOut::new(Outcome::Success);
                    o.remaining = Some(remaining_energy.energy);
                    o.logs = logs_of(&logs);
                    o.v0_state = Some(state.state);
                    o.actions = actions.iter().map(action_of).collect();
                    o
                }
            }
        }
        (Kind::V1Init, Art::V1(a)) => {
            let loader: L = Loader::new(vec![]);
            let r = v1::invoke_init::<_, _, ()>(&**a, init_ctx(s), v1::InitInvocation { amount: Amount::from_micro_ccd(s.amount), init_name: INIT_NAME, parameter: &s.param, energy }, limit, loader);
            match r {
                Err(e) => {
                    let mut o = EngOut::new(Outcome::Trap);
                    o.trap_msg = format!("{}", e);
                    o
                }
                Ok(v1::InitResult::OutOfEnergy { .. }) => EngOut::new(Outcome::OutOfEnergy),
                Ok(v1::InitResult::Trap { error, remaining_energy, .. }) => {
                    let mut o = EngOut::new(Outcome::Trap);
                    o.trap_msg = format!("{:#}", error);
                    o.remaining = Some(remaining_energy.energy);
                    o
                }
                Ok(v1::InitResult::Reject { reason, return_value, remaining_energy, .. }) => {
                    let mut o = EngOut::new(Outcome::Reject(reason));
                    o.remaining = Some(remaining_energy.energy);
                    o.return_value = Some(return_value);
                    o
                }
                Ok(v1::InitResult::Success { logs, return_value, remaining_energy, mut state, .. }) => {
                    let mut o = EngOut::new(Outcome::Success);
                    o.remaining = Some(remaining_energy.energy);
                    o.return_value = Some(return_value);
                    o.logs = logs_of(&logs);
                    let mut l: L = Loader::new(vec![]);
                    o.v1_state = Some(read_state(&mut state, &mut l));
                    o
                }
            }
        }
        (Kind::V1Receive, Art::V1(a)) => run_v1_receive(s, a, budget),
        _ => {
            let mut o = EngOut::new(Outcome::Trap);
            o.trap_msg = "harness: artifact kind mismatch".into();
            o
        }
    }
}

fn run_v1_receive(s: &Script, a: &Arc<Artifact<v1::ProcessedImports, CompiledFunction>>, budget: u64) -> EngOut {
    // initial state, optionally through a backing store
    let mut store: Vec<u8> = vec![];
    let mut p = PersistentState::from_iterator(s.v1_state.iter().map(|(k, v)| (&k[..], v.clone())));
    if s.on_disk {
        if let Ok(reference) = p.store_update(&mut store) {
            let mut l = Loader::new(store.clone());
            if let Ok(q) = PersistentState::load_from_location(&mut l, reference) {
                p = q;
            }
        }
    }
    let loader: L = Loader::new(store);
    let mut st: MutableState = p.thaw();
    let ctx = v1::ReceiveContext { common: v0_receive_ctx(s), entrypoint: OwnedEntrypointName::new_unchecked(ENTRYPOINT.to_string()) };
    let mut interrupts: Vec<EngInt> = vec![];
    let mut r: Result<v1::ReceiveResult<CompiledFunction, (), v1::ReceiveContext<Vec<u8>>>, String> = {
        let mut l2 = loader.clone();
        let inner = st.get_inner(&mut l2);
        let is = InstanceState::new(loader.clone(), inner);
        v1::invoke_receive::<_, _, _, _, _, v1::ReceiveContext<Vec<u8>>, ()>(
            Arc::clone(a),
            ctx,
            v1::ReceiveInvocation { amount: Amount::from_micro_ccd(s.amount), receive_name: ReceiveName::new_unchecked(RECV_NAME), parameter: &s.param, energy: InterpreterEnergy::new(budget) },
            is,
            receive_params(s.proto),
        )
        .map_err(|e| format!("{}", e))
    };
    loop {
        match r {
            Err(e) => {
                let mut o = EngOut::new(Outcome::Trap);
                o.trap_msg = e;
                o.interrupts = interrupts;
                return o;
            }
            Ok(v1::ReceiveResult::OutOfEnergy { .. }) => {
                let mut o = EngOut::new(Outcome::OutOfEnergy);
                o.interrupts = interrupts;
                return o;
            }
            Ok(v1::ReceiveResult::Trap { error, remaining_energy, .. }) => {
                let mut o = EngOut::new(Outcome::Trap);
                o.trap_msg = format!("{:#}", error);
                o.remaining = Some(remaining_energy.energy);
                o.interrupts = interrupts;
                return o;
            }
            Ok(v1::ReceiveResult::Reject { reason, return_value, remaining_energy, .. }) => {
                let mut o = EngOut::new(Outcome::Reject(reason));
                o.remaining = Some(remaining_energy.energy);
                o.return_value = Some(return_value);
                o.interrupts = interrupts;
                return o;
            }
            Ok(v1::ReceiveResult::Success { logs, state_changed, return_value, remaining_energy, .. }) => {
                let mut o = EngOut::new(Outcome::Success);
                o.remaining = Some(remaining_energy.energy);
                o.return_value = Some(return_value);
                o.logs = logs_of(&logs);
                o.state_changed = Some(state_changed);
                let mut l = loader.clone();
                o.v1_state = Some(read_state(&mut st, &mut l));
                o.interrupts = interrupts;
                return o;
            }
            Ok(v1::ReceiveResult::Interrupt { remaining_energy, state_changed, logs, config, interrupt, .. }) => {
                let k = interrupts.len();
                interrupts.push(EngInt { int: int_of(&interrupt), remaining: remaining_energy.energy, logs: logs_of(&logs), state_changed });
                let resp = if s.responses.is_empty() { Resp { kind: RespKind::Success { new_balance: s.balance, data: None }, state_updated: false, reentrant: vec![], rolled_back: false, energy_used: 0 } } else { s.responses[k % s.responses.len()].clone() };
                if remaining_energy.energy < resp.energy_used {
                    // the chain runs out of energy while handling the operation
                    let mut o = EngOut::new(Outcome::OutOfEnergy);
                    o.interrupts = interrupts;
                    return o;
                }
                let energy = InterpreterEnergy::new(remaining_energy.energy - resp.energy_used);
                let success = matches!(resp.kind, RespKind::Success { .. });
                let updated = resp.state_updated && success;
                if updated || resp.rolled_back {
                    let mut l3 = loader.clone();
                    let mut child = st.make_fresh_generation(&mut l3);
                    {
                        let ci = child.get_inner(&mut l3);
                        let mut t = ci.lock();
                        for (key, v) in &resp.reentrant {
                            match v {
                                Some(v) => {
                                    if t.insert(&mut l3, key, v.clone()).is_err() {
                                        let mut o = EngOut::new(Outcome::Trap);
                                        o.trap_msg = "harness: insert in a fresh generation was refused".into();
                                        o.interrupts = interrupts;
                                        return o;
                                    }
                                }
                                None => {
                                    if t.delete(&mut l3, key).is_err() {
                                        let mut o = EngOut::new(Outcome::Trap);
                                        o.trap_msg = "harness: delete in a fresh generation was refused".into();
                                        o.interrupts = interrupts;
                                        return o;
                                    }
                                }
                            }
                        }
                    }
                    if updated {
                        st = child;
                    } else {
                        drop(child);
                    }
                }
                let response = match resp.kind {
                    RespKind::Success { new_balance, data } => InvokeResponse::Success { new_balance: Amount::from_micro_ccd(new_balance), data },
                    RespKind::Reject { code, data } => InvokeResponse::Failure { kind: InvokeFailure::ContractReject { code, data } },
                    RespKind::Fail(n) => InvokeResponse::Failure { kind: failure_of(n) },
                };
                r = v1::resume_receive::<_, ()>(config, response, energy, &mut st, updated, loader.clone()).map_err(|e| format!("{}", e));
            }
        }
    }
}

/// Run with panics caught and allocations measured.
pub fn run_measured(s: &Script, art: &Art, budget: u64) -> (Result<EngOut, String>, AllocStats) { vmon_core::alloc::measure(|| vmon_core::catch(|| run(s, art, budget))) }
