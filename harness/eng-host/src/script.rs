//! Scripts of host calls, the documented import tables, the script -> Wasm
//! compiler (harness AST of `wasmref`), rendering for witnesses, and the
//! shrinker.
use vmon_core::{json, Value as J};
use wasmref::ast::*;

#[derive(Clone, Copy, Debug, PartialEq, Eq, Hash)]
pub enum Kind {
    V0Init,
    V0Receive,
    V1Init,
    V1Receive,
}
impl Kind {
    pub fn v1(self) -> bool { matches!(self, Kind::V1Init | Kind::V1Receive) }

    pub fn init(self) -> bool { matches!(self, Kind::V0Init | Kind::V1Init) }

    pub fn name(self) -> &'static str {
        match self {
            Kind::V0Init => "v0.init",
            Kind::V0Receive => "v0.receive",
            Kind::V1Init => "v1.init",
            Kind::V1Receive => "v1.receive",
        }
    }
}

#[derive(Clone, Copy, Debug, PartialEq, Eq)]
pub enum Scope {
    Common,
    InitOnly,
    ReceiveOnly,
}

/// One row of the documented import table (`ConcordiumAllowedImports`).
#[derive(Clone, Copy, Debug)]
#[allow(dead_code)]
pub struct Sig {
    pub name: &'static str,
    pub params: &'static [Ty],
    pub result: Option<Ty>,
    pub scope: Scope,
}

use Scope::*;
use Ty::{I32, I64};

/// v0 imports, module "concordium" (v0/types.rs, `validate_import_function`).
pub const V0_SIGS: &[Sig] = &[
    Sig { name: "accept", params: &[], result: Some(I32), scope: ReceiveOnly },
    Sig { name: "simple_transfer", params: &[I32, I64], result: Some(I32), scope: ReceiveOnly },
    Sig { name: "send", params: &[I64, I64, I32, I32, I64, I32, I32], result: Some(I32), scope: ReceiveOnly },
    Sig { name: "combine_and", params: &[I32, I32], result: Some(I32), scope: ReceiveOnly },
    Sig { name: "combine_or", params: &[I32, I32], result: Some(I32), scope: ReceiveOnly },
    Sig { name: "get_parameter_size", params: &[], result: Some(I32), scope: Common },
    Sig { name: "get_parameter_section", params: &[I32, I32, I32], result: Some(I32), scope: Common },
    Sig { name: "get_policy_section", params: &[I32, I32, I32], result: Some(I32), scope: Common },
    Sig { name: "log_event", params: &[I32, I32], result: Some(I32), scope: Common },
    Sig { name: "load_state", params: &[I32, I32, I32], result: Some(I32), scope: Common },
    Sig { name: "write_state", params: &[I32, I32, I32], result: Some(I32), scope: Common },
    Sig { name: "resize_state", params: &[I32], result: Some(I32), scope: Common },
    Sig { name: "state_size", params: &[], result: Some(I32), scope: Common },
    Sig { name: "get_init_origin", params: &[I32], result: None, scope: InitOnly },
    Sig { name: "get_receive_invoker", params: &[I32], result: None, scope: ReceiveOnly },
    Sig { name: "get_receive_self_address", params: &[I32], result: None, scope: ReceiveOnly },
    Sig { name: "get_receive_self_balance", params: &[], result: Some(I64), scope: ReceiveOnly },
    Sig { name: "get_receive_sender", params: &[I32], result: None, scope: ReceiveOnly },
    Sig { name: "get_receive_owner", params: &[I32], result: None, scope: ReceiveOnly },
    Sig { name: "get_slot_time", params: &[], result: Some(I64), scope: Common },
];

/// v1 imports, module "concordium" (v1/types.rs, `validate_import_function`);
/// `upgrade` needs `support_upgrade`, `debug_print` needs `enable_debug` (never on chain).
pub const V1_SIGS: &[Sig] = &[
    Sig { name: "invoke", params: &[I32, I32, I32], result: Some(I64), scope: ReceiveOnly },
    Sig { name: "write_output", params: &[I32, I32, I32], result: Some(I32), scope: Common },
    Sig { name: "get_parameter_size", params: &[I32], result: Some(I32), scope: Common },
    Sig { name: "get_parameter_section", params: &[I32, I32, I32, I32], result: Some(I32), scope: Common },
    Sig { name: "get_policy_section", params: &[I32, I32, I32], result: Some(I32), scope: Common },
    Sig { name: "log_event", params: &[I32, I32], result: Some(I32), scope: Common },
    Sig { name: "get_init_origin", params: &[I32], result: None, scope: InitOnly },
    Sig { name: "get_receive_invoker", params: &[I32], result: None, scope: ReceiveOnly },
    Sig { name: "get_receive_self_address", params: &[I32], result: None, scope: ReceiveOnly },
    Sig { name: "get_receive_self_balance", params: &[], result: Some(I64), scope: ReceiveOnly },
    Sig { name: "get_receive_sender", params: &[I32], result: None, scope: ReceiveOnly },
    Sig { name: "get_receive_owner", params: &[I32], result: None, scope: ReceiveOnly },
    Sig { name: "get_receive_entrypoint_size", params: &[], result: Some(I32), scope: ReceiveOnly },
    Sig { name: "get_receive_entrypoint", params: &[I32], result: None, scope: ReceiveOnly },
    Sig { name: "get_slot_time", params: &[], result: Some(I64), scope: Common },
    Sig { name: "state_lookup_entry", params: &[I32, I32], result: Some(I64), scope: Common },
    Sig { name: "state_create_entry", params: &[I32, I32], result: Some(I64), scope: Common },
    Sig { name: "state_delete_entry", params: &[I32, I32], result: Some(I32), scope: Common },
    Sig { name: "state_delete_prefix", params: &[I32, I32], result: Some(I32), scope: Common },
    Sig { name: "state_iterate_prefix", params: &[I32, I32], result: Some(I64), scope: Common },
    Sig { name: "state_iterator_next", params: &[I64], result: Some(I64), scope: Common },
    Sig { name: "state_iterator_delete", params: &[I64], result: Some(I32), scope: Common },
    Sig { name: "state_iterator_key_size", params: &[I64], result: Some(I32), scope: Common },
    Sig { name: "state_iterator_key_read", params: &[I64, I32, I32, I32], result: Some(I32), scope: Common },
    Sig { name: "state_entry_read", params: &[I64, I32, I32, I32], result: Some(I32), scope: Common },
    Sig { name: "state_entry_write", params: &[I64, I32, I32, I32], result: Some(I32), scope: Common },
    Sig { name: "state_entry_size", params: &[I64], result: Some(I32), scope: Common },
    Sig { name: "state_entry_resize", params: &[I64, I32], result: Some(I32), scope: Common },
    Sig { name: "verify_ed25519_signature", params: &[I32, I32, I32, I32], result: Some(I32), scope: Common },
    Sig { name: "verify_ecdsa_secp256k1_signature", params: &[I32, I32, I32], result: Some(I32), scope: Common },
    Sig { name: "hash_sha2_256", params: &[I32, I32, I32], result: None, scope: Common },
    Sig { name: "hash_sha3_256", params: &[I32, I32, I32], result: None, scope: Common },
    Sig { name: "hash_keccak_256", params: &[I32, I32, I32], result: None, scope: Common },
    Sig { name: "upgrade", params: &[I32], result: Some(I64), scope: ReceiveOnly },
];

pub const DEBUG_PRINT: Sig = Sig { name: "debug_print", params: &[I32, I32, I32, I32, I32, I32], result: None, scope: Common };

pub fn sigs(v1: bool) -> &'static [Sig] {
    if v1 {
        V1_SIGS
    } else {
        V0_SIGS
    }
}

/// Pseudo call of the script language: the `memory.grow` instruction (operand = pages).
pub const GROW: &str = "memory.grow";
pub const GROW_SIG: Sig = Sig { name: GROW, params: &[I32], result: Some(I32), scope: Common };

pub fn sig(v1: bool, name: &str) -> &'static Sig {
    if name == GROW {
        return &GROW_SIG;
    }
    sig_host(v1, name)
}

fn sig_host(v1: bool, name: &str) -> &'static Sig { sigs(v1).iter().find(|s| s.name == name).unwrap_or_else(|| panic!("harness: unknown host function {}", name)) }

/// Argument of a host call.
#[derive(Clone, Debug, PartialEq, Eq)]
pub enum Arg {
    C32(u32),
    C64(u64),
    /// i32 loaded from result slot
    R32(usize),
    /// i64 loaded from result slot
    R64(usize),
    /// address of blob + delta
    Ptr(usize, i64),
    /// length of blob + delta
    Len(usize, i64),
    /// memory length + delta
    MemEnd(i64),
}

#[derive(Clone, Debug)]
pub struct Call {
    pub f: &'static str,
    pub args: Vec<Arg>,
    /// result slot (8 bytes at 8*slot); fixed at generation so that shrinking does not renumber
    pub slot: usize,
}

#[derive(Clone, Debug)]
pub struct Blob {
    pub bytes: Vec<u8>,
    /// placed flush with the end of linear memory instead of in the pool
    pub at_end: bool,
}

#[derive(Clone, Debug, PartialEq, Eq)]
pub enum Ret {
    Const(i32),
    /// v0 receive: call `accept` last and return its result
    Accept,
    /// return the i32 in a result slot
    Slot(usize),
}

#[derive(Clone, Copy, Debug, PartialEq, Eq)]
pub enum Dump {
    None,
    /// v1: write_output of the window; v0: log_event chunks of the window
    Out,
    /// v0: resize_state(0) + write_state of the window
    State,
}

#[derive(Clone, Debug, PartialEq, Eq)]
pub enum RespKind {
    Success { new_balance: u64, data: Option<Vec<u8>> },
    Reject { code: i32, data: Vec<u8> },
    /// InvokeFailure variants 1..=11 without payload, in declaration order
    Fail(u8),
}

/// How the harness (playing the chain) answers one interrupt.
#[derive(Clone, Debug, PartialEq, Eq)]
pub struct Resp {
    pub kind: RespKind,
    /// only meaningful for Success: the instance state was changed by re-entrancy
    pub state_updated: bool,
    /// changes made by the nested call: (key, Some(value)) insert / (key, None) delete
    pub reentrant: Vec<(Vec<u8>, Option<Vec<u8>>)>,
    /// the nested call changed the state and then failed: changes are made in a fresh
    /// generation which is dropped
    pub rolled_back: bool,
    /// interpreter energy the operation itself consumed on the chain side
    pub energy_used: u64,
}

/// Nest `d1` activations of a generated recursive helper, `invoke` (a transfer) at that depth, after
/// the resume nest `d2` activations further and optionally `invoke` again at depth `d1 + d2`; then
/// return all the way up. Results go to the result slots 254 and 255.
#[derive(Clone, Debug, PartialEq, Eq)]
pub struct Deep {
    pub d1: u32,
    pub d2: u32,
    pub second: bool,
    /// blob with the 40 byte transfer payload
    pub payload: usize,
}

impl Deep {
    /// number of the helper's invokes an execution reaches when at most `limit` nested activations
    /// are possible, and whether it runs into the limit
    pub fn reached(&self, limit: u32) -> (usize, bool) {
        if self.d1 > limit {
            (0, true)
        } else if self.d1 as u64 + self.d2 as u64 > limit as u64 {
            (1, true)
        } else {
            (1 + self.second as usize, false)
        }
    }
}

#[derive(Clone, Debug)]
pub struct Script {
    pub kind: Kind,
    /// protocol parameter set 4..=7
    pub proto: u8,
    /// metering schedule (CostConfigurationV1 when true)
    pub cost_v1: bool,
    pub pages_min: u32,
    /// how the declared maximum of the memory is chosen: None = the initial size (memory.grow of
    /// more than 0 pages fails), Some(None) = no declared maximum, Some(Some(k)) = initial + k pages
    /// (k may go past the chain limit of 512 pages)
    pub mem_max: Option<Option<u32>>,
    pub calls: Vec<Call>,
    pub blobs: Vec<Blob>,
    pub param: Vec<u8>,
    pub policy: Vec<u8>,
    pub v0_state: Vec<u8>,
    pub v1_state: Vec<(Vec<u8>, Vec<u8>)>,
    /// initial v1 state goes through a backing store first
    pub on_disk: bool,
    pub ret: Ret,
    pub dump: Dump,
    pub dump_len: u32,
    pub responses: Vec<Resp>,
    /// D nested activations of a generated recursive function before the calls
    pub recursion: Option<u32>,
    /// interrupts issued from nested functions, before the calls (v1 receive only)
    pub deep: Option<Deep>,
    pub amount: u64,
    pub balance: u64,
    pub slot_time: u64,
    /// sender is a contract (17 bytes serialised) instead of an account (33 bytes)
    pub sender_contract: bool,
    pub tag: &'static str,
}

pub const RES_BASE: u32 = 0;
pub const POOL_BASE: u32 = 2048;
pub const MAX_SLOTS: usize = 256;
pub const PAGE: u32 = 65536;

pub const INIT_NAME: &str = "init_c";
pub const RECV_NAME: &str = "c.recv";
pub const ENTRYPOINT: &str = "recv";

/// Fixed context values (both sides use them).
pub const INIT_ORIGIN: [u8; 32] = [0xa1; 32];
pub const INVOKER: [u8; 32] = [0xb2; 32];
pub const OWNER: [u8; 32] = [0xc3; 32];
pub const SENDER_ACC: [u8; 32] = [0xd4; 32];
pub const SELF_ADDR: (u64, u64) = (0x0102_0304_0506_0708, 0x1112_1314_1516_1718);
pub const SENDER_CONTRACT: (u64, u64) = (77, 0xffff_ffff_ffff_fff0);

pub struct Layout {
    pub pages: u32,
    pub mem_len: u32,
    pub blob_addr: Vec<u32>,
}

impl Script {
    pub fn layout(&self) -> Layout {
        let mut addr = vec![0u32; self.blobs.len()];
        let mut cur = POOL_BASE as u64;
        for (i, b) in self.blobs.iter().enumerate() {
            if !b.at_end {
                addr[i] = cur as u32;
                cur += (b.bytes.len() as u64 + 7) & !7;
            }
        }
        let end_len: u64 = self.blobs.iter().filter(|b| b.at_end).map(|b| b.bytes.len() as u64).sum();
        let need = cur + end_len;
        let pages = ((need + PAGE as u64 - 1) / PAGE as u64).max(self.pages_min as u64).max(1).min(32) as u32;
        let mem_len = pages * PAGE;
        let mut e = mem_len as u64;
        for (i, b) in self.blobs.iter().enumerate().rev() {
            if b.at_end {
                e -= b.bytes.len() as u64;
                addr[i] = e as u32;
            }
        }
        Layout { pages, mem_len, blob_addr: addr }
    }

    pub fn resolve(&self, l: &Layout, a: &Arg) -> Option<u64> {
        Some(match a {
            Arg::C32(x) => *x as u64,
            Arg::C64(x) => *x,
            Arg::Ptr(b, d) => (l.blob_addr.get(*b).copied().unwrap_or(0) as i64 + d) as u32 as u64,
            Arg::Len(b, d) => (self.blobs.get(*b).map(|x| x.bytes.len()).unwrap_or(0) as i64 + d) as u32 as u64,
            Arg::MemEnd(d) => (l.mem_len as i64 + d) as u32 as u64,
            Arg::R32(_) | Arg::R64(_) => return None,
        })
    }

    pub fn export_name(&self) -> &'static str {
        if self.kind.init() {
            INIT_NAME
        } else {
            RECV_NAME
        }
    }
}

pub struct Compiled {
    pub module: Module,
    pub layout: Layout,
    pub entry: u32,
}

fn intern(types: &mut Vec<FuncTy>, t: FuncTy) -> u32 {
    if let Some(i) = types.iter().position(|x| *x == t) {
        return i as u32;
    }
    types.push(t);
    (types.len() - 1) as u32
}

/// Compile a script into a straight-line module.
pub fn compile(s: &Script) -> Compiled {
    let v1 = s.kind.v1();
    let layout = s.layout();
    let mut types: Vec<FuncTy> = vec![];
    let mut imports: Vec<Import> = vec![];
    let mut names: Vec<&'static str> = vec![];
    let mut import_of = |name: &'static str, types: &mut Vec<FuncTy>, imports: &mut Vec<Import>| -> u32 {
        if let Some(i) = names.iter().position(|n| *n == name) {
            return i as u32;
        }
        let sg = sig(v1, name);
        let ty = intern(types, FuncTy { params: sg.params.to_vec(), result: sg.result });
        imports.push(Import { module: "concordium".into(), name: name.into(), ty });
        names.push(name);
        (names.len() - 1) as u32
    };
    // first pass: imports in order of first use (function indices must be known before bodies)
    for c in &s.calls {
        if c.f != GROW {
            import_of(c.f, &mut types, &mut imports);
        }
    }
    let win = s.dump_len.min(layout.mem_len);
    match s.dump {
        Dump::None => {}
        Dump::Out => {
            import_of(if v1 { "write_output" } else { "log_event" }, &mut types, &mut imports);
        }
        Dump::State => {
            import_of("resize_state", &mut types, &mut imports);
            import_of("write_state", &mut types, &mut imports);
        }
    }
    if s.ret == Ret::Accept {
        import_of("accept", &mut types, &mut imports);
    }
    if s.deep.is_some() {
        import_of("invoke", &mut types, &mut imports);
    }
    let nimp = imports.len() as u32;
    let entry_ty = intern(&mut types, FuncTy { params: vec![I64], result: Some(I32) });
    let entry = nimp;
    let rec_idx = nimp + 1;
    let deep_a = nimp + 1 + s.recursion.is_some() as u32;
    let deep_b = deep_a + 1;
    let mut body: Vec<Instr> = vec![];
    if let Some(d) = s.recursion {
        body.push(Instr::Const32(d.saturating_sub(1) as i32));
        body.push(Instr::Call(rec_idx));
    }
    if let Some(d) = &s.deep {
        body.push(Instr::Const32(d.d1.saturating_sub(1) as i32));
        body.push(Instr::Call(deep_a));
    }
    let slot_addr = |slot: usize| (RES_BASE as usize + 8 * (slot % MAX_SLOTS)) as i32;
    for c in &s.calls {
        let sg = sig(v1, c.f);
        let fidx = if c.f == GROW { u32::MAX } else { import_of(c.f, &mut types, &mut imports) };
        if sg.result.is_some() {
            body.push(Instr::Const32(slot_addr(c.slot)));
        }
        for (i, p) in sg.params.iter().enumerate() {
            let a = c.args.get(i).cloned().unwrap_or(Arg::C32(0));
            match (&a, p) {
                (Arg::R32(sl), I32) => {
                    body.push(Instr::Const32(slot_addr(*sl)));
                    body.push(Instr::Mem(0x28, 0, 0));
                }
                (Arg::R32(sl), I64) | (Arg::R64(sl), I64) => {
                    body.push(Instr::Const32(slot_addr(*sl)));
                    body.push(Instr::Mem(0x29, 0, 0));
                }
                (Arg::R64(sl), I32) => {
                    body.push(Instr::Const32(slot_addr(*sl)));
                    body.push(Instr::Mem(0x28, 0, 0));
                }
                (a, I32) => body.push(Instr::Const32(s.resolve(&layout, a).unwrap() as u32 as i32)),
                (a, I64) => body.push(Instr::Const64(s.resolve(&layout, a).unwrap() as i64)),
            }
        }
        body.push(if c.f == GROW { Instr::MemGrow } else { Instr::Call(fidx) });
        match sg.result {
            Some(I32) => body.push(Instr::Mem(0x36, 0, 0)),
            Some(I64) => body.push(Instr::Mem(0x37, 0, 0)),
            None => {}
        }
    }
    match s.dump {
        Dump::None => {}
        Dump::Out if v1 => {
            let f = import_of("write_output", &mut types, &mut imports);
            body.extend([Instr::Const32(0), Instr::Const32(win as i32), Instr::Const32(0), Instr::Call(f), Instr::Op(OP_DROP)]);
        }
        Dump::Out => {
            let f = import_of("log_event", &mut types, &mut imports);
            let mut at = 0u32;
            while at < win {
                let n = (win - at).min(512);
                body.extend([Instr::Const32(at as i32), Instr::Const32(n as i32), Instr::Call(f), Instr::Op(OP_DROP)]);
                at += n;
            }
        }
        Dump::State => {
            let r = import_of("resize_state", &mut types, &mut imports);
            let w = import_of("write_state", &mut types, &mut imports);
            body.extend([Instr::Const32(0), Instr::Call(r), Instr::Op(OP_DROP)]);
            body.extend([Instr::Const32(0), Instr::Const32(win as i32), Instr::Const32(0), Instr::Call(w), Instr::Op(OP_DROP)]);
        }
    }
    match &s.ret {
        Ret::Const(c) => body.push(Instr::Const32(*c)),
        Ret::Accept => {
            let f = import_of("accept", &mut types, &mut imports);
            body.push(Instr::Call(f));
        }
        Ret::Slot(sl) => {
            body.push(Instr::Const32(slot_addr(*sl)));
            body.push(Instr::Mem(0x28, 0, 0));
        }
    }
    debug_assert_eq!(imports.len() as u32, nimp);
    let mut funcs = vec![Func { ty: entry_ty, locals: vec![], body }];
    if s.recursion.is_some() {
        let rt = intern(&mut types, FuncTy { params: vec![I32], result: None });
        funcs.push(Func {
            ty: rt,
            locals: vec![],
            body: vec![
                Instr::LocalGet(0),
                Instr::Op(0x45),
                Instr::If(None, vec![Instr::Op(OP_RETURN)], None),
                Instr::LocalGet(0),
                Instr::Const32(1),
                Instr::Op(0x6b),
                Instr::Call(rec_idx),
            ],
        });
    }
    if let Some(d) = &s.deep {
        let rt = intern(&mut types, FuncTy { params: vec![I32], result: None });
        let inv = import_of("invoke", &mut types, &mut imports);
        let ptr = layout.blob_addr.get(d.payload).copied().unwrap_or(0) as i32;
        let invoke_to = |slot: usize| vec![Instr::Const32(slot_addr(slot)), Instr::Const32(0), Instr::Const32(ptr), Instr::Const32(40), Instr::Call(inv), Instr::Mem(0x37, 0, 0)];
        // A(n): at n == 0 invoke, then nest d2 further through B; otherwise A(n - 1)
        let mut bottom_a = invoke_to(MAX_SLOTS - 2);
        if d.d2 > 0 {
            bottom_a.push(Instr::Const32((d.d2 - 1) as i32));
            bottom_a.push(Instr::Call(deep_b));
        }
        bottom_a.push(Instr::Op(OP_RETURN));
        funcs.push(Func { ty: rt, locals: vec![], body: vec![Instr::LocalGet(0), Instr::Op(0x45), Instr::If(None, bottom_a, None), Instr::LocalGet(0), Instr::Const32(1), Instr::Op(0x6b), Instr::Call(deep_a)] });
        // B(n): at n == 0 optionally invoke again; otherwise B(n - 1)
        let mut bottom_b = if d.second { invoke_to(MAX_SLOTS - 1) } else { vec![] };
        bottom_b.push(Instr::Op(OP_RETURN));
        funcs.push(Func { ty: rt, locals: vec![], body: vec![Instr::LocalGet(0), Instr::Op(0x45), Instr::If(None, bottom_b, None), Instr::LocalGet(0), Instr::Const32(1), Instr::Op(0x6b), Instr::Call(deep_b)] });
    }
    debug_assert_eq!(imports.len() as u32, nimp);
    let mut data: Vec<(u32, Vec<u8>)> = vec![];
    for (i, b) in s.blobs.iter().enumerate() {
        if !b.bytes.is_empty() && b.bytes.iter().any(|x| *x != 0) {
            data.push((layout.blob_addr[i], b.bytes.clone()));
        }
    }
    let module = Module {
        types,
        imports,
        funcs,
        table: None,
        elems: vec![],
        memory: Some((layout.pages, match s.mem_max { None => Some(layout.pages), Some(None) => None, Some(Some(k)) => Some(layout.pages + k) })),
        data,
        globals: vec![],
        exports: vec![(s.export_name().to_string(), entry)],
    };
    Compiled { module, layout, entry }
}

fn show_arg(s: &Script, l: &Layout, a: &Arg) -> String {
    match a {
        Arg::C32(x) => {
            if *x > 0xffff {
                format!("{:#x}", x)
            } else {
                format!("{}", x)
            }
        }
        Arg::C64(x) => format!("{:#x}", x),
        Arg::R32(i) => format!("r{}", i),
        Arg::R64(i) => format!("R{}", i),
        Arg::Ptr(b, d) => format!("&b{}{}(={})", b, if *d != 0 { format!("{:+}", d) } else { String::new() }, s.resolve(l, a).unwrap_or(0)),
        Arg::Len(b, d) => format!("len(b{}){}(={})", b, if *d != 0 { format!("{:+}", d) } else { String::new() }, s.resolve(l, a).unwrap_or(0)),
        Arg::MemEnd(d) => format!("memlen{:+}(={})", d, s.resolve(l, a).unwrap_or(0)),
    }
}

pub fn show_call(s: &Script, l: &Layout, c: &Call) -> String {
    let sg = sig(s.kind.v1(), c.f);
    format!("{}{}({})", if sg.result.is_some() { format!("r{} = ", c.slot) } else { String::new() }, c.f, c.args.iter().map(|a| show_arg(s, l, a)).collect::<Vec<_>>().join(", "))
}

pub fn to_json(s: &Script) -> J {
    let l = s.layout();
    json!({
        "kind": s.kind.name(),
        "tag": s.tag,
        "protocol": format!("P{}", s.proto),
        "cost_schedule": if s.cost_v1 { "CostConfigurationV1" } else { "CostConfigurationV0" },
        "memory_pages": l.pages,
        "memory_max": match s.mem_max { None => "initial size".to_string(), Some(None) => "none declared (chain limit 512 pages)".to_string(), Some(Some(k)) => format!("{} pages", l.pages + k) },
        "calls": s.calls.iter().map(|c| show_call(s, &l, c)).collect::<Vec<_>>(),
        "blobs": s.blobs.iter().enumerate().map(|(i, b)| format!("b{} @{}{}: {}", i, l.blob_addr[i], if b.at_end { " (end of memory)" } else { "" }, vmon_core::hex_short(&b.bytes, 80))).collect::<Vec<_>>(),
        "parameter": vmon_core::hex_short(&s.param, 64),
        "policy": vmon_core::hex_short(&s.policy, 64),
        "v0_state": vmon_core::hex_short(&s.v0_state, 64),
        "v1_state": s.v1_state.iter().map(|(k, v)| format!("{} => {}", vmon_core::hex(k), vmon_core::hex_short(v, 40))).collect::<Vec<_>>(),
        "v1_state_on_disk": s.on_disk,
        "return": format!("{:?}", s.ret),
        "dump": format!("{:?} {} bytes", s.dump, s.dump_len),
        "responses": s.responses.iter().map(|r| format!("{:?}", r)).collect::<Vec<_>>(),
        "recursion_depth": s.recursion,
        "nested_interrupts": s.deep.as_ref().map(|d| format!("nest {} activations, invoke(transfer) there, nest {} further{}; total {}", d.d1, d.d2, if d.second { ", invoke again at the bottom" } else { "" }, d.d1 + d.d2)),
        "amount": s.amount, "self_balance": s.balance, "slot_time": s.slot_time, "sender_is_contract": s.sender_contract,
        "module_hex": vmon_core::hex_short(&compile(s).module.encode(), 1500),
    })
}

/// Identity of a script for signatures: hash of the encoded module and of the environment.
pub fn fingerprint(s: &Script) -> u64 {
    let m = compile(s).module.encode();
    let mut env: Vec<u8> = vec![];
    env.extend_from_slice(&s.param);
    env.push(0xfe);
    env.extend_from_slice(&s.policy);
    env.push(0xfe);
    env.extend_from_slice(&s.v0_state);
    for (k, v) in &s.v1_state {
        env.extend_from_slice(k);
        env.push(0xfd);
        env.extend_from_slice(v);
    }
    env.extend_from_slice(format!("{:?}{:?}{}{}{}{}{}", s.responses, s.kind, s.proto, s.cost_v1, s.amount, s.balance, s.sender_contract).as_bytes());
    vmon_core::mix(&[vmon_core::fnv(&m), vmon_core::fnv(&env)])
}

/// Drop calls (and other decoration) one at a time while `bad` persists.
pub fn shrink(s: &Script, mut bad: impl FnMut(&Script) -> bool, max_tries: usize) -> Script {
    let mut cur = s.clone();
    let mut tries = 0;
    loop {
        let mut progress = false;
        let mut i = cur.calls.len();
        while i > 0 {
            i -= 1;
            if tries >= max_tries {
                return cur;
            }
            let mut c = cur.clone();
            c.calls.remove(i);
            tries += 1;
            if bad(&c) {
                cur = c;
                progress = true;
            }
        }
        for step in 0..8 {
            if tries >= max_tries {
                return cur;
            }
            let mut c = cur.clone();
            match step {
                6 if c.deep.is_some() => c.deep = None,
                7 if c.deep.as_ref().map(|d| d.second).unwrap_or(false) => {
                    if let Some(d) = c.deep.as_mut() {
                        d.second = false;
                    }
                }
                0 if c.recursion.is_some() => c.recursion = None,
                1 if c.dump != Dump::None => c.dump = Dump::None,
                2 if !c.v1_state.is_empty() => c.v1_state.clear(),
                3 if !c.v0_state.is_empty() => c.v0_state.clear(),
                4 if c.responses.len() > 1 => {
                    c.responses.truncate(1);
                }
                5 if c.responses.iter().any(|r| !r.reentrant.is_empty()) => {
                    for r in c.responses.iter_mut() {
                        r.reentrant.clear();
                    }
                }
                _ => continue,
            }
            tries += 1;
            if bad(&c) {
                cur = c;
                progress = true;
            }
        }
        if !progress {
            return cur;
        }
    }
}
