//! C06: transaction and update authorisation is exactly the threshold policy.
//!
//! Oracle: an executable predicate over a harness-side model of the access
//! structure and the signature map (`policy`), with signature validity decided
//! by `ed25519_dalek` directly on the digest that the harness recomputes with
//! SHA-256 from its own serialisation of header and payload bytes. Energy,
//! payload size, sign hash and block-item hash of constructed transactions are
//! recomputed from the documented formulas (`transactions::cost::*`).
//!
//! D (deliberately not demanded):
//!  * The property text says "at least the account threshold of credentials
//!    each supply at least their own threshold". The library (like the node)
//!    additionally rejects when *any supplied* credential carries fewer
//!    signatures than its own threshold, even if enough other credentials are
//!    satisfied. The two readings differ only on such maps; those are generated
//!    (scenario `partial_extra*`), counted under `undemanded.*`, and not judged.
//!  * Which error / at which point verification fails.
//!  * V1 transactions whose header names a sponsor but carry no sponsor
//!    signature (the library checks only what is supplied) and V1 transactions
//!    with a sponsor signature but no sponsor in the header: not generated.
//!  * `ExactSizeTransactionSigner::num_keys` for `AccountKeys` with
//!    unsatisfiable thresholds (it sums thresholds, the signer signs with what
//!    exists): energy is only checked when the access structure is satisfiable.
//!  * The Rust library has no verifier for update instructions. For chain
//!    updates the signing side is checked (signatures produced by
//!    `update::update` are valid for the recomputed digest under exactly the
//!    signer's registered keys, `find_authorized_keys` /
//!    `construct_update_signer` follow their documented contract, payload size,
//!    serialisation layout and block-item hash).
//!  * A verifier panic where the predicate says *accept* is a false reject
//!    (violation); where it says reject it is counted
//!    (`note.verifier_panic.on_expected_reject`), no totality is demanded.
use crate::common::*;
use concordium_base::{
    base::{Energy, Nonce, UpdateKeyPair, UpdateKeysIndex, UpdateKeysThreshold, UpdatePublicKey, UpdateSequenceNumber},
    common::{
        from_bytes, to_bytes,
        types::{CredentialIndex, KeyIndex, KeyPair, Signature, TransactionSignature, TransactionSignaturesV1, TransactionTime},
    },
    contracts_common::{AccountAddress, AccountThreshold, Amount, ContractAddress, ModuleReference, OwnedContractName, OwnedParameter, OwnedReceiveName, SignatureThreshold, Timestamp},
    hashes::TransactionSignHash,
    id::types::{AccountKeys, CredentialData, CredentialPublicKeys, VerifyKey},
    transactions::{self, construct, AccountAccessStructure, AccountTransaction, AccountTransactionV1, BlockItem, EncodedPayload, Payload, TransactionHeader, TransactionHeaderV1},
    updates::{self, AccessStructure, AuthorizationsV0, AuthorizationsV1, UpdateInstruction, UpdatePayload},
};
use ed25519_dalek::{Signer, SigningKey, Verifier, VerifyingKey};
use std::collections::{BTreeMap, BTreeSet};
use vmon_core::{json, ChildCtx, Rng, Shard, Value};

type SigMap = BTreeMap<u8, BTreeMap<u8, Vec<u8>>>;

struct Cred {
    thr:  u8,
    keys: BTreeMap<u8, SigningKey>,
}

struct Acct {
    thr:   u8,
    creds: BTreeMap<u8, Cred>,
}

/// Public view: what a verifier sees. The predicate is defined on this.
#[derive(Clone)]
struct PubAcct {
    thr:   u8,
    creds: BTreeMap<u8, (u8, BTreeMap<u8, VerifyingKey>)>,
}

const SPARSE: [u8; 8] = [0, 1, 2, 127, 128, 253, 254, 255];

fn pick_indices(r: &mut Rng, n: usize) -> Vec<u8> {
    let mut s = BTreeSet::new();
    while s.len() < n {
        let v = if r.chance(3, 4) { *r.pick(&SPARSE) } else { r.next() as u8 };
        s.insert(v);
    }
    s.into_iter().collect()
}

fn gen_key(r: &mut Rng) -> SigningKey {
    let mut b = [0u8; 32];
    r.fill(&mut b);
    SigningKey::from_bytes(&b)
}

fn gen_threshold(r: &mut Rng, n: usize) -> u8 {
    match r.below(10) {
        0 => (n + 1) as u8, // unsatisfiable
        1 => 1,
        2 => n as u8,
        _ => r.range(1, n as u64) as u8,
    }
}

impl Acct {
    fn gen(r: &mut Rng) -> Acct {
        let nc = r.range(1, 5) as usize;
        let mut creds = BTreeMap::new();
        for ci in pick_indices(r, nc) {
            let nk = r.range(1, 5) as usize;
            let mut keys = BTreeMap::new();
            for ki in pick_indices(r, nk) {
                keys.insert(ki, gen_key(r));
            }
            creds.insert(ci, Cred { thr: gen_threshold(r, nk), keys });
        }
        Acct { thr: gen_threshold(r, nc), creds }
    }

    fn satisfiable(&self) -> bool { self.creds.values().filter(|c| c.thr as usize <= c.keys.len()).count() >= self.thr as usize }

    fn public(&self) -> PubAcct {
        PubAcct { thr: self.thr, creds: self.creds.iter().map(|(ci, c)| (*ci, (c.thr, c.keys.iter().map(|(ki, k)| (*ki, k.verifying_key())).collect()))).collect() }
    }

    fn account_keys(&self) -> AccountKeys {
        AccountKeys {
            threshold: AccountThreshold::try_from(self.thr).unwrap(),
            keys:      self
                .creds
                .iter()
                .map(|(ci, c)| {
                    (CredentialIndex::from(*ci), CredentialData {
                        threshold: SignatureThreshold::try_from(c.thr).unwrap(),
                        keys:      c.keys.iter().map(|(ki, k)| (KeyIndex(*ki), KeyPair::from(k.clone()))).collect(),
                    })
                })
                .collect(),
        }
    }

    fn unused_cred(&self, r: &mut Rng) -> u8 {
        loop {
            let v = if r.chance(1, 2) { *r.pick(&SPARSE) } else { r.next() as u8 };
            if !self.creds.contains_key(&v) {
                return v;
            }
        }
    }
}

impl PubAcct {
    /// Built through the public constructor `AccountAccessStructure::new`.
    fn access(&self) -> AccountAccessStructure {
        let inner: Vec<(CredentialIndex, SignatureThreshold, Vec<(KeyIndex, VerifyingKey)>)> =
            self.creds.iter().map(|(ci, (t, ks))| (CredentialIndex::from(*ci), SignatureThreshold::try_from(*t).unwrap(), ks.iter().map(|(ki, k)| (KeyIndex(*ki), *k)).collect())).collect();
        let refs: Vec<(CredentialIndex, SignatureThreshold, &[(KeyIndex, VerifyingKey)])> = inner.iter().map(|(a, b, c)| (*a, *b, &c[..])).collect();
        AccountAccessStructure::new(AccountThreshold::try_from(self.thr).unwrap(), &refs)
    }

    fn to_json(&self) -> Value {
        json!({
            "account_threshold": self.thr,
            "credentials": self.creds.iter().map(|(ci, (t, ks))| json!({"index": ci, "threshold": t, "keys": ks.iter().map(|(ki, k)| json!({"index": ki, "key": hex(k.as_bytes())})).collect::<Vec<_>>()})).collect::<Vec<_>>(),
        })
    }
}

fn sig_valid(vk: &VerifyingKey, data: &[u8], sig: &[u8]) -> bool {
    match <[u8; 64]>::try_from(sig) {
        Ok(b) => vk.verify(data, &ed25519_dalek::Signature::from_bytes(&b)).is_ok(),
        Err(_) => false,
    }
}

/// THE ORACLE. Returns (literal, node): `literal` is the predicate of the
/// property text, `node` additionally requires every supplied credential to
/// meet its own threshold. node => literal. Where they agree that value is the
/// expected verdict; where they differ nothing is demanded (see D).
fn policy(p: &PubAcct, data: &[u8], sigs: &SigMap) -> (bool, bool) {
    let mut all_known_and_valid = true;
    let mut satisfied = 0usize;
    let mut all_supplied_meet_threshold = true;
    for (ci, cs) in sigs {
        match p.creds.get(ci) {
            None => all_known_and_valid = false,
            Some((t, keys)) => {
                for (ki, s) in cs {
                    match keys.get(ki) {
                        None => all_known_and_valid = false,
                        Some(vk) => all_known_and_valid &= sig_valid(vk, data, s),
                    }
                }
                if cs.len() >= *t as usize {
                    satisfied += 1
                } else {
                    all_supplied_meet_threshold = false
                }
            }
        }
    }
    let literal = satisfied >= p.thr as usize && all_known_and_valid;
    let node = literal && all_supplied_meet_threshold;
    // self-test switch for the violation path (never set in registered runs)
    if std::env::var_os("VMON_BREAK_C06").is_some() {
        let broken = satisfied > p.thr as usize && all_known_and_valid;
        return (broken, broken && all_supplied_meet_threshold);
    }
    (literal, node)
}

fn to_lib(sigs: &SigMap) -> BTreeMap<CredentialIndex, BTreeMap<KeyIndex, Signature>> {
    sigs.iter().map(|(ci, cs)| (CredentialIndex::from(*ci), cs.iter().map(|(ki, s)| (KeyIndex(*ki), Signature { sig: s.clone() })).collect())).collect()
}

fn sigs_json(s: &SigMap) -> Value { json!(s.iter().map(|(ci, cs)| json!({"credential": ci, "signatures": cs.iter().map(|(ki, s)| json!({"key": ki, "sig": hex(s)})).collect::<Vec<_>>()})).collect::<Vec<_>>()) }

fn subset(r: &mut Rng, xs: &[u8], n: usize) -> Vec<u8> {
    let mut v = xs.to_vec();
    r.shuffle(&mut v);
    v.truncate(n);
    v.sort();
    v
}

/// Sign `data` with the selected keys.
fn sign_sel(a: &Acct, data: &[u8], sel: &BTreeMap<u8, Vec<u8>>) -> SigMap { sel.iter().map(|(ci, ks)| (*ci, ks.iter().map(|ki| (*ki, a.creds[ci].keys[ki].sign(data).to_bytes().to_vec())).collect())).collect() }

fn sel_exact(r: &mut Rng, a: &Acct) -> BTreeMap<u8, Vec<u8>> {
    let cis: Vec<u8> = a.creds.keys().copied().collect();
    // prefer satisfiable credentials so that the exact selection is accepted when possible
    let mut good: Vec<u8> = cis.iter().copied().filter(|c| a.creds[c].thr as usize <= a.creds[c].keys.len()).collect();
    let mut bad: Vec<u8> = cis.iter().copied().filter(|c| !good.contains(c)).collect();
    r.shuffle(&mut good);
    r.shuffle(&mut bad);
    good.extend(bad);
    good.truncate((a.thr as usize).min(cis.len()));
    good.into_iter()
        .map(|ci| {
            let c = &a.creds[&ci];
            let ks: Vec<u8> = c.keys.keys().copied().collect();
            (ci, subset(r, &ks, (c.thr as usize).min(ks.len())))
        })
        .collect()
}

fn sel_all(a: &Acct) -> BTreeMap<u8, Vec<u8>> { a.creds.iter().map(|(ci, c)| (*ci, c.keys.keys().copied().collect())).collect() }

fn sel_above(r: &mut Rng, a: &Acct) -> BTreeMap<u8, Vec<u8>> {
    let mut s = sel_exact(r, a);
    for (ci, c) in &a.creds {
        if r.chance(1, 2) {
            let e = s.entry(*ci).or_default();
            let have: BTreeSet<u8> = e.iter().copied().collect();
            for ki in c.keys.keys() {
                if !have.contains(ki) && (e.len() < c.thr as usize || r.chance(1, 2)) {
                    e.push(*ki);
                }
            }
            e.sort();
        }
    }
    s
}

fn positions(s: &SigMap) -> Vec<(u8, u8)> { s.iter().flat_map(|(ci, cs)| cs.keys().map(move |ki| (*ci, *ki))).collect() }

fn corrupt_one(r: &mut Rng, a: &Acct, data: &[u8], s: &mut SigMap) -> Option<&'static str> {
    let pos = positions(s);
    if pos.is_empty() {
        return None;
    }
    let (ci, ki) = *r.pick(&pos);
    let slot = s.get_mut(&ci).unwrap().get_mut(&ki).unwrap();
    Some(match r.below(5) {
        0 => {
            let bit = r.below(512) as usize;
            flip(slot, bit);
            "bitflip"
        }
        1 => {
            *slot = r.bytes(64);
            "random"
        }
        2 => {
            *slot = gen_key(r).sign(data).to_bytes().to_vec();
            "foreign-key"
        }
        3 => {
            let mut d = data.to_vec();
            d.push(0);
            *slot = a.creds[&ci].keys[&ki].sign(&d).to_bytes().to_vec();
            "other-message"
        }
        _ => {
            *slot = vec![0u8; 64];
            "zero"
        }
    })
}

/// All signer-subset scenarios for one access structure and one message.
fn scenarios(r: &mut Rng, a: &Acct, data: &[u8]) -> Vec<(String, SigMap)> {
    let mut out: Vec<(String, SigMap)> = vec![];
    let exact = sel_exact(r, a);
    out.push(("exact".into(), sign_sel(a, data, &exact)));
    out.push(("all".into(), sign_sel(a, data, &sel_all(a))));
    out.push(("above".into(), sign_sel(a, data, &sel_above(r, a))));
    out.push(("none".into(), SigMap::new()));
    // one credential one signature below its threshold
    {
        let mut sel = exact.clone();
        let cis: Vec<u8> = sel.keys().copied().collect();
        let ci = *r.pick(&cis);
        let ks = sel.get_mut(&ci).unwrap();
        let drop_at = r.below(ks.len() as u64) as usize;
        ks.remove(drop_at);
        let empty = ks.is_empty();
        let mut m = sign_sel(a, data, &sel);
        if empty && r.chance(1, 2) {
            m.remove(&ci);
            out.push(("cred_below.omitted".into(), m));
        } else {
            out.push((if empty { "cred_below.empty_map" } else { "cred_below" }.into(), m));
        }
    }
    // one credential fewer than the account threshold
    {
        let mut sel = exact.clone();
        let cis: Vec<u8> = sel.keys().copied().collect();
        sel.remove(r.pick(&cis));
        out.push(("account_below".into(), sign_sel(a, data, &sel)));
    }
    // extra unknown credential
    {
        let mut m = if r.chance(1, 2) { sign_sel(a, data, &exact) } else { sign_sel(a, data, &sel_all(a)) };
        let ci = a.unused_cred(r);
        let k = gen_key(r);
        let mut inner = BTreeMap::new();
        inner.insert(*r.pick(&SPARSE), k.sign(data).to_bytes().to_vec());
        m.insert(ci, inner);
        out.push(("unknown_credential".into(), m));
    }
    // extra unknown key index inside a known credential
    {
        let base = if r.chance(1, 2) { exact.clone() } else { sel_all(a) };
        let mut m = sign_sel(a, data, &base);
        let cis: Vec<u8> = m.keys().copied().collect();
        let ci = *r.pick(&cis);
        let c = &a.creds[&ci];
        let ki = loop {
            let v = if r.chance(1, 2) { *r.pick(&SPARSE) } else { r.next() as u8 };
            if !c.keys.contains_key(&v) {
                break v;
            }
        };
        let signer = if r.chance(1, 2) { gen_key(r) } else { c.keys.values().next().unwrap().clone() };
        m.get_mut(&ci).unwrap().insert(ki, signer.sign(data).to_bytes().to_vec());
        out.push(("unknown_key".into(), m));
    }
    // one invalid signature among valid ones: at, above, below the threshold
    for (name, sel) in [("invalid_at", exact.clone()), ("invalid_above", sel_all(a)), ("invalid_above2", sel_above(r, a))] {
        let mut m = sign_sel(a, data, &sel);
        if let Some(how) = corrupt_one(r, a, data, &mut m) {
            out.push((format!("{}.{}", name, how), m));
        }
    }
    {
        let mut sel = exact.clone();
        let cis: Vec<u8> = sel.keys().copied().collect();
        let ci = *r.pick(&cis);
        if sel[&ci].len() > 1 {
            sel.get_mut(&ci).unwrap().pop();
            let mut m = sign_sel(a, data, &sel);
            if let Some(how) = corrupt_one(r, a, data, &mut m) {
                out.push((format!("invalid_below.{}", how), m));
            }
        }
    }
    // signatures swapped between two keys
    {
        let mut m = sign_sel(a, data, &sel_all(a));
        let pos = positions(&m);
        if pos.len() >= 2 {
            let i = r.below(pos.len() as u64) as usize;
            let mut j = r.below(pos.len() as u64 - 1) as usize;
            if j >= i {
                j += 1
            }
            let (p, q) = (pos[i], pos[j]);
            let sp = m[&p.0][&p.1].clone();
            let sq = m[&q.0][&q.1].clone();
            m.get_mut(&p.0).unwrap().insert(p.1, sq);
            m.get_mut(&q.0).unwrap().insert(q.1, sp);
            out.push(("swapped".into(), m));
        }
    }
    // everything signed over a different message
    {
        let mut d = data.to_vec();
        if d.is_empty() {
            d.push(1)
        } else {
            let bit = r.below(8 * d.len() as u64) as usize;
            flip(&mut d, bit);
        }
        out.push(("wrong_digest".into(), sign_sel(a, &d, &exact)));
    }
    // a signature of the wrong length
    {
        let mut m = sign_sel(a, data, &exact);
        let pos = positions(&m);
        if !pos.is_empty() {
            let (ci, ki) = *r.pick(&pos);
            let slot = m.get_mut(&ci).unwrap().get_mut(&ki).unwrap();
            match r.below(3) {
                0 => {
                    slot.pop();
                }
                1 => slot.push(0),
                _ => slot.clear(),
            }
            out.push(("bad_length".into(), m));
        }
    }
    // D: enough satisfied credentials plus one supplied credential below its own threshold
    {
        let unused: Vec<u8> = a.creds.keys().copied().filter(|c| !exact.contains_key(c)).collect();
        if !unused.is_empty() {
            let ci = *r.pick(&unused);
            let c = &a.creds[&ci];
            let ks: Vec<u8> = c.keys.keys().copied().collect();
            let n = r.below((c.thr as u64).min(ks.len() as u64 + 1)) as usize; // 0..thr-1
            let mut sel = exact.clone();
            sel.insert(ci, subset(r, &ks, n));
            out.push(("partial_extra".into(), sign_sel(a, data, &sel)));
        }
    }
    out
}

struct Judge<'a> {
    sh:        &'a mut Shard,
    idx:       u64,
    accepts:   u64,
    rejects:   u64,
    replaying: bool,
    /// identity of the case (hash of structure, data), for distinct counting
    case_hash: u64,
    /// one actual case for the evidence file
    sample:    Option<Value>,
}

impl Judge<'_> {
    /// Compare the verdicts of the library entry points with the predicate.
    fn verdicts(&mut self, family: &str, scen: &str, p: &PubAcct, data: &[u8], sigs: &SigMap, got: Vec<(&'static str, Result<bool, String>)>, extra: Value) {
        let (lit, node) = policy(p, data, sigs);
        let scen_class = scen.split('.').next().unwrap_or(scen);
        if lit != node {
            self.sh.hit("undemanded.partial_credential");
            for (_, g) in &got {
                if let Ok(b) = g {
                    self.sh.hit(if *b { "undemanded.partial_credential.library_accepts" } else { "undemanded.partial_credential.library_rejects" });
                }
            }
            return;
        }
        self.sh.hit(&format!("scenario.{}.{}", family, scen_class));
        self.sh.hit(if lit { "accept.expected" } else { "reject.expected" });
        if lit {
            self.accepts += 1
        } else {
            self.rejects += 1
        }
        if self.replaying {
            println!("  {} {} expected={} got={:?}", family, scen, lit, got);
        }
        for (entry, g) in got {
            self.sh.evaluations += 1;
            self.sh.hit(&format!("entry.{}", entry));
            match g {
                Ok(b) if b == lit => {}
                Ok(b) => {
                    let case = json!({"entry": entry, "family": family, "scenario": scen, "access_structure": p.to_json(), "signed_data": hex(data), "signatures": sigs_json(sigs), "predicate": lit, "library": b, "context": extra});
                    let sig = format!("c06:{}:{}:{:016x}", entry, if lit { "false-reject" } else { "false-accept" }, vmon_core::fnv(case.to_string().as_bytes()));
                    self.sh.violate(self.idx, if lit { "false-reject" } else { "false-accept" }, sig, format!("{} returned {} where the threshold predicate says {} (scenario {}, family {})", entry, b, lit, scen, family), case);
                }
                Err(pm) if lit => {
                    // the predicate promises acceptance; a panic is not an acceptance
                    let case = json!({"entry": entry, "family": family, "scenario": scen, "access_structure": p.to_json(), "signed_data": hex(data), "signatures": sigs_json(sigs), "predicate": lit, "library": format!("panic: {}", pm), "context": extra});
                    let sig = format!("c06:{}:false-reject-by-panic:{:016x}", entry, vmon_core::fnv(case.to_string().as_bytes()));
                    self.sh.violate(self.idx, "false-reject", sig, format!("{} panicked where the threshold predicate says accept (scenario {}, family {}): {}", entry, scen, family, pm), case);
                }
                Err(_) => self.sh.hit("note.verifier_panic.on_expected_reject"),
            }
        }
    }

    fn mismatch(&mut self, kind: &str, what: &str, detail: String, case: Value) {
        let sig = format!("c06:{}:{}:{:016x}", kind, what, vmon_core::fnv(case.to_string().as_bytes()));
        self.sh.violate(self.idx, kind, sig, detail, case);
    }
}

// ---------------------------------------------------------------- transactions

fn addr(r: &mut Rng) -> AccountAddress {
    let mut b = [0u8; 32];
    match r.below(6) {
        0 => {}
        1 => b = [0xff; 32],
        _ => r.fill(&mut b),
    }
    AccountAddress(b)
}

fn header_bytes(sender: &AccountAddress, nonce: u64, energy: u64, size: u32, expiry: u64) -> Vec<u8> {
    let mut v = Vec::with_capacity(60);
    v.extend_from_slice(&sender.0);
    v.extend_from_slice(&nonce.to_be_bytes());
    v.extend_from_slice(&energy.to_be_bytes());
    v.extend_from_slice(&size.to_be_bytes());
    v.extend_from_slice(&expiry.to_be_bytes());
    v
}

fn header_v1_bytes(h: &TransactionHeaderV1) -> Vec<u8> {
    let mut v = vec![];
    v.extend_from_slice(&(if h.sponsor.is_some() { 1u16 } else { 0u16 }).to_be_bytes());
    v.extend_from_slice(&header_bytes(&h.sender, h.nonce.nonce, h.energy_amount.energy, u32::from(h.payload_size), h.expiry.seconds));
    if let Some(s) = &h.sponsor {
        v.extend_from_slice(&s.0);
    }
    v
}

fn sigmap_bytes(s: &BTreeMap<CredentialIndex, BTreeMap<KeyIndex, Signature>>) -> Vec<u8> {
    let mut v = vec![s.len() as u8];
    for (ci, cs) in s {
        v.push(ci.index);
        v.push(cs.len() as u8);
        for (ki, sg) in cs {
            v.push(ki.0);
            v.extend_from_slice(&(sg.sig.len() as u16).to_be_bytes());
            v.extend_from_slice(&sg.sig);
        }
    }
    v
}

const V1_PREFIX: [u8; 32] = [0, 0, 0, 0, 0, 0, 0, 0, 0, 0, 0, 0, 0, 0, 0, 0, 0, 0, 0, 0, 0, 0, 0, 0, 0, 0, 0, 0, 0, 0, 0, 1];

fn memo(r: &mut Rng) -> transactions::Memo {
    let n = *r.pick(&[0usize, 1, 32, 255, 256]);
    transactions::Memo::try_from(r.bytes(n)).unwrap()
}

fn schedule(r: &mut Rng) -> Vec<(Timestamp, Amount)> {
    let n = *r.pick(&[1usize, 2, 3, 17, 255]);
    (0..n).map(|_| (Timestamp::from_timestamp_millis(r.u64v()), Amount::from_micro_ccd(r.u64v()))).collect()
}

/// Build a transaction through the `construct` builders. Returns the kind, the
/// prepared transaction and the *documented* transaction-specific energy
/// (None = absolute energy given).
#[allow(deprecated)]
fn gen_pre(r: &mut Rng, num_sigs: u32, sender: AccountAddress, nonce: Nonce, expiry: TransactionTime) -> (&'static str, construct::PreAccountTransaction, Result<u64, u64>) {
    let amount = Amount::from_micro_ccd(r.u64v());
    match r.below(18) {
        0 => ("transfer", construct::transfer(num_sigs, sender, nonce, expiry, addr(r), amount), Ok(300)),
        1 => ("transfer_with_memo", construct::transfer_with_memo(num_sigs, sender, nonce, expiry, addr(r), amount, memo(r)), Ok(300)),
        2 => {
            let n = *r.pick(&[0usize, 1, 32, 255, 256]);
            ("register_data", construct::register_data(num_sigs, sender, nonce, expiry, transactions::RegisteredData::try_from(r.bytes(n)).unwrap()), Ok(300))
        }
        3 => {
            let s = schedule(r);
            let n = s.len() as u64;
            ("transfer_with_schedule", construct::transfer_with_schedule(num_sigs, sender, nonce, expiry, addr(r), s), Ok(n * (300 + 64)))
        }
        4 => {
            let s = schedule(r);
            let n = s.len() as u64;
            ("transfer_with_schedule_and_memo", construct::transfer_with_schedule_and_memo(num_sigs, sender, nonce, expiry, addr(r), s, memo(r)), Ok(n * (300 + 64)))
        }
        5 => ("transfer_to_encrypted", construct::transfer_to_encrypted(num_sigs, sender, nonce, expiry, amount), Ok(600)),
        6 => {
            let e = r.below(1 << 40);
            let n = r.below(200) as usize;
            let p = transactions::InitContractPayload { amount, mod_ref: ModuleReference::from(<[u8; 32]>::try_from(r.bytes(32)).unwrap()), init_name: OwnedContractName::new("init_contract".into()).unwrap(), param: OwnedParameter::try_from(r.bytes(n)).unwrap() };
            ("init_contract", construct::init_contract(num_sigs, sender, nonce, expiry, p, Energy::from(e)), Ok(e))
        }
        7 => {
            let e = r.below(1 << 40);
            let n = r.below(200) as usize;
            let p = transactions::UpdateContractPayload { amount, address: ContractAddress::new(r.u64v(), r.u64v()), receive_name: OwnedReceiveName::new("contract.receive".into()).unwrap(), message: OwnedParameter::try_from(r.bytes(n)).unwrap() };
            ("update_contract", construct::update_contract(num_sigs, sender, nonce, expiry, p, Energy::from(e)), Ok(e))
        }
        8 => {
            let n = *r.pick(&[0usize, 9, 10, 19, 1234]);
            let m = concordium_base::smart_contracts::WasmModule { version: if r.chance(1, 2) { concordium_base::smart_contracts::WasmVersion::V0 } else { concordium_base::smart_contracts::WasmVersion::V1 }, source: r.bytes(n).into() };
            ("deploy_module", construct::deploy_module(num_sigs, sender, nonce, expiry, m), Ok(n as u64 / 10))
        }
        9 => {
            let mut p = transactions::ConfigureDelegationPayload::new();
            if r.chance(1, 2) {
                p.set_capital(amount);
            }
            if r.chance(1, 2) {
                p.set_restake_earnings(r.chance(1, 2));
            }
            if r.chance(1, 2) {
                p.set_delegation_target(if r.chance(1, 2) { concordium_base::base::DelegationTarget::Passive } else { concordium_base::base::DelegationTarget::Baker { baker_id: concordium_base::base::BakerId { id: concordium_base::base::AccountIndex { index: r.u64v() } } } });
            }
            ("configure_delegation", construct::configure_delegation(num_sigs, sender, nonce, expiry, p), Ok(300))
        }
        10 => {
            let mut p = transactions::ConfigureBakerPayload::new();
            if r.chance(1, 2) {
                p.set_capital(amount);
            }
            if r.chance(1, 2) {
                p.set_restake_earnings(r.chance(1, 2));
            }
            if r.chance(1, 2) {
                p.set_open_for_delegation(*r.pick(&[concordium_base::base::OpenStatus::OpenForAll, concordium_base::base::OpenStatus::ClosedForNew, concordium_base::base::OpenStatus::ClosedForAll]));
            }
            if r.chance(1, 2) {
                p.set_metadata_url(concordium_base::base::UrlText::try_from("https://example.com/baker".to_string()).unwrap());
            }
            if r.chance(1, 2) {
                p.set_transaction_fee_commission(concordium_base::base::AmountFraction::new(r.below(100_001) as u32).unwrap());
            }
            if r.chance(1, 2) {
                p.set_suspend(r.chance(1, 2));
            }
            let with_keys = r.chance(1, 6);
            if with_keys {
                let mut cr = CR(Rng::new(r.next()));
                let bk = concordium_base::base::BakerKeyPairs::generate(&mut cr);
                p.add_keys(&bk, sender, &mut cr);
            }
            (if with_keys { "configure_baker.keys" } else { "configure_baker" }, construct::configure_baker(num_sigs, sender, nonce, expiry, p), Ok(if with_keys { 4050 } else { 300 }))
        }
        11 => {
            let nk = r.range(1, 4) as usize;
            let keys = CredentialPublicKeys { keys: pick_indices(r, nk).into_iter().map(|ki| (KeyIndex(ki), VerifyKey::Ed25519VerifyKey(gen_key(r).verifying_key()))).collect(), threshold: SignatureThreshold::try_from(r.range(1, nk as u64) as u8).unwrap() };
            let existing = r.below(6) as u16;
            let mut cr = CR(Rng::new(r.next()));
            let cred_id = concordium_base::base::CredentialRegistrationID::new(<concordium_base::id::constants::ArCurve as concordium_base::curve_arithmetic::Curve>::generate(&mut cr));
            ("update_credential_keys", construct::update_credential_keys(num_sigs, sender, nonce, expiry, existing, cred_id, keys), Ok(500 * existing as u64 + 100 * nk as u64))
        }
        12 => ("update_baker_stake", construct::update_baker_stake(num_sigs, sender, nonce, expiry, amount), Ok(300)),
        13 => ("update_baker_restake_earnings", construct::update_baker_restake_earnings(num_sigs, sender, nonce, expiry, r.chance(1, 2)), Ok(300)),
        14 => ("remove_baker", construct::remove_baker(num_sigs, sender, nonce, expiry), Ok(300)),
        15 => {
            use concordium_base::protocol_level_tokens::{operations, TokenAmount, TokenId, TokenOperations};
            let n = r.range(0, 5);
            let mut cost = 300u64;
            let mut ops = vec![];
            for _ in 0..n {
                let ta = TokenAmount::from_raw(r.u64v(), r.below(20) as u8);
                let (op, c) = match r.below(9) {
                    0 => (operations::transfer_tokens(addr(r), ta), 100),
                    1 => (operations::mint_tokens(ta), 50),
                    2 => (operations::burn_tokens(ta), 50),
                    3 => (operations::add_token_allow_list(addr(r)), 50),
                    4 => (operations::remove_token_allow_list(addr(r)), 50),
                    5 => (operations::add_token_deny_list(addr(r)), 50),
                    6 => (operations::remove_token_deny_list(addr(r)), 50),
                    7 => (operations::pause(), 50),
                    _ => (operations::unpause(), 50),
                };
                cost += c;
                ops.push(op);
            }
            let ops: TokenOperations = ops.into_iter().collect();
            match construct::token_update_operations(num_sigs, sender, nonce, expiry, TokenId::try_from("TOK-1".to_string()).unwrap(), ops) {
                Ok(p) => ("token_update", p, Ok(cost)),
                Err(_) => ("transfer", construct::transfer(num_sigs, sender, nonce, expiry, addr(r), amount), Ok(300)),
            }
        }
        16 => {
            let e = r.u64v();
            ("absolute_energy", construct::make_transaction(sender, nonce, expiry, construct::GivenEnergy::Absolute(Energy::from(e)), Payload::Transfer { to_address: addr(r), amount }), Err(e))
        }
        _ => ("transfer", construct::transfer(num_sigs, sender, nonce, expiry, addr(r), amount), Ok(300)),
    }
}

fn hash32(x: &impl AsRef<[u8]>) -> [u8; 32] { <[u8; 32]>::try_from(x.as_ref()).unwrap() }

fn lib_sig_to_model(s: &BTreeMap<CredentialIndex, BTreeMap<KeyIndex, Signature>>) -> SigMap { s.iter().map(|(ci, cs)| (ci.index, cs.iter().map(|(ki, sg)| (ki.0, sg.sig.clone())).collect())).collect() }

/// Verify through the three V0 entry points.
fn verify_v0(acc: &AccountAccessStructure, header: &TransactionHeader, payload: &EncodedPayload, digest: &[u8; 32], sigs: &SigMap) -> Vec<(&'static str, Result<bool, String>)> {
    let lib = to_lib(sigs);
    let h = TransactionSignHash::from(*digest);
    let tx = AccountTransaction { signature: TransactionSignature { signatures: lib.clone() }, header: header.clone(), payload: payload.clone() };
    vec![
        ("verify_data_signature", vmon_core::catch(|| transactions::verify_data_signature(acc, &digest[..], &lib))),
        ("verify_signature_transaction_sign_hash", vmon_core::catch(|| transactions::verify_signature_transaction_sign_hash(acc, &h, &TransactionSignature { signatures: lib.clone() }))),
        ("AccountTransaction::verify_transaction_signature", vmon_core::catch(|| tx.verify_transaction_signature(acc))),
    ]
}

fn case_account(j: &mut Judge, r: &mut Rng, thorough: bool) {
    let a = Acct::gen(r);
    let p = a.public();
    let acc = p.access();
    let sender = addr(r);
    let nonce = Nonce::from(r.u64v());
    let expiry = TransactionTime::from_seconds(r.u64v());
    let satisfiable = a.satisfiable();
    j.sh.hit(if satisfiable { "structure.satisfiable" } else { "structure.unsatisfiable" });
    j.sh.max("max.credentials", a.creds.len() as u64);
    j.sh.max("max.keys_per_credential", a.creds.values().map(|c| c.keys.len()).max().unwrap_or(0) as u64);

    // ---- construction: documented functions of the serialized bytes
    let keys = a.account_keys();
    let num_sigs = {
        use concordium_base::transactions::ExactSizeTransactionSigner;
        keys.num_keys()
    };
    let (kind, pre, specific) = gen_pre(r, num_sigs, sender, nonce, expiry);
    j.sh.hit(&format!("payload.{}", kind));
    let payload_bytes = to_bytes(&pre.payload);
    let enc_bytes: Vec<u8> = pre.encoded.clone().into();
    let size = payload_bytes.len() as u64;
    let expected_energy = match specific {
        Ok(s) => 60 + size + 100 * num_sigs as u64 + s,
        Err(abs) => abs,
    };
    let hb = header_bytes(&sender, nonce.nonce, expected_energy, size as u32, expiry.seconds);
    let digest = sha256(&[&hb, &payload_bytes]);
    let ctx_json = json!({"kind": kind, "num_sigs": num_sigs, "header": hex(&to_bytes(&pre.header)), "payload": vmon_core::hex_short(&payload_bytes, 300)});
    j.case_hash = vmon_core::fnv(format!("{}{}", ctx_json, p.to_json()).as_bytes());
    j.sample = Some(json!({"transaction": ctx_json.clone(), "access_structure": p.to_json(), "digest": hex(&digest)}));
    j.sh.evaluations += 1;
    j.sh.hit("construct.checked");
    if enc_bytes != payload_bytes {
        j.mismatch("construct", "encoded-payload", "PreAccountTransaction.encoded differs from the serialization of its payload".into(), ctx_json.clone());
    }
    if u32::from(pre.header.payload_size) as u64 != size {
        j.mismatch("construct", "payload-size", format!("declared payload size {} but the payload serializes to {} bytes", u32::from(pre.header.payload_size), size), ctx_json.clone());
    }
    if pre.header.energy_amount.energy != expected_energy {
        j.mismatch("construct", "energy", format!("{}: header energy {} but documented formula gives {} (size {}, {} signatures)", kind, pre.header.energy_amount.energy, expected_energy, 60 + size, num_sigs), ctx_json.clone());
    }
    if to_bytes(&pre.header) != hb {
        j.mismatch("construct", "header-bytes", format!("header serializes to {} but sender|nonce|energy|size|expiry is {}", hex(&to_bytes(&pre.header)), hex(&hb)), ctx_json.clone());
    }
    if hash32(&pre.hash_to_sign) != digest {
        j.mismatch("construct", "sign-hash", format!("hash_to_sign {} but SHA-256(header|payload) is {}", hex(pre.hash_to_sign.as_ref()), hex(&digest)), ctx_json.clone());
    }
    if hash32(&transactions::compute_transaction_sign_hash(&pre.header, &pre.payload)) != digest || hash32(&transactions::compute_transaction_sign_hash(&pre.header, &pre.encoded)) != digest {
        j.mismatch("construct", "compute-sign-hash", "compute_transaction_sign_hash differs from SHA-256(header|payload)".into(), ctx_json.clone());
    }
    let header = pre.header.clone();
    let encoded = pre.encoded.clone();

    // library signer (first `threshold` credentials, first threshold keys)
    let signed = pre.clone().sign(&keys);
    {
        let model = lib_sig_to_model(&signed.signature.signatures);
        let txb = to_bytes(&signed);
        let mut mine = sigmap_bytes(&signed.signature.signatures);
        mine.extend_from_slice(&hb);
        mine.extend_from_slice(&payload_bytes);
        j.sh.evaluations += 1;
        if txb != mine {
            j.mismatch("construct", "transaction-bytes", "serialized transaction is not signatures|header|payload".into(), json!({"library": hex(&txb), "harness": hex(&mine)}));
        }
        let bi: BlockItem<EncodedPayload> = BlockItem::from(signed.clone());
        let bh = sha256(&[&[0u8], &txb]);
        if hash32(&bi.hash()) != bh {
            j.mismatch("construct", "block-item-hash", format!("BlockItem::hash {} but SHA-256(0|transaction) is {}", hex(bi.hash().as_ref()), hex(&bh)), ctx_json.clone());
        }
        j.sh.hit("construct.block_item_hash");
        // `AccountKeys` signs with the first `threshold` credentials and their first
        // `threshold` keys: num_keys is exact when those exist.
        let first_exist = a.creds.len() >= a.thr as usize && a.creds.values().take(a.thr as usize).all(|c| c.thr as usize <= c.keys.len());
        if first_exist && signed.signature.num_signatures() != num_sigs {
            j.mismatch("construct", "num-keys", format!("AccountKeys::num_keys {} but {} signatures produced", num_sigs, signed.signature.num_signatures()), ctx_json.clone());
        }
        let got = verify_v0(&acc, &header, &encoded, &digest, &model);
        j.verdicts("v0", "library_signer", &p, &digest, &model, got, ctx_json.clone());
        // decode what was encoded and verify again
        if let Ok(back) = from_bytes::<AccountTransaction<EncodedPayload>, _>(&mut std::io::Cursor::new(&txb)) {
            let g = vmon_core::catch(|| back.verify_transaction_signature(&acc));
            j.verdicts("v0", "library_signer.decoded", &p, &digest, &model, vec![("AccountTransaction::verify_transaction_signature", g)], ctx_json.clone());
        } else if !model.is_empty() && model.values().all(|m| !m.is_empty()) {
            j.mismatch("construct", "undecodable", "a signed transaction does not decode".into(), json!({"bytes": hex(&txb)}));
        }
    }

    // ---- threshold policy over signer subsets
    let scen = scenarios(r, &a, &digest);
    let mut accepted: Option<SigMap> = None;
    for (name, sigs) in &scen {
        let got = verify_v0(&acc, &header, &encoded, &digest, sigs);
        if accepted.is_none() && policy(&p, &digest, sigs) == (true, true) {
            accepted = Some(sigs.clone());
        }
        j.verdicts("v0", name, &p, &digest, sigs, got, ctx_json.clone());
    }
    // verify_data_signature on arbitrary (non-hash) data
    {
        let data = gen_msg(r);
        for (name, sigs) in scenarios(r, &a, &data).into_iter().take(if thorough { 20 } else { 6 }) {
            let lib = to_lib(&sigs);
            let g = vmon_core::catch(|| transactions::verify_data_signature(&acc, &data, &lib));
            j.verdicts("data", &name, &p, &data, &sigs, vec![("verify_data_signature", g)], json!({"data_len": data.len()}));
        }
    }

    // ---- single-bit perturbations of an accepted transaction
    if let Some(sigs) = accepted {
        let n = if thorough { 12 } else { 5 };
        for _ in 0..n {
            // header
            let bit = r.below(480) as usize;
            let fb = flipped(&hb, bit);
            match from_bytes::<TransactionHeader, _>(&mut std::io::Cursor::new(&fb)) {
                Err(_) => j.sh.hit("perturb.header.undecodable"),
                Ok(h2) => {
                    let d2 = sha256(&[&fb, &payload_bytes]);
                    let tx = AccountTransaction { signature: TransactionSignature { signatures: to_lib(&sigs) }, header: h2, payload: encoded.clone() };
                    let g = vmon_core::catch(|| tx.verify_transaction_signature(&acc));
                    perturbed(j, "perturb.header", &p, &d2, &sigs, g, json!({"bit": bit, "header": hex(&fb), "payload": vmon_core::hex_short(&payload_bytes, 300)}));
                }
            }
            // payload
            if !payload_bytes.is_empty() {
                let bit = r.below(8 * payload_bytes.len() as u64) as usize;
                let fp = flipped(&payload_bytes, bit);
                let d2 = sha256(&[&hb, &fp]);
                let tx = AccountTransaction { signature: TransactionSignature { signatures: to_lib(&sigs) }, header: header.clone(), payload: EncodedPayload::try_from(fp.clone()).unwrap() };
                let g = vmon_core::catch(|| tx.verify_transaction_signature(&acc));
                perturbed(j, "perturb.payload", &p, &d2, &sigs, g, json!({"bit": bit, "header": hex(&hb), "payload": vmon_core::hex_short(&fp, 300)}));
            }
            // one signature
            {
                let pos = positions(&sigs);
                let (ci, ki) = *r.pick(&pos);
                let bit = r.below(512) as usize;
                let mut s2 = sigs.clone();
                flip(s2.get_mut(&ci).unwrap().get_mut(&ki).unwrap(), bit);
                let got = verify_v0(&acc, &header, &encoded, &digest, &s2);
                for (e, g) in got {
                    perturbed(j, "perturb.signature", &p, &digest, &s2, g, json!({"bit": bit, "credential": ci, "key": ki, "entry": e}));
                }
            }
            // one key used by a supplied signature
            {
                let pos = positions(&sigs);
                let (ci, ki) = *r.pick(&pos);
                let bit = r.below(256) as usize;
                let kb = flipped(p.creds[&ci].1[&ki].as_bytes(), bit);
                match VerifyingKey::from_bytes(&<[u8; 32]>::try_from(&kb[..]).unwrap()) {
                    Err(_) => j.sh.hit("perturb.key.undecodable"),
                    Ok(vk) => {
                        let mut p2 = p.clone();
                        p2.creds.get_mut(&ci).unwrap().1.insert(ki, vk);
                        let acc2 = p2.access();
                        for (e, g) in verify_v0(&acc2, &header, &encoded, &digest, &sigs) {
                            perturbed(j, "perturb.key", &p2, &digest, &sigs, g, json!({"bit": bit, "credential": ci, "key": ki, "entry": e}));
                        }
                    }
                }
            }
        }
        // key set: remove a used key / a used credential from the structure
        {
            let pos = positions(&sigs);
            let (ci, ki) = *r.pick(&pos);
            let mut p2 = p.clone();
            if r.chance(1, 2) && p2.creds[&ci].1.len() > 1 {
                p2.creds.get_mut(&ci).unwrap().1.remove(&ki);
            } else {
                p2.creds.remove(&ci);
            }
            let acc2 = p2.access();
            let got = verify_v0(&acc2, &header, &encoded, &digest, &sigs);
            j.verdicts("v0", "keyset_shrunk", &p2, &digest, &sigs, got, ctx_json.clone());
            j.sh.hit("perturb.keyset");
        }
    } else {
        j.sh.hit("perturb.skipped_no_accepting_subset");
    }
}

/// After a single-bit change verification must fail. The predicate (run on the
/// perturbed data) is consulted too: should it accept, ed25519 itself was
/// forged/malleable and nothing is concluded about the policy.
fn perturbed(j: &mut Judge, what: &str, p: &PubAcct, data: &[u8], sigs: &SigMap, got: Result<bool, String>, extra: Value) {
    j.sh.evaluations += 1;
    j.sh.hit(what);
    if policy(p, data, sigs).0 {
        j.sh.hit(&format!("{}.predicate_still_accepts", what));
        if j.sh.inconclusive.len() < 5 {
            j.sh.inconclusive.push(format!("{}: ed25519 accepts the perturbed input; no verdict", what));
        }
        return;
    }
    j.sh.hit("reject.expected");
    match got {
        Ok(false) => {}
        Ok(true) => {
            let case = json!({"perturbation": what, "access_structure": p.to_json(), "signed_data": hex(data), "signatures": sigs_json(sigs), "context": extra});
            j.mismatch("perturbation-accepted", what, format!("{}: verification still succeeds after a single-bit change", what), case);
        }
        Err(_) => j.sh.hit("note.verifier_panic.on_expected_reject"),
    }
}

// ---------------------------------------------------------------- sponsored (V1)

fn case_v1(j: &mut Judge, r: &mut Rng, thorough: bool) {
    let sender_acct = Acct::gen(r);
    let sponsor_acct = Acct::gen(r);
    let (ps, pp) = (sender_acct.public(), sponsor_acct.public());
    let (acc_s, acc_p) = (ps.access(), pp.access());
    let sender = addr(r);
    let sponsor_addr = addr(r);
    let nonce = Nonce::from(r.u64v());
    let expiry = TransactionTime::from_seconds(r.u64v());
    let num_sigs = r.below(6) as u32;
    let (kind, pre, specific) = loop {
        let x = gen_pre(r, num_sigs, sender, nonce, expiry);
        if x.2.is_ok() && x.1.header.energy_amount.energy < u64::MAX / 2 {
            break x;
        }
    };
    j.sh.hit(&format!("payload.v1.{}", kind));
    let payload_bytes = to_bytes(&pre.payload);
    let base_energy = 60 + payload_bytes.len() as u64 + 100 * num_sigs as u64 + specific.unwrap();
    let mut v1 = pre.extend();
    let sponsored = r.chance(3, 4);
    let num_sponsor_sigs = r.below(6) as u32;
    let mut expected_energy = base_energy + 2;
    if sponsored {
        if v1.add_sponsor(sponsor_addr, num_sponsor_sigs).is_err() {
            j.mismatch("construct", "add-sponsor", "add_sponsor failed on a transaction without sponsor".into(), json!({"kind": kind}));
            return;
        }
        expected_energy += 32 + 100 * num_sponsor_sigs as u64;
        if v1.add_sponsor(sponsor_addr, 1).is_ok() {
            j.mismatch("construct", "add-sponsor-twice", "add_sponsor succeeded although a sponsor is present".into(), json!({"kind": kind}));
        }
    }
    let hb = header_v1_bytes(&TransactionHeaderV1 { sender, nonce, energy_amount: Energy::from(expected_energy), payload_size: v1.header.payload_size, expiry, sponsor: if sponsored { Some(sponsor_addr) } else { None } });
    let digest = sha256(&[&V1_PREFIX, &hb, &payload_bytes]);
    let ctx_json = json!({"kind": kind, "sponsored": sponsored, "header_v1": hex(&to_bytes(&v1.header)), "payload": vmon_core::hex_short(&payload_bytes, 300)});
    j.case_hash = vmon_core::fnv(format!("{}{}{}", ctx_json, ps.to_json(), pp.to_json()).as_bytes());
    j.sample = Some(json!({"transaction": ctx_json.clone(), "sender": ps.to_json(), "sponsor": pp.to_json(), "digest": hex(&digest)}));
    j.sh.evaluations += 1;
    j.sh.hit("construct.v1.checked");
    if v1.header.energy_amount.energy != expected_energy {
        j.mismatch("construct", "energy-v1", format!("{}: V1 header energy {} but documented formula gives {}", kind, v1.header.energy_amount.energy, expected_energy), ctx_json.clone());
    }
    if to_bytes(&v1.header) != hb {
        j.mismatch("construct", "header-v1-bytes", format!("V1 header serializes to {} expected {}", hex(&to_bytes(&v1.header)), hex(&hb)), ctx_json.clone());
    }
    if hash32(&v1.hash_to_sign) != digest || hash32(&transactions::compute_transaction_sign_hash_v1(&v1.header, &v1.encoded)) != digest {
        j.mismatch("construct", "sign-hash-v1", format!("V1 hash_to_sign {} but SHA-256(prefix|header|payload) is {}", hex(v1.hash_to_sign.as_ref()), hex(&digest)), ctx_json.clone());
    }
    // library signing path
    {
        let (ks, kp) = (sender_acct.account_keys(), sponsor_acct.account_keys());
        let mut w = v1.clone();
        w.sign(&ks);
        if sponsored {
            if w.sponsor(&kp).is_err() {
                j.mismatch("construct", "sponsor-sign", "sponsor() failed although a sponsor was added".into(), ctx_json.clone());
            }
        } else if w.sponsor(&kp).is_ok() {
            j.mismatch("construct", "sponsor-sign-without-sponsor", "sponsor() succeeded although no sponsor was added".into(), ctx_json.clone());
        }
        if v1.finalize().is_ok() {
            j.mismatch("construct", "finalize-unsigned", "finalize() succeeded without a sender signature".into(), ctx_json.clone());
        }
        match w.finalize() {
            Err(e) => j.mismatch("construct", "finalize", format!("finalize failed: {}", e), ctx_json.clone()),
            Ok(tx) => {
                let txb = to_bytes(&tx);
                let mut mine = sigmap_bytes(&tx.signatures.sender.signatures);
                match &tx.signatures.sponsor {
                    Some(s) => mine.extend_from_slice(&sigmap_bytes(&s.signatures)),
                    None => mine.push(0),
                }
                mine.extend_from_slice(&hb);
                mine.extend_from_slice(&payload_bytes);
                j.sh.evaluations += 1;
                if txb != mine {
                    j.mismatch("construct", "transaction-v1-bytes", "serialized V1 transaction is not signatures|header|payload".into(), json!({"library": hex(&txb), "harness": hex(&mine)}));
                }
                let bi: BlockItem<EncodedPayload> = BlockItem::AccountTransactionV1(tx.clone());
                let bh = sha256(&[&[3u8], &txb]);
                if hash32(&bi.hash()) != bh {
                    j.mismatch("construct", "block-item-hash-v1", format!("BlockItem::hash {} but SHA-256(3|transaction) is {}", hex(bi.hash().as_ref()), hex(&bh)), ctx_json.clone());
                }
                j.sh.hit("construct.v1.block_item_hash");
                let ms = lib_sig_to_model(&tx.signatures.sender.signatures);
                let mp = tx.signatures.sponsor.as_ref().map(|s| lib_sig_to_model(&s.signatures));
                let g = vmon_core::catch(|| tx.verify_transaction_signature(&acc_s, &acc_p));
                judge_v1(j, "library_signer", &ps, &pp, &digest, &ms, mp.as_ref(), vec![("AccountTransactionV1::verify_transaction_signature", g)], ctx_json.clone());
            }
        }
    }
    // scenario pairs
    let ss = scenarios(r, &sender_acct, &digest);
    let sp = scenarios(r, &sponsor_acct, &digest);
    let rounds = if thorough { 16 } else { 8 };
    for k in 0..rounds {
        let (sn, s_sigs) = if k < 3 { ss[k].clone() } else { r.pick(&ss).clone() };
        let (pn, p_sigs): (String, Option<SigMap>) = if !sponsored {
            ("-".into(), None)
        } else if k % 2 == 0 {
            let x = sp[k % 3].clone();
            (x.0, Some(x.1))
        } else {
            let x = r.pick(&sp).clone();
            (x.0, Some(x.1))
        };
        run_v1(j, &format!("{}+{}", sn, pn), &acc_s, &acc_p, &ps, &pp, &v1.header, &v1.encoded, &digest, &s_sigs, p_sigs.as_ref(), ctx_json.clone());
    }
    // roles swapped: sender's signatures presented as the sponsor's and vice versa
    if sponsored {
        run_v1(j, "roles_swapped", &acc_s, &acc_p, &ps, &pp, &v1.header, &v1.encoded, &digest, &sp[1].1, Some(&ss[1].1), ctx_json.clone());
        j.sh.hit("v1.roles_swapped");
        // keys swapped: correct signatures, access structures passed in the wrong order
        let g = {
            let tx = AccountTransactionV1 { signatures: TransactionSignaturesV1 { sender: TransactionSignature { signatures: to_lib(&ss[1].1) }, sponsor: Some(TransactionSignature { signatures: to_lib(&sp[1].1) }) }, header: v1.header.clone(), payload: v1.encoded.clone() };
            vmon_core::catch(|| tx.verify_transaction_signature(&acc_p, &acc_s))
        };
        judge_v1(j, "keys_swapped", &pp, &ps, &digest, &ss[1].1, Some(&sp[1].1), vec![("AccountTransactionV1::verify_transaction_signature", g)], ctx_json.clone());
        // V0 digest signed, presented as V1 (domain separation of the prefix)
        let d0 = sha256(&[&hb[2..62], &payload_bytes]);
        let s0 = sign_sel(&sender_acct, &d0, &sel_all(&sender_acct));
        let p0 = sign_sel(&sponsor_acct, &d0, &sel_all(&sponsor_acct));
        run_v1(j, "v0_digest", &acc_s, &acc_p, &ps, &pp, &v1.header, &v1.encoded, &digest, &s0, Some(&p0), ctx_json.clone());
    }
    // perturbation of the V1 header
    let s_all = sign_sel(&sender_acct, &digest, &sel_all(&sender_acct));
    let p_all = if sponsored { Some(sign_sel(&sponsor_acct, &digest, &sel_all(&sponsor_acct))) } else { None };
    let ok = policy(&ps, &digest, &s_all) == (true, true) && p_all.as_ref().map_or(true, |m| policy(&pp, &digest, m) == (true, true));
    if ok {
        for _ in 0..(if thorough { 12 } else { 5 }) {
            let bit = r.below(8 * hb.len() as u64) as usize;
            let fb = flipped(&hb, bit);
            let mut cur = std::io::Cursor::new(&fb);
            match from_bytes::<TransactionHeaderV1, _>(&mut cur) {
                Ok(h2) if cur.position() as usize == fb.len() && h2.sponsor.is_some() == sponsored => {
                    let d2 = sha256(&[&V1_PREFIX, &fb, &payload_bytes]);
                    let tx = AccountTransactionV1 { signatures: TransactionSignaturesV1 { sender: TransactionSignature { signatures: to_lib(&s_all) }, sponsor: p_all.as_ref().map(|m| TransactionSignature { signatures: to_lib(m) }) }, header: h2, payload: v1.encoded.clone() };
                    let g = vmon_core::catch(|| tx.verify_transaction_signature(&acc_s, &acc_p));
                    // expected: reject, because the sender's signatures no longer match
                    perturbed(j, "perturb.header_v1", &ps, &d2, &s_all, g, json!({"bit": bit, "header_v1": hex(&fb)}));
                }
                _ => j.sh.hit("perturb.header_v1.undecodable"),
            }
            if !payload_bytes.is_empty() {
                let bit = r.below(8 * payload_bytes.len() as u64) as usize;
                let fp = flipped(&payload_bytes, bit);
                let d2 = sha256(&[&V1_PREFIX, &hb, &fp]);
                let tx = AccountTransactionV1 { signatures: TransactionSignaturesV1 { sender: TransactionSignature { signatures: to_lib(&s_all) }, sponsor: p_all.as_ref().map(|m| TransactionSignature { signatures: to_lib(m) }) }, header: v1.header.clone(), payload: EncodedPayload::try_from(fp.clone()).unwrap() };
                let g = vmon_core::catch(|| tx.verify_transaction_signature(&acc_s, &acc_p));
                perturbed(j, "perturb.payload_v1", &ps, &d2, &s_all, g, json!({"bit": bit, "payload": vmon_core::hex_short(&fp, 300)}));
            }
        }
    }
}

#[allow(clippy::too_many_arguments)]
fn run_v1(j: &mut Judge, scen: &str, acc_s: &AccountAccessStructure, acc_p: &AccountAccessStructure, ps: &PubAcct, pp: &PubAcct, header: &TransactionHeaderV1, payload: &EncodedPayload, digest: &[u8; 32], s: &SigMap, p: Option<&SigMap>, ctx: Value) {
    let sigs = TransactionSignaturesV1 { sender: TransactionSignature { signatures: to_lib(s) }, sponsor: p.map(|m| TransactionSignature { signatures: to_lib(m) }) };
    let h = TransactionSignHash::from(*digest);
    let tx = AccountTransactionV1 { signatures: sigs.clone(), header: header.clone(), payload: payload.clone() };
    let got = vec![
        ("verify_signature_transaction_sign_hash_v1", vmon_core::catch(|| transactions::verify_signature_transaction_sign_hash_v1(acc_s, acc_p, &h, &sigs))),
        ("AccountTransactionV1::verify_transaction_signature", vmon_core::catch(|| tx.verify_transaction_signature(acc_s, acc_p))),
    ];
    judge_v1(j, scen, ps, pp, digest, s, p, got, ctx);
}

#[allow(clippy::too_many_arguments)]
fn judge_v1(j: &mut Judge, scen: &str, ps: &PubAcct, pp: &PubAcct, digest: &[u8], s: &SigMap, p: Option<&SigMap>, got: Vec<(&'static str, Result<bool, String>)>, ctx: Value) {
    let (l1, n1) = policy(ps, digest, s);
    let (l2, n2) = p.map_or((true, true), |m| policy(pp, digest, m));
    if l1 != n1 || l2 != n2 {
        j.sh.hit("undemanded.partial_credential");
        return;
    }
    let exp = l1 && l2;
    j.sh.hit(&format!("scenario.v1.{}", if exp { "accept" } else { "reject" }));
    j.sh.hit(if exp { "accept.expected" } else { "reject.expected" });
    if exp {
        j.accepts += 1
    } else {
        j.rejects += 1
    }
    if j.replaying {
        println!("  v1 {} expected={} got={:?}", scen, exp, got);
    }
    for (entry, g) in got {
        j.sh.evaluations += 1;
        j.sh.hit(&format!("entry.{}", entry));
        match g {
            Ok(b) if b == exp => {}
            Ok(b) => {
                let case = json!({"entry": entry, "scenario": scen, "sender_access_structure": ps.to_json(), "sponsor_access_structure": pp.to_json(), "signed_data": hex(digest), "sender_signatures": sigs_json(s), "sponsor_signatures": p.map(sigs_json), "predicate": exp, "library": b, "context": ctx});
                j.mismatch(if exp { "false-reject" } else { "false-accept" }, entry, format!("{} returned {} where the threshold predicate (sender and sponsor) says {} (scenario {})", entry, b, exp, scen), case);
            }
            Err(m) if exp => {
                let case = json!({"entry": entry, "scenario": scen, "sender_access_structure": ps.to_json(), "sponsor_access_structure": pp.to_json(), "signed_data": hex(digest), "sender_signatures": sigs_json(s), "sponsor_signatures": p.map(sigs_json), "predicate": exp, "library": format!("panic: {}", m), "context": ctx});
                j.mismatch("false-reject", entry, format!("{} panicked where the threshold predicate (sender and sponsor) says accept (scenario {}): {}", entry, scen, m), case);
            }
            Err(_) => j.sh.hit("note.verifier_panic.on_expected_reject"),
        }
    }
}

// ---------------------------------------------------------------- chain updates

fn gen_update_payload(r: &mut Rng) -> (&'static str, UpdatePayload) {
    use concordium_base::base::*;
    match r.below(9) {
        0 => ("election_difficulty", UpdatePayload::ElectionDifficulty(ElectionDifficulty::new(r.below(100_000) as u32).unwrap())),
        1 => ("foundation_account", UpdatePayload::FoundationAccount(addr(r))),
        2 => ("baker_stake_threshold", UpdatePayload::BakerStakeThreshold(updates::BakerParameters { minimum_threshold_for_baking: Amount::from_micro_ccd(r.u64v()) })),
        3 => ("cooldown_parameters", UpdatePayload::CooldownParametersCPV1(updates::CooldownParameters { pool_owner_cooldown: DurationSeconds { seconds: r.u64v() }, delegator_cooldown: DurationSeconds { seconds: r.u64v() } })),
        4 => ("block_energy_limit", UpdatePayload::BlockEnergyLimitCPV2(Energy::from(r.u64v()))),
        5 => ("min_block_time", UpdatePayload::MinBlockTimeCPV2(concordium_base::contracts_common::Duration::from_millis(r.u64v()))),
        6 => ("mint_distribution_v1", UpdatePayload::MintDistributionCPV1(MintDistributionV1 { baking_reward: AmountFraction::new(r.below(50_001) as u32).unwrap(), finalization_reward: AmountFraction::new(r.below(50_001) as u32).unwrap() })),
        7 => {
            let n = r.below(300) as usize;
            ("protocol", UpdatePayload::Protocol(updates::ProtocolUpdate { message: "upd".into(), specification_url: "https://example.com".into(), specification_hash: concordium_base::hashes::HashBytes::from(<[u8; 32]>::try_from(r.bytes(32)).unwrap()), specification_auxiliary_data: r.bytes(n) }))
        }
        _ => ("euro_per_energy", UpdatePayload::EuroPerEnergy(concordium_base::contracts_common::ExchangeRate::new(r.range(1, 1000) * 2 + 1, 1 << r.below(40)).unwrap())),
    }
}

fn gen_access(r: &mut Rng, nkeys: usize) -> AccessStructure {
    let n = r.range(1, nkeys as u64) as usize;
    let all: Vec<u16> = (0..nkeys as u16).collect();
    let mut v = all.clone();
    r.shuffle(&mut v);
    v.truncate(n);
    AccessStructure { authorized_keys: v.into_iter().map(|index| UpdateKeysIndex { index }).collect(), threshold: UpdateKeysThreshold::try_from(r.range(1, n as u64) as u16).unwrap() }
}

fn case_update(j: &mut Judge, r: &mut Rng) {
    let nkeys = r.range(1, 7) as usize;
    let mut cr = CR(Rng::new(r.next()));
    let kps: Vec<UpdateKeyPair> = (0..nkeys).map(|_| UpdateKeyPair::generate(&mut cr)).collect();
    let pubs: Vec<UpdatePublicKey> = kps.iter().map(UpdatePublicKey::from).collect();
    let vks: Vec<VerifyingKey> = pubs
        .iter()
        .map(|p| match &p.public {
            VerifyKey::Ed25519VerifyKey(k) => *k,
        })
        .collect();
    let mut acc = || gen_access(r, nkeys);
    let v0 = AuthorizationsV0 {
        keys: pubs.clone(),
        emergency: acc(),
        protocol: acc(),
        election_difficulty: acc(),
        euro_per_energy: acc(),
        micro_gtu_per_euro: acc(),
        foundation_account: acc(),
        mint_distribution: acc(),
        transaction_fee_distribution: acc(),
        param_gas_rewards: acc(),
        pool_parameters: acc(),
        add_anonymity_revoker: acc(),
        add_identity_provider: acc(),
    };
    let v1 = AuthorizationsV1 { v0: v0.clone(), cooldown_parameters: gen_access(r, nkeys), time_parameters: gen_access(r, nkeys), create_plt: if r.chance(1, 2) { Some(gen_access(r, nkeys)) } else { None } };
    let use_v1 = r.chance(1, 2);
    let access = match r.below(4) {
        0 => v0.protocol.clone(),
        1 => v0.election_difficulty.clone(),
        2 => v1.cooldown_parameters.clone(),
        _ => v0.pool_parameters.clone(),
    };
    // ---- construct_update_signer: documented contract
    let outsider = UpdateKeyPair::generate(&mut cr);
    for _ in 0..4 {
        // choose a multiset of candidate keys: indices into kps, or nkeys = outsider
        let m = r.below(nkeys as u64 + 2) as usize;
        let cand: Vec<usize> = (0..m)
            .map(|_| {
                let extra = if r.chance(1, 6) { 1 } else { 0 };
                r.below(nkeys as u64 + extra) as usize
            })
            .collect();
        let actual: Vec<UpdateKeyPair> = cand.iter().map(|&i| if i == nkeys { outsider.clone() } else { kps[i].clone() }).collect();
        let distinct: BTreeSet<usize> = cand.iter().copied().collect();
        let expect_some = cand.iter().all(|&i| i < nkeys && access.authorized_keys.contains(&UpdateKeysIndex { index: i as u16 })) && distinct.len() == cand.len();
        let got = vmon_core::catch(|| if use_v1 { v1.construct_update_signer(&access, actual.clone()) } else { v0.construct_update_signer(&access, actual.clone()) });
        j.sh.evaluations += 1;
        j.sh.hit(if expect_some { "update.signer.some" } else { "update.signer.none" });
        let case = json!({"keys": vks.iter().map(|k| hex(k.as_bytes())).collect::<Vec<_>>(), "authorized": access.authorized_keys.iter().map(|k| k.index).collect::<Vec<_>>(), "candidates": cand, "outsider_is": nkeys});
        match got {
            Err(m) => {
                if j.sh.inconclusive.len() < 5 {
                    j.sh.inconclusive.push(format!("construct_update_signer panicked: {}", m));
                }
            }
            Ok(None) if !expect_some => {}
            Ok(Some(map)) if expect_some => {
                let ok = map.len() == cand.len() && map.iter().all(|(i, kp)| (i.index as usize) < nkeys && UpdatePublicKey::from(kp) == pubs[i.index as usize] && cand.contains(&(i.index as usize)));
                if !ok {
                    j.mismatch("update-signer", "wrong-map", "construct_update_signer returned a map that does not associate each key with its index".into(), case);
                }
            }
            Ok(x) => j.mismatch("update-signer", if expect_some { "none-for-authorized" } else { "some-for-unauthorized" }, format!("construct_update_signer returned {} but the documented contract gives {}", if x.is_some() { "Some" } else { "None" }, if expect_some { "Some" } else { "None" }), case),
        }
    }
    // ---- update::update
    let auth: Vec<u16> = access.authorized_keys.iter().map(|k| k.index).collect();
    let nsign = r.range(1, auth.len() as u64) as usize;
    let mut signers_idx = auth.clone();
    r.shuffle(&mut signers_idx);
    signers_idx.truncate(nsign);
    let signer: BTreeMap<UpdateKeysIndex, UpdateKeyPair> = signers_idx.iter().map(|&i| (UpdateKeysIndex { index: i }, kps[i as usize].clone())).collect();
    let (kind, payload) = gen_update_payload(r);
    j.sh.hit(&format!("update.payload.{}", kind));
    let (seq, eff, timeout) = (r.u64v(), r.u64v(), r.u64v());
    let pb = to_bytes(&payload);
    let ui: UpdateInstruction = match vmon_core::catch(|| updates::update::update(&signer, UpdateSequenceNumber::from(seq), TransactionTime::from_seconds(eff), TransactionTime::from_seconds(timeout), payload)) {
        Ok(u) => u,
        Err(m) => {
            j.sh.inconclusive.push(format!("update::update panicked: {}", m));
            return;
        }
    };
    let mut hb = vec![];
    hb.extend_from_slice(&seq.to_be_bytes());
    hb.extend_from_slice(&eff.to_be_bytes());
    hb.extend_from_slice(&timeout.to_be_bytes());
    hb.extend_from_slice(&(pb.len() as u32).to_be_bytes());
    let digest = sha256(&[&hb, &pb]);
    let case = json!({"kind": kind, "header": hex(&hb), "payload": vmon_core::hex_short(&pb, 300), "signers": signers_idx, "keys": vks.iter().map(|k| hex(k.as_bytes())).collect::<Vec<_>>()});
    j.case_hash = vmon_core::fnv(case.to_string().as_bytes());
    j.sample = Some(case.clone());
    j.sh.evaluations += 1;
    j.sh.hit("update.instruction.checked");
    if ui.payload.as_ref() != &pb[..] || u32::from(ui.header.payload_size) as usize != pb.len() || to_bytes(&ui.header) != hb {
        j.mismatch("update", "header-or-payload", "update instruction header/payload are not the documented functions of the serialized payload".into(), case.clone());
    }
    let got_idx: BTreeSet<u16> = ui.signatures.signatures.keys().map(|k| k.index).collect();
    if got_idx != signers_idx.iter().copied().collect() {
        j.mismatch("update", "signer-set", "update instruction is not signed by exactly the signer's keys".into(), case.clone());
    }
    let mut nvalid = 0;
    for (i, s) in &ui.signatures.signatures {
        j.sh.evaluations += 1;
        if !sig_valid(&vks[i.index as usize], &digest, &s.sig) {
            j.mismatch("update", "invalid-signature", format!("signature of key {} is not valid for SHA-256(header|payload)", i.index), case.clone());
        } else {
            nvalid += 1;
            // and under no other registered key
            for (o, vk) in vks.iter().enumerate() {
                if o != i.index as usize && sig_valid(vk, &digest, &s.sig) {
                    j.sh.hit("update.signature.valid_under_other_key");
                }
            }
        }
    }
    j.sh.hit(if nvalid >= u16::from(access.threshold) as usize { "update.threshold.met" } else { "update.threshold.not_met" });
    let mut mine = hb.clone();
    mine.extend_from_slice(&pb);
    mine.extend_from_slice(&(ui.signatures.signatures.len() as u16).to_be_bytes());
    for (i, s) in &ui.signatures.signatures {
        mine.extend_from_slice(&i.index.to_be_bytes());
        mine.extend_from_slice(&(s.sig.len() as u16).to_be_bytes());
        mine.extend_from_slice(&s.sig);
    }
    let uib = to_bytes(&ui);
    if uib != mine {
        j.mismatch("update", "instruction-bytes", "serialized update instruction is not header|payload|signatures".into(), json!({"library": hex(&uib), "harness": hex(&mine)}));
    }
    let bi: BlockItem<EncodedPayload> = BlockItem::UpdateInstruction(ui.clone());
    let bh = sha256(&[&[2u8], &uib]);
    if hash32(&bi.hash()) != bh {
        j.mismatch("update", "block-item-hash", format!("BlockItem::hash {} but SHA-256(2|instruction) is {}", hex(bi.hash().as_ref()), hex(&bh)), case.clone());
    }
    j.sh.hit("update.block_item_hash");
    // decoded instruction carries the same signatures
    match from_bytes::<UpdateInstruction, _>(&mut std::io::Cursor::new(&uib)) {
        Ok(back) => {
            if to_bytes(&back) != uib {
                j.mismatch("update", "roundtrip", "update instruction does not round-trip".into(), case.clone());
            }
        }
        Err(e) => j.mismatch("update", "undecodable", format!("signed update instruction does not decode: {}", e), case.clone()),
    }
}

pub fn run(ctx: &ChildCtx, sh: &mut Shard) {
    let thorough = ctx.tier == vmon_core::Tier::Thorough;
    for idx in ctx.indices() {
        ctx.begin_case(idx);
        let mut r = ctx.case_rng(idx);
        let mut j = Judge { sh, idx, accepts: 0, rejects: 0, replaying: ctx.replaying(), case_hash: 0, sample: None };
        let which = idx % 8;
        let tag = match which {
            0..=4 => {
                case_account(&mut j, &mut r, thorough);
                "account"
            }
            5 | 6 => {
                case_v1(&mut j, &mut r, thorough);
                "sponsored"
            }
            _ => {
                case_update(&mut j, &mut r);
                "update"
            }
        };
        let (acc, rej, ch, smp) = (j.accepts, j.rejects, j.case_hash, j.sample.take());
        sh.hit(&format!("cases.{}", tag));
        if (acc >= 1 && rej >= 3) || tag == "update" {
            sh.nontrivial(ch);
        }
        sh.sample(|| json!({"case_kind": tag, "accepting_scenarios": acc, "rejecting_scenarios": rej, "case": smp}));
    }
}
