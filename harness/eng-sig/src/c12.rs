//! C12: encrypted amounts conserve value and bind transfers to keys and
//! balances.
//!
//! Oracle: integer arithmetic on u64 with an independently written chunk model
//! (u64 <-> 2 x u32), ciphertext structure recomputed from the returned
//! randomness with plain group operations, and expected accept/reject from the
//! construction history of a transfer (who sent what to whom from which
//! encrypted balance).
//!
//! Fixture (built once per child process, a constant): GlobalContext generated
//! by the library from a fixed genesis string and the baby-step-giant-step
//! table of size 2^16 for its encryption-in-the-exponent generator (the size
//! used by the library's tests and FFI).
//!
//! D (deliberately not demanded):
//!  * decryption when a chunk sum leaves the range served by the table that is
//!    used (`BabyStepGiantStep::discrete_log` is documented as linear in l / m,
//!    i.e. it handles any l but becomes slow): with the 2^16 table aggregates are
//!    decrypted when both chunk sums stay below 2^32 = m^2; aggregates whose low
//!    chunks carry (chunk sums up to 2 * (2^32 - 1)) are decrypted with a second
//!    table of size 2^17 (m^2 = 2^34) and judged against
//!    sum_i chunk_sum_i * 2^(32 i) computed in u128, provided the total fits u64;
//!  * decryption with a wrong key or wrong generator (documented not to
//!    terminate);
//!  * `index` is documented as "only important for on-chain stuff, not for
//!    proofs": changing only the `index` field of the transfer data while
//!    presenting the same `before_amount` is counted
//!    (`undemanded.index_field_only.*`), not judged. What is judged is the chain
//!    semantics of the index: a transfer made for the aggregate up to index i
//!    must not verify against the aggregate up to another index;
//!  * `ChunkSize::SixtyFour.u64_to_chunks` panics in builds with overflow checks
//!    (`tmp >>= 64`); 64-bit chunks are not used for amounts; counted under
//!    `chunks.u64_to_chunks.panic_not_judged.64bit`;
//!  * which verification error is returned;
//!  * proof-shape perturbations are made by byte surgery on the serialized
//!    transfer data (response counts of the accounting proof); a variant that
//!    does not decode counts as rejected;
//!  * a perturbed byte string that no longer decodes counts as rejected;
//!  * a panic on a path where the property promises a result (decryption inside the
//!    table, a transfer not exceeding the balance, verification of honest data) is a
//!    violation; a panic where rejection is expected is only counted.
#![allow(deprecated)]
use crate::common::*;
use concordium_base::{
    common::{from_bytes, to_bytes, types::Amount},
    curve_arithmetic::{Curve, Field},
    elgamal::{chunks_to_value, value_to_chunks, BabyStepGiantStep, ChunkSize, Cipher, PublicKey, SecretKey},
    encrypted_transfers::{
        aggregate, decrypt_amount, encrypt_amount, encrypt_amount_with_fixed_randomness, make_sec_to_pub_transfer_data, make_transfer_data,
        types::{AggregatedDecryptedAmount, EncryptedAmount, EncryptedAmountAggIndex, EncryptedAmountTransferData, SecToPubAmountTransferData},
        verify_sec_to_pub_transfer_data, verify_transfer_data,
    },
    id::{constants::ArCurve, types::GlobalContext},
};
use std::sync::OnceLock;
use vmon_core::{json, ChildCtx, Rng, Shard, Value};

type C = ArCurve;
type Fr = <C as Curve>::Scalar;

fn broken() -> bool { std::env::var_os("VMON_BREAK_C12").is_some() }

struct Fixture {
    ctx:   GlobalContext<C>,
    table: BabyStepGiantStep<C>,
}

const TABLE_SIZE: u64 = 1 << 16;
/// Table for aggregates whose chunk sums exceed 2^32: every sum of two 32-bit
/// chunks is below m^2 = 2^34.
const CARRY_TABLE_SIZE: u64 = 1 << 17;

fn carry_table() -> &'static BabyStepGiantStep<C> {
    static T: OnceLock<BabyStepGiantStep<C>> = OnceLock::new();
    T.get_or_init(|| BabyStepGiantStep::new(fixture().ctx.encryption_in_exponent_generator(), CARRY_TABLE_SIZE))
}

fn fixture() -> &'static Fixture {
    static F: OnceLock<Fixture> = OnceLock::new();
    F.get_or_init(|| {
        let ctx = GlobalContext::<C>::generate("verif-c12".to_string());
        let table = BabyStepGiantStep::new(ctx.encryption_in_exponent_generator(), TABLE_SIZE);
        Fixture { ctx, table }
    })
}

struct J<'a> {
    sh:        &'a mut Shard,
    idx:       u64,
    replaying: bool,
    sampled:   bool,
}

impl J<'_> {
    fn check(&mut self, what: &str, ok: bool, detail: impl FnOnce() -> (String, Value)) {
        self.sh.evaluations += 1;
        self.sh.hit(what);
        if self.replaying {
            println!("  {} ok={}", what, ok);
        }
        let want_sample = !self.sampled && self.sh.samples.len() < 3;
        if !ok || want_sample {
            let (d, case) = detail();
            if want_sample && !case.is_null() {
                self.sampled = true;
                self.sh.samples.push(json!({"judgement": what, "held": ok, "case": case.clone()}));
            }
            if ok {
                return;
            }
            let sig = format!("c12:{}:{:016x}", what, vmon_core::fnv(case.to_string().as_bytes()));
            let kind = what.split('.').next().unwrap_or("c12").to_string();
            self.sh.violate(self.idx, &kind, sig, format!("{}: {}", what, d), case);
        }
    }

    /// verdict of a verifier against the construction history
    fn expect(&mut self, what: &str, expected: bool, got: Result<bool, String>, case: impl FnOnce() -> Value) {
        self.sh.hit(if expected { "accept.expected" } else { "reject.expected" });
        match got {
            Ok(b) => self.check(what, b == expected, || (format!("verification returned {} but the construction history says {}", b, expected), case())),
            // the history promises acceptance: a panic is not an acceptance. No totality is demanded on rejections.
            Err(m) if expected => self.check(what, false, || (format!("verification panicked ({}) but the construction history says accept", m), case())),
            Err(_) => self.sh.hit("note.verifier_panic.on_expected_reject"),
        }
    }

    fn inconclusive(&mut self, m: String) {
        if self.sh.inconclusive.len() < 5 {
            self.sh.inconclusive.push(m);
        }
    }
}

// independent chunk model
fn split32(x: u64) -> (u64, u64) { (x & 0xffff_ffff, x >> 32) }

fn join32(lo: u64, hi: u64) -> u64 { (hi << 32).wrapping_add(lo) }

/// Amounts whose chunks are cheap to decrypt (cost is linear in chunk / 2^16),
/// boundary-weighted. `full` allows 32-bit chunks.
fn gen_chunk(r: &mut Rng, full: bool) -> u64 {
    match r.below(10) {
        0 => 0,
        1 => 1,
        2 => (1 << 16) - 1,
        3 => 1 << 16,
        4 => (1 << 16) + 1,
        5 if full => (1 << 32) - 1,
        6 if full => r.below(1 << 32),
        _ => r.below(1 << 21),
    }
}

fn gen_amount(r: &mut Rng, full: bool) -> u64 {
    match r.below(12) {
        0 => 0,
        1 => 1,
        2 if full => (1 << 32) - 1,
        3 => 1 << 32,
        4 => (1 << 32) + 1,
        5 if full => u64::MAX,
        _ => join32(gen_chunk(r, full), gen_chunk(r, full)),
    }
}

fn keypair(cr: &mut CR) -> (SecretKey<C>, PublicKey<C>) {
    let sk = SecretKey::generate(fixture().ctx.elgamal_generator(), cr);
    let pk = PublicKey::from(&sk);
    (sk, pk)
}

fn enc_json(e: &EncryptedAmount<C>) -> Value { json!(hex(&to_bytes(e))) }

fn dec(j: &mut J, what: &str, sk: &SecretKey<C>, e: &EncryptedAmount<C>) -> Option<u64> {
    match vmon_core::catch(|| decrypt_amount(&fixture().table, sk, e)) {
        Ok(a) => Some(a.micro_ccd()),
        Err(m) => {
            // every call decrypts chunk values inside the table's documented range
            j.check("decrypt.panicked", false, || (format!("decrypt_amount panicked in {}: {}", what, m), json!({"secret_key": hex(&to_bytes(sk)), "encrypted": enc_json(e)})));
            None
        }
    }
}

fn case_encdec(j: &mut J, r: &mut Rng, cr: &mut CR, full: bool, forced: Option<u64>) -> u64 {
    let f = fixture();
    let (sk, pk) = keypair(cr);
    let a = forced.unwrap_or_else(|| gen_amount(r, full));
    let (lo, hi) = split32(a);
    j.sh.hit(match a {
        0 => "amount.zero",
        1 => "amount.one",
        0xffff_ffff => "amount.2^32-1",
        0x1_0000_0000 => "amount.2^32",
        0x1_0000_0001 => "amount.2^32+1",
        u64::MAX => "amount.2^64-1",
        _ => "amount.other",
    });
    let (enc, rand) = encrypt_amount(&f.ctx, &pk, Amount::from_micro_ccd(a), cr);
    let case = || json!({"amount": a, "secret_key": hex(&to_bytes(&sk)), "encrypted": enc_json(&enc)});
    // structure of the ciphertexts: (g^r, h^chunk * pk^r)
    let h = f.ctx.encryption_in_exponent_generator();
    for (i, chunk) in [lo, hi].iter().enumerate() {
        let rr: &Fr = &rand.randomness[i];
        let want = Cipher(pk.generator.mul_by_scalar(rr), h.mul_by_scalar(&C::scalar_from_u64(*chunk)).plus_point(&pk.key.mul_by_scalar(rr)));
        j.check("encrypt.structure", enc.encryptions[i] == want, || (format!("chunk {} is not (g^r, h^chunk pk^r) for the returned randomness", i), case()));
    }
    if let Some(d) = dec(j, "encdec", &sk, &enc) {
        let mut ok = d == a;
        if broken() && a > 1 {
            ok = false;
        }
        j.check("decrypt.roundtrip", ok, || (format!("decrypt(encrypt({})) = {}", a, d), case()));
    }
    // serialization round trip of the encrypted amount
    let eb = to_bytes(&enc);
    match from_bytes::<EncryptedAmount<C>, _>(&mut std::io::Cursor::new(&eb)) {
        Ok(e2) => j.check("encrypt.serialization", e2 == enc, || ("encrypted amount does not round-trip".into(), case())),
        Err(e) => j.check("encrypt.serialization", false, || (format!("encrypted amount does not decode: {}", e), case())),
    }
    // fixed randomness: public-key independent
    let fx = encrypt_amount_with_fixed_randomness(&f.ctx, Amount::from_micro_ccd(a));
    let want_fx = [Cipher(C::zero_point(), h.mul_by_scalar(&C::scalar_from_u64(lo))), Cipher(C::zero_point(), h.mul_by_scalar(&C::scalar_from_u64(hi)))];
    j.check("encrypt.fixed_randomness.structure", fx.encryptions == want_fx, || ("fixed-randomness encryption is not (0, h^chunk)".into(), case()));
    if r.chance(1, 2) {
        if let Some(d) = dec(j, "fixed", &sk, &fx) {
            j.check("decrypt.fixed_randomness", d == a, || (format!("decrypt(fixed-randomness encryption of {}) = {}", a, d), case()));
        }
    }
    vmon_core::fnv(&eb)
}

fn case_aggregate(j: &mut J, r: &mut Rng, cr: &mut CR) -> u64 {
    let f = fixture();
    let (sk, pk) = keypair(cr);
    // both chunk sums must stay below 2^32 (inside what the table is documented to serve)
    let (a, b) = loop {
        let full = r.chance(1, 8);
        let a = gen_amount(r, full);
        let b = gen_amount(r, false);
        let ((al, ah), (bl, bh)) = (split32(a), split32(b));
        if al + bl < (1 << 32) && ah + bh < (1 << 32) {
            break (a, b);
        }
        j.sh.hit("aggregate.chunk_sum_leaves_table.skipped");
    };
    let (ea, _) = encrypt_amount(&f.ctx, &pk, Amount::from_micro_ccd(a), cr);
    let eb = if r.chance(1, 3) {
        j.sh.hit("aggregate.with_fixed_randomness");
        encrypt_amount_with_fixed_randomness(&f.ctx, Amount::from_micro_ccd(b))
    } else {
        encrypt_amount(&f.ctx, &pk, Amount::from_micro_ccd(b), cr).0
    };
    let agg = aggregate(&ea, &eb);
    let case = || json!({"a": a, "b": b, "secret_key": hex(&to_bytes(&sk)), "enc_a": enc_json(&ea), "enc_b": enc_json(&eb), "aggregate": enc_json(&agg)});
    // component-wise sum
    let want = [Cipher(ea.encryptions[0].0.plus_point(&eb.encryptions[0].0), ea.encryptions[0].1.plus_point(&eb.encryptions[0].1)), Cipher(ea.encryptions[1].0.plus_point(&eb.encryptions[1].0), ea.encryptions[1].1.plus_point(&eb.encryptions[1].1))];
    j.check("aggregate.structure", agg.encryptions == want, || ("aggregate is not the chunk-wise sum of ciphertexts".into(), case()));
    if let Some(d) = dec(j, "aggregate", &sk, &agg) {
        let mut want_sum = a + b;
        if broken() {
            want_sum = a;
        }
        j.check("aggregate.decrypt", d == want_sum, || (format!("decrypt(aggregate(E({}), E({}))) = {}", a, b, d), case()));
    }
    if split32(a).0 + split32(b).0 >= (1 << 16) * 3 / 2 {
        j.sh.hit("aggregate.low_chunk_sum_large");
    }
    // commutativity
    j.check("aggregate.commutative", aggregate(&eb, &ea) == agg, || ("aggregate is not commutative".into(), case()));
    vmon_core::fnv(&to_bytes(&agg))
}

/// Aggregation where the low chunks carry: the low-chunk sum is >= 2^32, so the
/// limbs overlap when they are recombined. Model: sum_i chunk_sum_i * 2^(32 i)
/// in u128 (equals a + b); judged when it fits in u64 and every chunk sum is
/// below CARRY_TABLE_SIZE^2.
fn case_aggregate_carry(j: &mut J, r: &mut Rng, cr: &mut CR, forced: Option<(u64, u64)>, want_high_odd: bool) -> u64 {
    let f = fixture();
    let (sk, pk) = keypair(cr);
    let (a, b) = forced.unwrap_or_else(|| {
        // both low chunks in [2^31, 2^32): the low sum always carries; high chunks small
        let la = (1u64 << 31) | r.below(1 << 31);
        let lb = (1u64 << 31) | r.below(1 << 31);
        let ha = r.below(1 << 12);
        let mut hb = r.below(1 << 12);
        if ((ha + hb) & 1 == 1) != want_high_odd {
            hb += 1;
        }
        (join32(la, ha), join32(lb, hb))
    });
    let ((al, ah), (bl, bh)) = (split32(a), split32(b));
    let (lo_sum, hi_sum) = (al + bl, ah + bh);
    let model: u128 = (lo_sum as u128) + ((hi_sum as u128) << 32);
    let range = CARRY_TABLE_SIZE * CARRY_TABLE_SIZE;
    if lo_sum < (1 << 32) || lo_sum >= range || hi_sum >= range || model > u64::MAX as u128 || model != a as u128 + b as u128 {
        j.sh.hit("aggregate.low_chunk_carry.generator_miss");
        return 0;
    }
    let (ea, _) = encrypt_amount(&f.ctx, &pk, Amount::from_micro_ccd(a), cr);
    let eb = if r.chance(1, 3) { encrypt_amount_with_fixed_randomness(&f.ctx, Amount::from_micro_ccd(b)) } else { encrypt_amount(&f.ctx, &pk, Amount::from_micro_ccd(b), cr).0 };
    let agg = aggregate(&ea, &eb);
    let case = || json!({"a": a, "b": b, "low_chunk_sum": lo_sum, "high_chunk_sum": hi_sum, "table_size": CARRY_TABLE_SIZE, "secret_key": hex(&to_bytes(&sk)), "enc_a": enc_json(&ea), "enc_b": enc_json(&eb), "aggregate": enc_json(&agg)});
    match vmon_core::catch(|| decrypt_amount(carry_table(), &sk, &agg)) {
        Ok(d) => {
            let d = d.micro_ccd();
            let mut want = model as u64;
            if broken() {
                // what `|=` instead of `+=` in the recombination would give
                want = lo_sum | (hi_sum << 32);
            }
            j.sh.hit(if hi_sum & 1 == 1 { "aggregate.low_chunk_carry.high_odd" } else { "aggregate.low_chunk_carry.high_even" });
            j.check("aggregate.low_chunk_carry.decrypt", d == want, || (format!("decrypt(aggregate(E({:#x}), E({:#x}))) = {:#x}, expected {:#x} (low chunk sum {:#x} carries into the high chunk sum {:#x})", a, b, d, model, lo_sum, hi_sum), case()));
        }
        Err(m) => j.check("aggregate.low_chunk_carry.decrypt", false, || (format!("decrypt_amount panicked on an aggregate whose chunk sums are inside the table: {}", m), case())),
    }
    vmon_core::fnv(&to_bytes(&agg))
}

/// balance / transfer pairs: equal, zero, off by one, random
fn gen_pair(r: &mut Rng) -> (u64, u64) {
    let b = gen_amount(r, false);
    let a = match r.below(8) {
        0 => b,
        1 => 0,
        2 => b.saturating_sub(1),
        3 => b / 2,
        4 => split32(b).0, // only the low chunk
        _ => {
            if b == 0 {
                0
            } else {
                // keep chunks of a and of b - a cheap to decrypt
                let (bl, bh) = split32(b);
                join32(r.below(bl + 1), if bh == 0 { 0 } else { r.below(bh + 1) }).min(b)
            }
        }
    };
    (b, a)
}

fn cheap(x: u64) -> bool {
    let (l, h) = split32(x);
    l < (1 << 23) && h < (1 << 23)
}

fn plus_gen(c: &Cipher<C>, which: usize) -> Cipher<C> {
    let g = C::one_point();
    if which == 0 {
        Cipher(c.0.plus_point(&g), c.1)
    } else {
        Cipher(c.0, c.1.plus_point(&g))
    }
}

/// Byte surgery on the accounting sigma proof (challenge 32 | common response 32 |
/// u32 n1 | n1 x 64 | u32 n2 | n2 x 64) that starts at `off` in serialized
/// transfer data: change the *number* of responses of one part.
/// Returns (name, bytes) for every shape perturbation; None if the layout is
/// not the expected one.
fn proof_shape_variants(db: &[u8], off: usize, expect1: u32, expect2: u32) -> Option<Vec<(&'static str, Vec<u8>)>> {
    let rd = |at: usize| db.get(at..at + 4).map(|b| u32::from_be_bytes(b.try_into().unwrap()));
    let l1 = off + 64;
    let n1 = rd(l1)?;
    let l2 = l1 + 4 + 64 * n1 as usize;
    let n2 = rd(l2)?;
    if n1 != expect1 || n2 != expect2 {
        return None;
    }
    let end2 = l2 + 4 + 64 * n2 as usize;
    // rebuild with new response vectors
    let build = |r1: Vec<&[u8]>, r2: Vec<&[u8]>| {
        let mut v = db[..l1].to_vec();
        v.extend_from_slice(&(r1.len() as u32).to_be_bytes());
        for x in &r1 {
            v.extend_from_slice(x);
        }
        v.extend_from_slice(&(r2.len() as u32).to_be_bytes());
        for x in &r2 {
            v.extend_from_slice(x);
        }
        v.extend_from_slice(&db[end2..]);
        v
    };
    let resp1: Vec<&[u8]> = (0..n1 as usize).map(|i| &db[l1 + 4 + 64 * i..l1 + 4 + 64 * (i + 1)]).collect();
    let resp2: Vec<&[u8]> = (0..n2 as usize).map(|i| &db[l2 + 4 + 64 * i..l2 + 4 + 64 * (i + 1)]).collect();
    let mut out = vec![];
    let mut a = resp1.clone();
    a.push(resp1[resp1.len() - 1]);
    out.push(("shape.transfer_part.extra_response", build(a, resp2.clone())));
    let mut b = resp2.clone();
    b.push(resp2[0]);
    out.push(("shape.remaining_part.extra_response", build(resp1.clone(), b)));
    out.push(("shape.transfer_part.one_dropped", build(resp1[..resp1.len() - 1].to_vec(), resp2.clone())));
    out.push(("shape.remaining_part.one_dropped", build(resp1.clone(), resp2[..resp2.len() - 1].to_vec())));
    out.push(("shape.transfer_part.all_dropped", build(vec![], resp2.clone())));
    out.push(("shape.remaining_part.all_dropped", build(resp1.clone(), vec![])));
    let mut c = resp1.clone();
    c.extend(resp2.iter().copied());
    out.push(("shape.transfer_part.responses_of_both", build(c, resp2.clone())));
    Some(out)
}

fn shifted(p: &C) -> C { p.plus_point(&C::one_point()) }

fn case_transfer(j: &mut J, r: &mut Rng, cr: &mut CR, nperturb: usize) -> u64 {
    let f = fixture();
    let (sk_s, pk_s) = keypair(cr);
    let (sk_r, pk_r) = keypair(cr);
    let (_sk_o, pk_o) = keypair(cr);
    let (b, a) = gen_pair(r);
    j.sh.hit(if a == b { "transfer.pair.equal" } else if a == 0 { "transfer.pair.zero" } else if a + 1 == b { "transfer.pair.off_by_one" } else { "transfer.pair.other" });
    // the balance is itself an aggregate of two incoming amounts
    let b1 = if b > 0 { r.below(split32(b).0 + 1) } else { 0 };
    let before = aggregate(&encrypt_amount(&f.ctx, &pk_s, Amount::from_micro_ccd(b1), cr).0, &encrypt_amount(&f.ctx, &pk_s, Amount::from_micro_ccd(b - b1), cr).0);
    let index = EncryptedAmountAggIndex::from(r.u64v());
    let input = AggregatedDecryptedAmount { agg_encrypted_amount: before.clone(), agg_amount: Amount::from_micro_ccd(b), agg_index: index };
    let base = json!({"balance": b, "transfer": a, "index": index.index, "sender_sk": hex(&to_bytes(&sk_s)), "receiver_sk": hex(&to_bytes(&sk_r)), "before": enc_json(&before)});
    let data = match vmon_core::catch(|| make_transfer_data(&f.ctx, &pk_r, &sk_s, &input, Amount::from_micro_ccd(a), cr)) {
        Ok(Some(d)) => d,
        Ok(None) => {
            j.check("transfer.produced", false, || ("make_transfer_data returned None for an amount not exceeding the balance".into(), base.clone()));
            return 0;
        }
        Err(m) => {
            j.check("transfer.produced", false, || (format!("make_transfer_data panicked for an amount not exceeding the balance: {}", m), base.clone()));
            return 0;
        }
    };
    j.check("transfer.produced", true, || (String::new(), Value::Null));
    let dcase = |d: &EncryptedAmountTransferData<C>, what: &str| json!({"base": base.clone(), "perturbation": what, "transfer_data": vmon_core::hex_short(&to_bytes(d), 4000)});
    let verify = |pk_r: &PublicKey<C>, pk_s: &PublicKey<C>, before: &EncryptedAmount<C>, d: &EncryptedAmountTransferData<C>| vmon_core::catch(|| verify_transfer_data(&f.ctx, pk_r, pk_s, before, d));
    let mut honest_expected = true;
    if broken() {
        honest_expected = false;
    }
    j.expect("transfer.verify.honest", honest_expected, verify(&pk_r, &pk_s, &before, &data), || dcase(&data, "none"));
    j.check("transfer.index_preserved", data.index.index == index.index, || ("transfer data carries a different index".into(), dcase(&data, "none")));
    // conservation
    if cheap(a) && cheap(b - a) {
        if let (Some(rem), Some(tr)) = (dec(j, "remaining", &sk_s, &data.remaining_amount), dec(j, "transferred", &sk_r, &data.transfer_amount)) {
            j.check("transfer.conservation", rem == b - a && tr == a && rem + tr == b, || (format!("remaining {} + transferred {} != balance {} (or parts wrong)", rem, tr, b), dcase(&data, "none")));
        }
    } else {
        j.sh.hit("transfer.conservation.skipped_expensive");
    }
    // serialization round trip still verifies
    let db = to_bytes(&data);
    match from_bytes::<EncryptedAmountTransferData<C>, _>(&mut std::io::Cursor::new(&db)) {
        Ok(d2) => j.expect("transfer.verify.decoded", true, verify(&pk_r, &pk_s, &before, &d2), || dcase(&d2, "serialization round trip")),
        Err(e) => j.check("transfer.serialization", false, || (format!("transfer data does not decode: {}", e), dcase(&data, "none"))),
    }
    // amount exceeding the (claimed and real) balance cannot be produced
    if b < u64::MAX {
        let over = if r.chance(1, 2) { b + 1 } else { b + 1 + r.below(u64::MAX - b) };
        match vmon_core::catch(|| make_transfer_data(&f.ctx, &pk_r, &sk_s, &input, Amount::from_micro_ccd(over), cr)) {
            Ok(x) => j.check("transfer.exceeding.none", x.is_none(), || (format!("a transfer of {} from a balance of {} was produced", over, b), base.clone())),
            Err(_) => j.sh.hit("note.prover_panic.on_exceeding_amount"),
        }
        // cheating: claim a larger plaintext than what is encrypted
        let lie = AggregatedDecryptedAmount { agg_encrypted_amount: before.clone(), agg_amount: Amount::from_micro_ccd(over), agg_index: index };
        match vmon_core::catch(|| make_transfer_data(&f.ctx, &pk_r, &sk_s, &lie, Amount::from_micro_ccd(over), cr)) {
            Ok(None) => j.sh.hit("transfer.exceeding.lie.not_produced"),
            Ok(Some(d)) => j.expect("transfer.exceeding.lie.verify", false, verify(&pk_r, &pk_s, &before, &d), || dcase(&d, "prover claimed a larger balance than encrypted")),
            Err(_) => j.sh.hit("transfer.exceeding.lie.prover_panicked"),
        }
    }
    // ---- perturbations: each must fail verification
    let mut kinds: Vec<usize> = (0..18).collect();
    r.shuffle(&mut kinds);
    for k in kinds.into_iter().take(nperturb) {
        let mut d = data.clone();
        let (mut vr, mut vs, mut vb) = (pk_r, pk_s, before.clone());
        let name: String = match k {
            0..=3 => {
                let (i, w) = (k / 2, k % 2);
                d.remaining_amount.encryptions[i] = plus_gen(&d.remaining_amount.encryptions[i], w);
                format!("perturb.remaining.chunk{}.component{}", i, w)
            }
            4..=7 => {
                let (i, w) = ((k - 4) / 2, k % 2);
                d.transfer_amount.encryptions[i] = plus_gen(&d.transfer_amount.encryptions[i], w);
                format!("perturb.transfer.chunk{}.component{}", i, w)
            }
            8 => {
                std::mem::swap(&mut d.remaining_amount, &mut d.transfer_amount);
                "perturb.amounts_swapped".into()
            }
            9 => {
                d.remaining_amount.encryptions.swap(0, 1);
                "perturb.chunks_swapped".into()
            }
            10 => {
                vs = pk_o;
                "perturb.sender_key".into()
            }
            11 => {
                vr = pk_o;
                "perturb.receiver_key".into()
            }
            12 => {
                std::mem::swap(&mut vr, &mut vs);
                "perturb.keys_swapped".into()
            }
            13 => {
                // chain semantics of the index: the aggregate up to another index
                vb = aggregate(&before, &encrypt_amount(&f.ctx, &pk_s, Amount::from_micro_ccd(r.below(3)), cr).0);
                "perturb.index.other_aggregate".into()
            }
            14 => {
                // a fresh encryption of the same balance
                vb = encrypt_amount(&f.ctx, &pk_s, Amount::from_micro_ccd(b), cr).0;
                "perturb.before.reencrypted".into()
            }
            15 => {
                // proof of another transfer spliced in
                match make_transfer_data(&f.ctx, &pk_r, &sk_s, &input, Amount::from_micro_ccd(a), cr) {
                    Some(o) => d.proof = o.proof,
                    None => continue,
                }
                "perturb.proof.spliced".into()
            }
            _ => {
                // single bit of the serialized transfer data (ciphertexts, index or proof)
                let bit = r.below(8 * db.len() as u64) as usize;
                let fb = flipped(&db, bit);
                let region = if bit / 8 < 192 {
                    "remaining"
                } else if bit / 8 < 384 {
                    "transfer"
                } else if bit / 8 < 392 {
                    "index"
                } else {
                    "proof"
                };
                match from_bytes::<EncryptedAmountTransferData<C>, _>(&mut std::io::Cursor::new(&fb)) {
                    Err(_) => {
                        j.sh.hit(&format!("perturb.bitflip.{}.undecodable", region));
                        continue;
                    }
                    Ok(d2) => {
                        if region == "index" {
                            // documented: the index is not bound by the proofs
                            match verify(&vr, &vs, &vb, &d2) {
                                Ok(true) => j.sh.hit("undemanded.index_field_only.library_accepts"),
                                Ok(false) => j.sh.hit("undemanded.index_field_only.library_rejects"),
                                Err(_) => {}
                            }
                            continue;
                        }
                        d = d2;
                        format!("perturb.bitflip.{}", region)
                    }
                }
            }
        };
        j.expect(&name, false, verify(&vr, &vs, &vb, &d), || dcase(&d, &name));
    }
    // ---- every component of every public key, separately (always run)
    for (name, vr, vs) in [
        ("perturb.pk.sender.generator", pk_r, PublicKey { generator: shifted(&pk_s.generator), key: pk_s.key }),
        ("perturb.pk.sender.key_point", pk_r, PublicKey { generator: pk_s.generator, key: shifted(&pk_s.key) }),
        ("perturb.pk.receiver.generator", PublicKey { generator: shifted(&pk_r.generator), key: pk_r.key }, pk_s),
        ("perturb.pk.receiver.key_point", PublicKey { generator: pk_r.generator, key: shifted(&pk_r.key) }, pk_s),
        ("perturb.pk.receiver.generator_random", PublicKey { generator: C::generate(cr), key: pk_r.key }, pk_s),
        ("perturb.pk.sender.generator_random", pk_r, PublicKey { generator: C::generate(cr), key: pk_s.key }),
    ] {
        j.expect(name, false, verify(&vr, &vs, &before, &data), || json!({"base": base.clone(), "perturbation": name, "receiver_pk_used": hex(&to_bytes(&vr)), "sender_pk_used": hex(&to_bytes(&vs)), "transfer_data": vmon_core::hex_short(&db, 4000)}));
    }
    // ---- shape of the accounting proof: number of responses per part (always run)
    match proof_shape_variants(&db, 392, 2, 2) {
        None => j.check("perturb.shape.layout", false, || ("serialized transfer data does not have the expected accounting-proof layout (2 + 2 responses)".into(), dcase(&data, "none"))),
        Some(vs) => {
            for (name, fb) in vs {
                let key = format!("perturb.{}", name);
                match from_bytes::<EncryptedAmountTransferData<C>, _>(&mut std::io::Cursor::new(&fb)) {
                    Err(_) => j.sh.hit(&format!("{}.undecodable", key)),
                    Ok(d2) => j.expect(&key, false, verify(&pk_r, &pk_s, &before, &d2), || dcase(&d2, &key)),
                }
            }
        }
    }
    // index field alone (documented as not proof-bound): counted
    {
        let mut d = data.clone();
        d.index = EncryptedAmountAggIndex::from(index.index.wrapping_add(1));
        match verify(&pk_r, &pk_s, &before, &d) {
            Ok(true) => j.sh.hit("undemanded.index_field_only.library_accepts"),
            Ok(false) => j.sh.hit("undemanded.index_field_only.library_rejects"),
            Err(_) => {}
        }
    }
    vmon_core::fnv(&db)
}

fn case_sec_to_pub(j: &mut J, r: &mut Rng, cr: &mut CR, nperturb: usize) -> u64 {
    let f = fixture();
    let (sk, pk) = keypair(cr);
    let (_sk_o, pk_o) = keypair(cr);
    let (b, a) = gen_pair(r);
    j.sh.hit(if a == b { "sec_to_pub.pair.equal" } else if a == 0 { "sec_to_pub.pair.zero" } else if a + 1 == b { "sec_to_pub.pair.off_by_one" } else { "sec_to_pub.pair.other" });
    let before = encrypt_amount(&f.ctx, &pk, Amount::from_micro_ccd(b), cr).0;
    let index = EncryptedAmountAggIndex::from(r.u64v());
    let input = AggregatedDecryptedAmount { agg_encrypted_amount: before.clone(), agg_amount: Amount::from_micro_ccd(b), agg_index: index };
    let base = json!({"balance": b, "transfer": a, "index": index.index, "sk": hex(&to_bytes(&sk)), "before": enc_json(&before)});
    let data = match vmon_core::catch(|| make_sec_to_pub_transfer_data(&f.ctx, &sk, &input, Amount::from_micro_ccd(a), cr)) {
        Ok(Some(d)) => d,
        Ok(None) => {
            j.check("sec_to_pub.produced", false, || ("make_sec_to_pub_transfer_data returned None for an amount not exceeding the balance".into(), base.clone()));
            return 0;
        }
        Err(m) => {
            j.check("sec_to_pub.produced", false, || (format!("make_sec_to_pub_transfer_data panicked for an amount not exceeding the balance: {}", m), base.clone()));
            return 0;
        }
    };
    j.check("sec_to_pub.produced", true, || (String::new(), Value::Null));
    let dcase = |d: &SecToPubAmountTransferData<C>, what: &str| json!({"base": base.clone(), "perturbation": what, "transfer_data": vmon_core::hex_short(&to_bytes(d), 4000)});
    let verify = |pk: &PublicKey<C>, before: &EncryptedAmount<C>, d: &SecToPubAmountTransferData<C>| vmon_core::catch(|| verify_sec_to_pub_transfer_data(&f.ctx, pk, before, d));
    j.expect("sec_to_pub.verify.honest", true, verify(&pk, &before, &data), || dcase(&data, "none"));
    j.check("sec_to_pub.public_amount", data.transfer_amount.micro_ccd() == a && data.index.index == index.index, || ("transfer data carries a different amount or index".into(), dcase(&data, "none")));
    if cheap(b - a) {
        if let Some(rem) = dec(j, "sec_to_pub remaining", &sk, &data.remaining_amount) {
            j.check("sec_to_pub.conservation", rem == b - a && rem + data.transfer_amount.micro_ccd() == b, || (format!("remaining {} + public {} != balance {}", rem, data.transfer_amount.micro_ccd(), b), dcase(&data, "none")));
        }
    } else {
        j.sh.hit("sec_to_pub.conservation.skipped_expensive");
    }
    let db = to_bytes(&data);
    match from_bytes::<SecToPubAmountTransferData<C>, _>(&mut std::io::Cursor::new(&db)) {
        Ok(d2) => j.expect("sec_to_pub.verify.decoded", true, verify(&pk, &before, &d2), || dcase(&d2, "serialization round trip")),
        Err(e) => j.check("sec_to_pub.serialization", false, || (format!("transfer data does not decode: {}", e), dcase(&data, "none"))),
    }
    if b < u64::MAX {
        let over = if r.chance(1, 2) { b + 1 } else { b + 1 + r.below(u64::MAX - b) };
        match vmon_core::catch(|| make_sec_to_pub_transfer_data(&f.ctx, &sk, &input, Amount::from_micro_ccd(over), cr)) {
            Ok(x) => j.check("sec_to_pub.exceeding.none", x.is_none(), || (format!("a transfer of {} from a balance of {} was produced", over, b), base.clone())),
            Err(_) => j.sh.hit("note.prover_panic.on_exceeding_amount"),
        }
        let lie = AggregatedDecryptedAmount { agg_encrypted_amount: before.clone(), agg_amount: Amount::from_micro_ccd(over), agg_index: index };
        match vmon_core::catch(|| make_sec_to_pub_transfer_data(&f.ctx, &sk, &lie, Amount::from_micro_ccd(over), cr)) {
            Ok(None) => j.sh.hit("sec_to_pub.exceeding.lie.not_produced"),
            Ok(Some(d)) => j.expect("sec_to_pub.exceeding.lie.verify", false, verify(&pk, &before, &d), || dcase(&d, "prover claimed a larger balance than encrypted")),
            Err(_) => j.sh.hit("sec_to_pub.exceeding.lie.prover_panicked"),
        }
    }
    let mut kinds: Vec<usize> = (0..12).collect();
    r.shuffle(&mut kinds);
    for k in kinds.into_iter().take(nperturb) {
        let mut d = data.clone();
        let (mut vk, mut vb) = (pk, before.clone());
        let name: String = match k {
            0..=3 => {
                let (i, w) = (k / 2, k % 2);
                d.remaining_amount.encryptions[i] = plus_gen(&d.remaining_amount.encryptions[i], w);
                format!("perturb.s2p.remaining.chunk{}.component{}", i, w)
            }
            4 => {
                d.transfer_amount = Amount::from_micro_ccd(a.wrapping_add(1));
                "perturb.s2p.public_amount_plus_one".into()
            }
            5 => {
                d.transfer_amount = Amount::from_micro_ccd(a ^ (1 << r.below(64)));
                "perturb.s2p.public_amount_bit".into()
            }
            6 => {
                vk = pk_o;
                "perturb.s2p.key".into()
            }
            7 => {
                vb = aggregate(&before, &encrypt_amount(&f.ctx, &pk, Amount::from_micro_ccd(r.below(3)), cr).0);
                "perturb.s2p.index.other_aggregate".into()
            }
            8 => {
                vb = encrypt_amount(&f.ctx, &pk, Amount::from_micro_ccd(b), cr).0;
                "perturb.s2p.before.reencrypted".into()
            }
            9 => {
                match make_sec_to_pub_transfer_data(&f.ctx, &sk, &input, Amount::from_micro_ccd(a), cr) {
                    Some(o) => d.proof = o.proof,
                    None => continue,
                }
                "perturb.s2p.proof.spliced".into()
            }
            _ => {
                let bit = r.below(8 * db.len() as u64) as usize;
                let fb = flipped(&db, bit);
                let region = if bit / 8 < 192 {
                    "remaining"
                } else if bit / 8 < 200 {
                    "public_amount"
                } else if bit / 8 < 208 {
                    "index"
                } else {
                    "proof"
                };
                match from_bytes::<SecToPubAmountTransferData<C>, _>(&mut std::io::Cursor::new(&fb)) {
                    Err(_) => {
                        j.sh.hit(&format!("perturb.s2p.bitflip.{}.undecodable", region));
                        continue;
                    }
                    Ok(d2) => {
                        if region == "index" {
                            match verify(&vk, &vb, &d2) {
                                Ok(true) => j.sh.hit("undemanded.index_field_only.library_accepts"),
                                Ok(false) => j.sh.hit("undemanded.index_field_only.library_rejects"),
                                Err(_) => {}
                            }
                            continue;
                        }
                        d = d2;
                        format!("perturb.s2p.bitflip.{}", region)
                    }
                }
            }
        };
        j.expect(&name, false, verify(&vk, &vb, &d), || dcase(&d, &name));
    }
    for (name, vk) in [
        ("perturb.s2p.pk.generator", PublicKey { generator: shifted(&pk.generator), key: pk.key }),
        ("perturb.s2p.pk.key_point", PublicKey { generator: pk.generator, key: shifted(&pk.key) }),
        ("perturb.s2p.pk.generator_random", PublicKey { generator: C::generate(cr), key: pk.key }),
    ] {
        j.expect(name, false, verify(&vk, &before, &data), || json!({"base": base.clone(), "perturbation": name, "pk_used": hex(&to_bytes(&vk)), "transfer_data": vmon_core::hex_short(&db, 4000)}));
    }
    match proof_shape_variants(&db, 208, 1, 2) {
        None => j.check("perturb.s2p.shape.layout", false, || ("serialized secret-to-public data does not have the expected accounting-proof layout (1 + 2 responses)".into(), dcase(&data, "none"))),
        Some(vs) => {
            for (name, fb) in vs {
                let key = format!("perturb.s2p.{}", name);
                match from_bytes::<SecToPubAmountTransferData<C>, _>(&mut std::io::Cursor::new(&fb)) {
                    Err(_) => j.sh.hit(&format!("{}.undecodable", key)),
                    Ok(d2) => j.expect(&key, false, verify(&vk_honest(&pk), &before, &d2), || dcase(&d2, &key)),
                }
            }
        }
    }
    vmon_core::fnv(&db)
}

fn vk_honest(pk: &PublicKey<C>) -> PublicKey<C> { *pk }

/// Baby-step-giant-step with tables whose size is not a power of two (the
/// repository's benchmarks use 60000 and 71583): discrete_log(base^v) == v for
/// values below, at and above the table size; decrypt_amount with such a table.
fn case_bsgs(j: &mut J, r: &mut Rng, cr: &mut CR, big: bool) -> u64 {
    let f = fixture();
    let base = if r.chance(1, 2) { *f.ctx.encryption_in_exponent_generator() } else { C::generate(cr) };
    let m: u64 = if big {
        *r.pick(&[60000u64, 71583])
    } else {
        match r.below(6) {
            0 => *r.pick(&[1u64, 2, 3, 5, 7]),
            1 => *r.pick(&[1000u64, 1023, 1025, 4095, 4097]),
            2 => 1 << r.range(1, 12), // powers of two as well
            3 => 2 * r.range(1, 3000) + 1,
            4 => 6 * r.range(1, 1000),
            _ => r.range(1, 6000),
        }
    };
    j.sh.hit(if m.is_power_of_two() { "bsgs.table.power_of_two" } else { "bsgs.table.not_power_of_two" });
    let table = match vmon_core::catch(|| BabyStepGiantStep::<C>::new(&base, m)) {
        Ok(t) => t,
        Err(e) => {
            j.inconclusive(format!("BabyStepGiantStep::new({}) panicked: {}", m, e));
            return 0;
        }
    };
    // keep the linear search below ~3000 giant steps
    let cap = m.saturating_mul(3000);
    let mut vals: Vec<(&'static str, u64)> = vec![("zero", 0), ("one", 1), ("m-1", m - 1), ("m", m), ("m+1", m + 1), ("2m+3", 2 * m + 3), ("m*m-1", m.saturating_mul(m) - 1), ("m*m", m.saturating_mul(m)), ("random", r.below(cap)), ("random", r.below(cap)), ("chunk", r.below(1 << 32))];
    vals.retain(|(_, v)| *v <= cap);
    let mut h = m;
    for (name, v) in vals {
        let pt = base.mul_by_scalar(&C::scalar_from_u64(v));
        let cls = if v < m { "below_m" } else if v == m { "at_m" } else { "above_m" };
        match vmon_core::catch(|| table.discrete_log(&pt)) {
            Ok(got) => {
                j.sh.hit(&format!("bsgs.value.{}", cls));
                let mut want = v;
                if broken() && v >= m && !m.is_power_of_two() {
                    want = v + 1;
                }
                j.check("bsgs.discrete_log", got == want, || (format!("discrete_log(base^{}) = {} with a table of size {} ({})", v, got, m, name), json!({"base": hex(&to_bytes(&base)), "table_size": m, "value": v, "library": got})));
            }
            Err(e) => j.check("bsgs.discrete_log", false, || (format!("discrete_log(base^{}) panicked with a table of size {} ({}): {}", v, m, name, e), json!({"base": hex(&to_bytes(&base)), "table_size": m, "value": v}))),
        }
        h ^= v;
    }
    // decrypt_amount through such a table (generator h of the context)
    if !big {
        let m2 = *r.pick(&[1000u64, 1023, 3000, 4097, 6000]);
        let t2 = BabyStepGiantStep::<C>::new(f.ctx.encryption_in_exponent_generator(), m2);
        let (sk, pk) = keypair(cr);
        let a = join32(r.below(m2 * 2000), r.below(m2 * 2000));
        let (enc, _) = encrypt_amount(&f.ctx, &pk, Amount::from_micro_ccd(a), cr);
        match vmon_core::catch(|| decrypt_amount(&t2, &sk, &enc).micro_ccd()) {
            Ok(d) => j.check("bsgs.decrypt_amount", d == a, || (format!("decrypt(encrypt({})) = {} with a table of size {}", a, d, m2), json!({"amount": a, "table_size": m2, "secret_key": hex(&to_bytes(&sk)), "encrypted": enc_json(&enc)}))),
            Err(e) => j.check("bsgs.decrypt_amount", false, || (format!("decrypt(encrypt({})) panicked with a table of size {}: {}", a, m2, e), json!({"amount": a, "table_size": m2, "secret_key": hex(&to_bytes(&sk)), "encrypted": enc_json(&enc)}))),
        }
    }
    h
}

fn case_chunks(j: &mut J, r: &mut Rng, cr: &mut CR) -> u64 {
    use ChunkSize::*;
    let mut h = 0u64;
    for _ in 0..20 {
        let x = r.u64v();
        for (cs, bits) in [(One, 1u32), (Two, 2), (Four, 4), (Eight, 8), (Sixteen, 16), (ThirtyTwo, 32), (SixtyFour, 64)] {
            let got = match vmon_core::catch(|| cs.u64_to_chunks(x)) {
                Ok(g) => g,
                Err(m) => {
                    // Observation O5: `tmp >>= size` with size 64 overflows the shift
                    // when overflow checks are enabled (this harness profile). Not used
                    // by encrypted amounts (32-bit chunks); counted, not judged.
                    j.sh.hit(&format!("chunks.u64_to_chunks.panic_not_judged.{}bit", bits));
                    if j.replaying {
                        println!("  u64_to_chunks({}-bit) panicked: {}", bits, m);
                    }
                    continue;
                }
            };
            let want: Vec<u64> = (0..64 / bits).map(|i| if bits == 64 { x } else { (x >> (i * bits)) & ((1u64 << bits) - 1) }).collect();
            j.check("chunks.u64_to_chunks", got == want, || (format!("u64_to_chunks({}) with {}-bit chunks", x, bits), json!({"x": x, "bits": bits, "library": got, "model": want})));
            let back = cs.chunks_to_u64(got.iter().copied());
            j.check("chunks.chunks_to_u64", back == x, || (format!("chunks_to_u64(u64_to_chunks({})) = {}", x, back), json!({"x": x, "bits": bits})));
        }
        let (lo, hi) = split32(x);
        j.check("chunks.model32", ThirtyTwo.u64_to_chunks(x) == vec![lo, hi] && ThirtyTwo.chunks_to_u64([lo, hi]) == join32(lo, hi), || ("32-bit chunking differs from (x & 0xffffffff, x >> 32)".into(), json!({"x": x})));
        h ^= x;
    }
    // scalars <-> chunks
    let s: Fr = C::generate_scalar(cr);
    for cs in [Eight, Sixteen, ThirtyTwo, SixtyFour] {
        let (chunks, back) = match vmon_core::catch(|| {
            let chunks = value_to_chunks::<C>(&s, cs);
            let back = chunks_to_value::<C>(&chunks, cs);
            (chunks, back)
        }) {
            Ok(x) => x,
            Err(m) => {
                j.sh.hit(&format!("chunks.value_to_chunks.panic_not_judged.{}bit", u8::from(cs)));
                if j.replaying {
                    println!("  value_to_chunks({}-bit) panicked: {}", u8::from(cs), m);
                }
                continue;
            }
        };
        let back_s: &Fr = &back;
        j.check("chunks.value_roundtrip", *back_s == s, || ("chunks_to_value(value_to_chunks(s)) != s".into(), json!({"scalar": hex(&to_bytes(&s)), "chunk_bits": u8::from(cs)})));
        let mut acc = Fr::zero();
        let mut factor = Fr::one();
        let mut two_pow = Fr::one();
        for _ in 0..u8::from(cs) {
            two_pow.double();
        }
        for c in &chunks {
            let mut t: Fr = **c;
            t.mul_assign(&factor);
            acc.add_assign(&t);
            factor.mul_assign(&two_pow);
        }
        j.check("chunks.value_positional", acc == s, || ("sum chunk_i * 2^(bits*i) != s".into(), json!({"scalar": hex(&to_bytes(&s)), "chunk_bits": u8::from(cs)})));
    }
    h
}

pub fn run(ctx: &ChildCtx, sh: &mut Shard) {
    let thorough = ctx.tier == vmon_core::Tier::Thorough;
    // build the fixture outside the cases (a constant of the run)
    match vmon_core::catch(|| fixture().ctx.bulletproof_generators().G_H.len()) {
        Ok(n) if n >= 64 => {}
        Ok(n) => {
            sh.inconclusive.push(format!("fixture has only {} bulletproof generators", n));
            return;
        }
        Err(m) => {
            sh.inconclusive.push(format!("could not build the fixture: {}", m));
            return;
        }
    }
    let np = if thorough { 10 } else { 7 };
    for idx in ctx.indices() {
        ctx.begin_case(idx);
        let mut r = ctx.case_rng(idx);
        let mut cr = CR(Rng::new(r.next()));
        let mut j = J { sh, idx, replaying: ctx.replaying(), sampled: false };
        let (tag, h) = match idx % 10 {
            0 | 1 | 2 => {
                // the boundary amounts of the property are exercised by every shard
                let forced = match idx {
                    0 => Some((1u64 << 32) - 1),
                    1 => Some(u64::MAX),
                    2 => Some(1u64 << 32),
                    10 => Some((1u64 << 32) + 1),
                    11 => Some(0),
                    12 => Some(1),
                    _ => None,
                };
                ("encdec", case_encdec(&mut j, &mut r, &mut cr, idx % 40 == 20, forced))
            }
            3 | 4 => {
                // every shard runs the carrying pairs of the property's boundary
                let carry: Option<(Option<(u64, u64)>, bool)> = match idx {
                    3 => Some((Some((0x1_FFFF_FFFF, 1)), true)),
                    13 => Some((Some((0xFFFF_FFFF, 1)), false)),
                    23 => Some((Some((0xFFFF_FFFF, 0xFFFF_FFFF)), false)),
                    24 => Some((Some((0x1_FFFF_FFFF, 0xFFFF_FFFF)), true)),
                    33 | 53 => Some((None, true)),
                    34 | 54 => Some((None, false)),
                    _ if idx >= 100 && idx % 100 == 43 => Some((None, true)),
                    _ if idx >= 100 && idx % 100 == 44 => Some((None, false)),
                    _ => None, // 4, 14, 43, 44, ...: aggregates without carry
                };
                match carry {
                    Some((forced, odd)) => ("aggregate_carry", case_aggregate_carry(&mut j, &mut r, &mut cr, forced, odd)),
                    None => ("aggregate", case_aggregate(&mut j, &mut r, &mut cr)),
                }
            }
            5 | 6 => ("transfer", case_transfer(&mut j, &mut r, &mut cr, np)),
            7 | 8 => ("sec_to_pub", case_sec_to_pub(&mut j, &mut r, &mut cr, np)),
            _ => {
                let a = case_chunks(&mut j, &mut r, &mut cr);
                // one table of a benchmark size per shard, small tables otherwise
                let b = case_bsgs(&mut j, &mut r, &mut cr, idx == 9);
                let c = case_bsgs(&mut j, &mut r, &mut cr, false);
                ("chunks+bsgs", a ^ b ^ c)
            }
        };
        sh.hit(&format!("cases.{}", tag));
        sh.nontrivial(h ^ vmon_core::fnv(tag.as_bytes()));
        sh.sample(|| json!({"case_kind": tag, "case_index": idx, "case_id": format!("{:016x}", h)}));
    }
}
