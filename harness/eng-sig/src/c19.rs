//! C19: BLS aggregate signatures, proofs of possession, ECVRF, PS signatures
//! (incl. blind issuance) and the ed25519 dlog proof.
//!
//! Oracle: the construction history. The model of an aggregate signature is the
//! multiset of (key, message) pairs whose signatures were aggregated; every
//! verifier must accept exactly the queries denoting that multiset, restricted
//! by its *documented* behaviour: `verify_aggregate_sig` rejects duplicate
//! messages and the empty set, `verify_aggregate_sig_trusted_keys` rejects the
//! empty key list, `verify_aggregate_sig_hybrid` is never given an input
//! outside its precondition (>= 1 message, >= 1 key per message, keys distinct
//! within a message). Single signatures / PoPs / VRF proofs / PS signatures /
//! dlog proofs: accept iff (key, message/context) equals the one used at
//! construction.
//!
//! D (deliberately not demanded):
//!  * rogue-key resistance without proofs of possession (documented
//!    requirement of the aggregate scheme);
//!  * the empty list for `verify_aggregate_sig_hybrid` (outside its
//!    precondition; documented to be accepted);
//!  * distinctness of VRF outputs for distinct inputs (the property claims
//!    determinism only) - counted, not judged;
//!  * PS messages are compared modulo trailing zero entries (`verify` pads a
//!    shorter message with zeros by construction of the scheme);
//!  * a perturbed key / signature / proof that no longer *decodes* counts as
//!    rejected;
//!  * rejection of a mismatched query holds up to coincidences of probability
//!    about 2^-250 (distinct random keys), which is accepted.
//!  * curve25519 decoders: only `ecvrf::PublicKey` documents the exclusion of
//!    small-order points, so only it is judged (reject iff not a point or small
//!    order, accept canonical large-order points); non-canonical encodings
//!    (y >= p) of large-order points and mixed-order points are counted;
//!    ed25519 verifying keys of the dlog proof and the gamma point of a VRF
//!    proof have no documented small-order check: counted only.
//!  * a panic where the construction history says *accept* is a false reject;
//!    where it says reject it is counted (`note.verifier_panic.*`), no totality demanded.
#![allow(deprecated)]
use crate::common::*;
use concordium_base::{
    aggregate_sig as agg,
    common::{from_bytes, to_bytes},
    curve_arithmetic::{Curve, Field, Pairing},
    ecvrf,
    eddsa_ed25519::{prove_dlog_ed25519, verify_dlog_ed25519, Ed25519DlogProof},
    ps_sig,
    random_oracle::RandomOracle,
};
use std::collections::BTreeMap;
use vmon_core::{json, ChildCtx, Rng, Shard, Value};

type P = concordium_base::id::constants::IpPairing;
type G1 = <P as Pairing>::G1;
type Fr = <P as Pairing>::ScalarField;

fn broken() -> bool { std::env::var_os("VMON_BREAK_C19").is_some() }

struct J<'a> {
    sh:        &'a mut Shard,
    idx:       u64,
    replaying: bool,
    sampled:   bool,
}

impl J<'_> {
    /// One oracle judgement: `got` is what the library returned (Err = panic).
    fn expect(&mut self, what: &str, expected: bool, got: Result<bool, String>, case: impl FnOnce() -> Value) {
        self.sh.evaluations += 1;
        self.sh.hit(what);
        self.sh.hit(if expected { "accept.expected" } else { "reject.expected" });
        if self.replaying {
            println!("  {} expected={} got={:?}", what, expected, got);
        }
        let mismatch = matches!(&got, Ok(b) if *b != expected) || (expected && got.is_err());
        let want_sample = !self.sampled && self.sh.samples.len() < 3;
        let c = if mismatch || want_sample { case() } else { Value::Null };
        if want_sample {
            self.sampled = true;
            self.sh.samples.push(json!({"judgement": what, "expected": expected, "library": format!("{:?}", got), "case": c.clone()}));
        }
        match got {
            Ok(b) if b == expected => {}
            Ok(b) => {
                let kind = if expected { "false-reject" } else { "false-accept" };
                let sig = format!("c19:{}:{}:{:016x}", what, kind, vmon_core::fnv(c.to_string().as_bytes()));
                self.sh.violate(self.idx, kind, sig, format!("{}: library returned {} but the construction history says {}", what, b, expected), c);
            }
            Err(m) if expected => {
                // the construction history promises acceptance; a panic is not an acceptance
                let sig = format!("c19:{}:false-reject-by-panic:{:016x}", what, vmon_core::fnv(c.to_string().as_bytes()));
                self.sh.violate(self.idx, "false-reject", sig, format!("{}: library panicked ({}) but the construction history says accept", what, m), c);
            }
            Err(_) => self.sh.hit("note.verifier_panic.on_expected_reject"),
        }
    }

    fn fail(&mut self, what: &str, detail: String, case: Value) {
        self.sh.evaluations += 1;
        let sig = format!("c19:{}:{:016x}", what, vmon_core::fnv(case.to_string().as_bytes()));
        self.sh.violate(self.idx, what, sig, detail, case);
    }
}

fn distinct_msgs(r: &mut Rng, n: usize) -> Vec<Vec<u8>> {
    let mut out: Vec<Vec<u8>> = vec![];
    while out.len() < n {
        let mut m = gen_msg(r);
        if out.len() >= 6 || r.chance(1, 3) {
            // close relatives: same prefix, different tail
            m = b"block-".to_vec();
            m.extend_from_slice(&(out.len() as u32).to_be_bytes());
            m.extend_from_slice(&r.bytes(2));
        }
        if !out.contains(&m) {
            out.push(m);
        }
    }
    out
}

struct BlsKeys {
    sks: Vec<agg::SecretKey<P>>,
    pks: Vec<agg::PublicKey<P>>,
}

fn bls_keys(cr: &mut CR, n: usize) -> BlsKeys {
    let sks: Vec<agg::SecretKey<P>> = (0..n).map(|_| agg::SecretKey::<P>::generate(cr)).collect();
    let pks = sks.iter().map(agg::PublicKey::<P>::from_secret).collect();
    BlsKeys { sks, pks }
}

type Pairs = Vec<(usize, usize)>;

fn multiset(p: &Pairs) -> BTreeMap<(usize, usize), usize> {
    let mut m = BTreeMap::new();
    for x in p {
        *m.entry(*x).or_insert(0) += 1;
    }
    m
}

fn pairs_json(keys: &BlsKeys, msgs: &[Vec<u8>], built: &Pairs, query: &Pairs, sig: &agg::Signature<P>) -> Value {
    json!({
        "keys": keys.pks.iter().map(|k| hex(&to_bytes(k))).collect::<Vec<_>>(),
        "secret_keys": keys.sks.iter().map(|k| hex(&to_bytes(k))).collect::<Vec<_>>(),
        "messages": msgs.iter().map(|m| vmon_core::hex_short(m, 80)).collect::<Vec<_>>(),
        "aggregated_pairs_key_msg": built, "query_pairs_key_msg": query, "signature": hex(&to_bytes(sig)),
    })
}

fn aggregate(keys: &BlsKeys, msgs: &[Vec<u8>], built: &Pairs) -> agg::Signature<P> {
    let mut s = agg::Signature::<P>::empty();
    for (k, m) in built {
        s = s.aggregate(keys.sks[*k].sign(&msgs[*m]));
    }
    s
}

/// Feed one query (list of (key, msg) pairs) to every verifier whose documented
/// domain contains it and compare with the multiset model.
fn query_all(j: &mut J, tag: &str, keys: &BlsKeys, msgs: &[Vec<u8>], built: &Pairs, query: &Pairs, sig: agg::Signature<P>) {
    let same = multiset(built) == multiset(query);
    let mut seen = std::collections::BTreeSet::new();
    let dup_msgs = query.iter().any(|(_, m)| !seen.insert(*m));
    // verify_aggregate_sig: total, documented: duplicates -> false, empty -> false
    {
        let mut expected = same && !dup_msgs && !query.is_empty();
        if broken() {
            expected = same && !query.is_empty();
        }
        let q: Vec<(&[u8], agg::PublicKey<P>)> = query.iter().map(|(k, m)| (&msgs[*m][..], keys.pks[*k])).collect();
        let got = vmon_core::catch(|| agg::verify_aggregate_sig::<P>(&q, sig));
        j.expect(&format!("agg.verify_aggregate_sig.{}{}", tag, if dup_msgs { ".dupmsg" } else { "" }), expected, got, || pairs_json(keys, msgs, built, query, &sig));
    }
    // trusted keys: one message
    let first_msg = query.first().map(|x| x.1);
    if let Some(m0) = first_msg {
        if query.iter().all(|(_, m)| *m == m0) {
            let pks: Vec<agg::PublicKey<P>> = query.iter().map(|(k, _)| keys.pks[*k]).collect();
            let got = vmon_core::catch(|| agg::verify_aggregate_sig_trusted_keys::<P>(&msgs[m0], &pks, sig));
            j.expect(&format!("agg.trusted_keys.{}", tag), same, got, || pairs_json(keys, msgs, built, query, &sig));
        }
    }
    // hybrid: group by message; precondition: non-empty, keys distinct within a group
    if !query.is_empty() {
        let mut groups: BTreeMap<usize, Vec<usize>> = BTreeMap::new();
        for (k, m) in query {
            groups.entry(*m).or_default().push(*k);
        }
        let pre = groups.values().all(|ks| {
            let mut s = std::collections::BTreeSet::new();
            ks.iter().all(|k| s.insert(*k))
        });
        if pre {
            let gk: Vec<(usize, Vec<agg::PublicKey<P>>)> = groups.iter().map(|(m, ks)| (*m, ks.iter().map(|k| keys.pks[*k]).collect())).collect();
            let q: Vec<(&[u8], &[agg::PublicKey<P>])> = gk.iter().map(|(m, ks)| (&msgs[*m][..], &ks[..])).collect();
            let got = vmon_core::catch(|| agg::verify_aggregate_sig_hybrid::<P>(&q, sig));
            j.expect(&format!("agg.hybrid.{}", tag), same, got, || pairs_json(keys, msgs, built, query, &sig));
            let maxg = groups.values().map(|g| g.len()).max().unwrap_or(0) as u64;
            j.sh.max("max.hybrid_group", maxg);
        } else {
            j.sh.hit("agg.hybrid.outside_precondition_not_fed");
        }
    }
}

/// Mutations of a query; each yields a different multiset.
fn mutate(r: &mut Rng, q: &Pairs, nkeys: usize, nmsgs: usize) -> Vec<(&'static str, Pairs)> {
    let mut out = vec![];
    if !q.is_empty() {
        let mut a = q.clone();
        a.remove(r.below(a.len() as u64) as usize);
        if !a.is_empty() {
            out.push(("drop", a));
        }
        let mut b = q.clone();
        let i = r.below(b.len() as u64) as usize;
        b[i].0 = (b[i].0 + 1 + r.below(nkeys as u64 - 1) as usize) % nkeys;
        out.push(("other_key", b));
        if nmsgs > 1 {
            let mut c = q.clone();
            let i = r.below(c.len() as u64) as usize;
            c[i].1 = (c[i].1 + 1 + r.below(nmsgs as u64 - 1) as usize) % nmsgs;
            out.push(("other_msg", c));
        }
        // swap the keys of two pairs with different keys and messages
        let mut d = q.clone();
        'o: for x in 0..d.len() {
            for y in x + 1..d.len() {
                if d[x].0 != d[y].0 && d[x].1 != d[y].1 {
                    let t = d[x].0;
                    d[x].0 = d[y].0;
                    d[y].0 = t;
                    out.push(("swap_keys", d));
                    break 'o;
                }
            }
        }
    }
    let mut e = q.clone();
    e.push((r.below(nkeys as u64) as usize, r.below(nmsgs as u64) as usize));
    out.push(("add", e));
    out
}

fn case_bls_single(j: &mut J, r: &mut Rng, cr: &mut CR) -> u64 {
    let keys = bls_keys(cr, 3);
    let mut msgs = distinct_msgs(r, 3);
    if r.chance(1, 4) {
        msgs[2] = msgs[0].clone(); // equal messages: model compares by value
    }
    let sigs: Vec<Vec<agg::Signature<P>>> = (0..3).map(|i| (0..3).map(|m| keys.sks[i].sign(&msgs[m])).collect()).collect();
    let case = |i: usize, m: usize, a: usize, b: usize| json!({"signed_with_key": hex(&to_bytes(&keys.pks[i])), "signed_message": hex(&msgs[m]), "verified_with_key": hex(&to_bytes(&keys.pks[a])), "verified_message": hex(&msgs[b]), "signature": hex(&to_bytes(&sigs[i][m]))});
    // diagonal + sampled off-diagonal
    for i in 0..3 {
        let got = vmon_core::catch(|| keys.pks[i].verify(&msgs[i], sigs[i][i]));
        j.expect("bls.verify.matrix", true, got, || case(i, i, i, i));
    }
    for _ in 0..9 {
        let (i, m, a, b) = (r.below(3) as usize, r.below(3) as usize, r.below(3) as usize, r.below(3) as usize);
        let expected = i == a && msgs[m] == msgs[b];
        let got = vmon_core::catch(|| keys.pks[a].verify(&msgs[b], sigs[i][m]));
        j.expect("bls.verify.matrix", expected, got, || case(i, m, a, b));
    }
    // determinism and serialization
    {
        let s2 = keys.sks[0].sign(&msgs[0]);
        if s2 != sigs[0][0] {
            j.fail("bls.sign.nondeterministic", "two signatures of the same (key, message) differ".into(), case(0, 0, 0, 0));
        }
        let sb = to_bytes(&sigs[0][0]);
        match from_bytes::<agg::Signature<P>, _>(&mut std::io::Cursor::new(&sb)) {
            Ok(s) => {
                let got = vmon_core::catch(|| keys.pks[0].verify(&msgs[0], s));
                j.expect("bls.verify.decoded", true, got, || case(0, 0, 0, 0));
            }
            Err(e) => j.fail("bls.signature.undecodable", format!("an honest signature does not decode: {}", e), json!({"signature": hex(&sb)})),
        }
    }
    // group-level perturbations of the signature (these always decode)
    for (name, s) in [("doubled", sigs[1][1].aggregate(sigs[1][1])), ("plus_other", sigs[1][1].aggregate(sigs[0][0])), ("empty", agg::Signature::<P>::empty())] {
        let got = vmon_core::catch(|| keys.pks[1].verify(&msgs[1], s));
        j.expect("bls.perturb.signature", false, got, || json!({"key": hex(&to_bytes(&keys.pks[1])), "message": hex(&msgs[1]), "perturbation": name, "signature": hex(&to_bytes(&s))}));
    }
    // single-bit flips
    let sb = to_bytes(&sigs[1][1]);
    let kb = to_bytes(&keys.pks[1]);
    for _ in 0..3 {
        let bit = r.below(8 * sb.len() as u64) as usize;
        let f = flipped(&sb, bit);
        match from_bytes::<agg::Signature<P>, _>(&mut std::io::Cursor::new(&f)) {
            Err(_) => j.sh.hit("bls.flip.signature.undecodable"),
            Ok(s) => {
                let got = vmon_core::catch(|| keys.pks[1].verify(&msgs[1], s));
                j.expect("bls.flip.signature", false, got, || json!({"key": hex(&kb), "message": hex(&msgs[1]), "flipped_signature": hex(&f), "bit": bit}));
            }
        }
        let bit = r.below(8 * kb.len() as u64) as usize;
        let f = flipped(&kb, bit);
        match from_bytes::<agg::PublicKey<P>, _>(&mut std::io::Cursor::new(&f)) {
            Err(_) => j.sh.hit("bls.flip.key.undecodable"),
            Ok(k) => {
                let got = vmon_core::catch(|| k.verify(&msgs[1], sigs[1][1]));
                j.expect("bls.flip.key", false, got, || json!({"flipped_key": hex(&f), "message": hex(&msgs[1]), "signature": hex(&sb), "bit": bit}));
            }
        }
        let mut m = msgs[1].clone();
        if m.is_empty() {
            m.push(0)
        } else {
            let bit = r.below(8 * m.len() as u64) as usize;
            flip(&mut m, bit);
        }
        let got = vmon_core::catch(|| keys.pks[1].verify(&m, sigs[1][1]));
        j.expect("bls.flip.message", false, got, || json!({"key": hex(&kb), "flipped_message": hex(&m), "signature": hex(&sb)}));
    }
    vmon_core::fnv(&kb) ^ vmon_core::fnv(&msgs[0])
}

fn case_pop(j: &mut J, r: &mut Rng, cr: &mut CR) -> u64 {
    let keys = bls_keys(cr, 2);
    let ctx1 = gen_msg(r);
    let mut ctx2 = ctx1.clone();
    ctx2.push(1);
    let proof = keys.sks[0].prove(cr, &mut RandomOracle::domain(&ctx1));
    let pb = to_bytes(&proof);
    let case = || json!({"proven_key": hex(&to_bytes(&keys.pks[0])), "other_key": hex(&to_bytes(&keys.pks[1])), "context": hex(&ctx1), "other_context": hex(&ctx2), "proof": hex(&pb)});
    let got = vmon_core::catch(|| keys.pks[0].check_proof(&mut RandomOracle::domain(&ctx1), &proof));
    j.expect("pop.same_key_same_context", true, got, case);
    let got = vmon_core::catch(|| keys.pks[1].check_proof(&mut RandomOracle::domain(&ctx1), &proof));
    j.expect("pop.other_key", false, got, case);
    let got = vmon_core::catch(|| keys.pks[0].check_proof(&mut RandomOracle::domain(&ctx2), &proof));
    j.expect("pop.other_context", false, got, case);
    let got = vmon_core::catch(|| keys.pks[0].check_proof(&mut RandomOracle::empty(), &proof));
    j.expect("pop.other_context", ctx1.is_empty(), got, case);
    for _ in 0..3 {
        let bit = r.below(8 * pb.len() as u64) as usize;
        let f = flipped(&pb, bit);
        match from_bytes::<agg::Proof<P>, _>(&mut std::io::Cursor::new(&f)) {
            Err(_) => j.sh.hit("pop.flip.undecodable"),
            Ok(p2) => {
                let got = vmon_core::catch(|| keys.pks[0].check_proof(&mut RandomOracle::domain(&ctx1), &p2));
                j.expect("pop.flip.proof", false, got, || json!({"key": hex(&to_bytes(&keys.pks[0])), "context": hex(&ctx1), "flipped_proof": hex(&f), "bit": bit}));
            }
        }
    }
    vmon_core::fnv(&pb)
}

/// Aggregates over distinct messages (keys may repeat), with duplicates of
/// messages, and the empty set.
fn case_agg_multi(j: &mut J, r: &mut Rng, cr: &mut CR, sizes: &[usize]) -> u64 {
    let n = *r.pick(sizes);
    let nkeys = (n.min(6)).max(2) + 1;
    let keys = bls_keys(cr, nkeys);
    let msgs = distinct_msgs(r, n + 1);
    // one pair per message 0..n, keys may repeat
    let built: Pairs = (0..n).map(|m| (r.below(nkeys as u64) as usize, m)).collect();
    let sig = aggregate(&keys, &msgs, &built);
    j.sh.hit(&format!("agg.size.{}", n));
    let mut shuffled = built.clone();
    r.shuffle(&mut shuffled);
    query_all(j, "exact", &keys, &msgs, &built, &shuffled, sig);
    let muts = mutate(r, &built, nkeys, n + 1);
    let take = if n > 20 { 1 } else { 3 };
    for (name, q) in muts.into_iter().take(take) {
        query_all(j, &format!("mut.{}", name), &keys, &msgs, &built, &q, sig);
    }
    // other signature for the right query
    if n <= 20 {
        let extra = (r.below(nkeys as u64) as usize, n);
        let sig2 = sig.aggregate(keys.sks[extra.0].sign(&msgs[extra.1]));
        query_all(j, "sig_plus_one", &keys, &msgs, &{
            let mut b = built.clone();
            b.push(extra);
            b
        }, &built, sig2);
    }
    // duplicate messages: two different keys sign the same message (n small)
    if n <= 3 {
        let mut b2 = built.clone();
        let dupm = r.below(n as u64) as usize;
        let other = (b2[dupm].0 + 1) % nkeys;
        b2.push((other, dupm));
        let s2 = aggregate(&keys, &msgs, &b2);
        query_all(j, "dup_message", &keys, &msgs, &b2, &b2, s2);
        // the same key signs the same message twice: only verify_aggregate_sig
        // and trusted_keys are in-domain (hybrid requires distinct keys per message)
        let mut b3 = built.clone();
        b3.push(built[dupm]);
        let s3 = aggregate(&keys, &msgs, &b3);
        query_all(j, "dup_pair", &keys, &msgs, &b3, &b3, s3);
        // ... and the signature with the pair counted twice does not verify for the set
        query_all(j, "dup_pair_vs_set", &keys, &msgs, &b3, &built, s3);
    }
    // empty set
    if n <= 2 {
        let empty: Pairs = vec![];
        let got = vmon_core::catch(|| agg::verify_aggregate_sig::<P>(&[], agg::Signature::<P>::empty()));
        j.expect("agg.verify_aggregate_sig.empty", false, got, || json!({"query": "empty", "signature": "Signature::empty()"}));
        let got = vmon_core::catch(|| agg::verify_aggregate_sig::<P>(&[], sig));
        j.expect("agg.verify_aggregate_sig.empty", false, got, || json!({"query": "empty", "signature": hex(&to_bytes(&sig))}));
        let got = vmon_core::catch(|| agg::verify_aggregate_sig_trusted_keys::<P>(&msgs[0], &[], agg::Signature::<P>::empty()));
        j.expect("agg.trusted_keys.empty", false, got, || json!({"keys": "empty", "signature": "Signature::empty()"}));
        // the empty aggregate is not a signature of a non-empty set
        query_all(j, "empty_sig_for_set", &keys, &msgs, &empty, &built, agg::Signature::<P>::empty());
    }
    vmon_core::fnv(&to_bytes(&sig))
}

/// Many signers of one message (finalization shape): sizes cross the rayon
/// threshold of 150.
fn case_agg_same_msg(j: &mut J, r: &mut Rng, cr: &mut CR, sizes: &[usize]) -> u64 {
    let n = *r.pick(sizes);
    let keys = bls_keys(cr, n + 2);
    let msgs = distinct_msgs(r, 2);
    let built: Pairs = (0..n).map(|k| (k, 0)).collect();
    let sig = aggregate(&keys, &msgs, &built);
    j.sh.hit(&format!("agg.same_msg.size.{}", n));
    let mut q = built.clone();
    r.shuffle(&mut q);
    // verify_aggregate_sig is expensive for many pairs and rejects early on duplicates: feed it up to 20
    let feed = |j: &mut J, tag: &str, built: &Pairs, q: &Pairs, sig: agg::Signature<P>| {
        if q.len() <= 20 {
            query_all(j, tag, &keys, &msgs, built, q, sig)
        } else {
            let same = multiset(built) == multiset(q);
            let pks: Vec<agg::PublicKey<P>> = q.iter().map(|(k, _)| keys.pks[*k]).collect();
            let got = vmon_core::catch(|| agg::verify_aggregate_sig_trusted_keys::<P>(&msgs[0], &pks, sig));
            j.expect(&format!("agg.trusted_keys.{}", tag), same, got, || pairs_json(&keys, &msgs, built, q, &sig));
            if [150, 151, 200, 301].contains(&pks.len()) {
                j.sh.hit(&format!("agg.trusted_keys.keys_per_message.{}.{}", pks.len(), if same { "accept" } else { "reject" }));
            }
            let mut s = std::collections::BTreeSet::new();
            if q.iter().all(|(k, _)| s.insert(*k)) {
                let qq: Vec<(&[u8], &[agg::PublicKey<P>])> = vec![(&msgs[0][..], &pks[..])];
                let got = vmon_core::catch(|| agg::verify_aggregate_sig_hybrid::<P>(&qq, sig));
                j.expect(&format!("agg.hybrid.{}", tag), same, got, || pairs_json(&keys, &msgs, built, q, &sig));
                if [150, 151, 200, 301].contains(&pks.len()) {
                    j.sh.hit(&format!("agg.hybrid.keys_per_message.{}.{}", pks.len(), if same { "accept" } else { "reject" }));
                }
                j.sh.max("max.hybrid_group", pks.len() as u64);
            }
        }
    };
    feed(j, "same_msg.exact", &built, &q, sig);
    // one signer missing / one extra / one replaced / other message
    let mut a = built.clone();
    a.pop();
    if !a.is_empty() {
        feed(j, "same_msg.mut.drop", &built, &a, sig);
    }
    let mut b = built.clone();
    b.push((n, 0));
    feed(j, "same_msg.mut.add", &built, &b, sig);
    let mut c = built.clone();
    let i = r.below(n as u64) as usize;
    c[i].0 = n + 1;
    feed(j, "same_msg.mut.other_key", &built, &c, sig);
    let d: Pairs = built.iter().map(|(k, _)| (*k, 1)).collect();
    // (trusted_keys reads the message of the first pair: use msgs[1])
    {
        let pks: Vec<agg::PublicKey<P>> = d.iter().map(|(k, _)| keys.pks[*k]).collect();
        let got = vmon_core::catch(|| agg::verify_aggregate_sig_trusted_keys::<P>(&msgs[1], &pks, sig));
        j.expect("agg.trusted_keys.same_msg.mut.other_msg", false, got, || pairs_json(&keys, &msgs, &built, &d, &sig));
    }
    // a key that signed twice (duplicate key): trusted_keys with the key listed twice
    if n <= 17 {
        let mut b2 = built.clone();
        b2.push(built[0]);
        let s2 = aggregate(&keys, &msgs, &b2);
        feed(j, "same_msg.dup_key", &b2, &b2, s2);
        feed(j, "same_msg.dup_key_vs_set", &b2, &built, s2);
    }
    vmon_core::fnv(&to_bytes(&sig))
}

fn case_vrf(j: &mut J, r: &mut Rng, cr: &mut CR) -> u64 {
    let kps: Vec<ecvrf::Keypair> = (0..3).map(|_| ecvrf::Keypair::generate(cr)).collect();
    let msgs = distinct_msgs(r, 3);
    let proofs: Vec<Vec<ecvrf::Proof>> = (0..3).map(|i| (0..3).map(|m| kps[i].prove(&msgs[m])).collect()).collect();
    let case = |i: usize, m: usize, a: usize, b: usize| json!({"proof_key": hex(&to_bytes(&kps[i].public)), "proof_message": hex(&msgs[m]), "verified_with_key": hex(&to_bytes(&kps[a].public)), "verified_message": hex(&msgs[b]), "proof": hex(&to_bytes(&proofs[i][m]))});
    for i in 0..3 {
        for m in 0..3 {
            for a in 0..3 {
                for b in 0..3 {
                    let expected = if broken() { i == a } else { i == a && m == b };
                    let got = vmon_core::catch(|| kps[a].public.verify(&proofs[i][m], &msgs[b]));
                    j.expect("vrf.verify.matrix", expected, got, || case(i, m, a, b));
                }
            }
        }
    }
    // determinism of the proof and of the output; SecretKey::prove == Keypair::prove
    let mut outs = std::collections::BTreeSet::new();
    for i in 0..3 {
        for m in 0..3 {
            let p2 = kps[i].prove(&msgs[m]);
            let p3 = kps[i].secret.prove(&kps[i].public, &msgs[m]);
            j.sh.evaluations += 1;
            j.sh.hit("vrf.determinism");
            if p2.to_hash() != proofs[i][m].to_hash() || p3.to_hash() != proofs[i][m].to_hash() || to_bytes(&p2) != to_bytes(&proofs[i][m]) {
                j.fail("vrf.nondeterministic", "two proofs of the same (key, message) give different outputs".into(), case(i, m, i, m));
            }
            // output survives serialization
            let pb = to_bytes(&proofs[i][m]);
            if pb.len() != ecvrf::PROOF_LENGTH {
                j.fail("vrf.proof.length", format!("proof serializes to {} bytes", pb.len()), case(i, m, i, m));
            }
            match from_bytes::<ecvrf::Proof, _>(&mut std::io::Cursor::new(&pb)) {
                Ok(q) => {
                    if q.to_hash() != proofs[i][m].to_hash() {
                        j.fail("vrf.output.changed_by_serialization", "to_hash differs after a serialization round trip".into(), case(i, m, i, m));
                    }
                    let got = vmon_core::catch(|| kps[i].public.verify(&q, &msgs[m]));
                    j.expect("vrf.verify.decoded", true, got, || case(i, m, i, m));
                }
                Err(e) => j.fail("vrf.proof.undecodable", format!("honest proof does not decode: {}", e), case(i, m, i, m)),
            }
            if !outs.insert(proofs[i][m].to_hash().to_vec()) {
                j.sh.hit("vrf.output.collision_not_judged");
            }
        }
    }
    // bit flips
    let pb = to_bytes(&proofs[0][0]);
    let kb = to_bytes(&kps[0].public);
    for _ in 0..6 {
        let bit = r.below(8 * pb.len() as u64) as usize;
        let f = flipped(&pb, bit);
        match from_bytes::<ecvrf::Proof, _>(&mut std::io::Cursor::new(&f)) {
            Err(_) => j.sh.hit("vrf.flip.proof.undecodable"),
            Ok(q) => {
                let got = vmon_core::catch(|| kps[0].public.verify(&q, &msgs[0]));
                j.expect("vrf.flip.proof", false, got, || json!({"key": hex(&kb), "message": hex(&msgs[0]), "flipped_proof": hex(&f), "bit": bit}));
            }
        }
        let bit = r.below(8 * kb.len() as u64) as usize;
        let f = flipped(&kb, bit);
        match from_bytes::<ecvrf::PublicKey, _>(&mut std::io::Cursor::new(&f)) {
            Err(_) => j.sh.hit("vrf.flip.key.undecodable"),
            Ok(k) => {
                let got = vmon_core::catch(|| k.verify(&proofs[0][0], &msgs[0]));
                j.expect("vrf.flip.key", false, got, || json!({"flipped_key": hex(&f), "message": hex(&msgs[0]), "proof": hex(&pb), "bit": bit}));
            }
        }
        let mut m = msgs[0].clone();
        if m.is_empty() {
            m.push(0)
        } else {
            let bit = r.below(8 * m.len() as u64) as usize;
            flip(&mut m, bit);
        }
        let got = vmon_core::catch(|| kps[0].public.verify(&proofs[0][0], &m));
        j.expect("vrf.flip.message", false, got, || json!({"key": hex(&kb), "flipped_message": hex(&m), "proof": hex(&pb)}));
    }
    vmon_core::fnv(&pb)
}

// ---------------------------------------------------------------- curve25519 point encodings
//
// Independent classification of a 32-byte string as an Edwards25519 point
// (RFC 8032 section 5.1.3) over num-bigint: on-curve test by the curve equation,
// small order by three affine doublings. Nothing of curve25519-dalek's
// `decompress` / `is_small_order` is used by the oracle.
use crate::c20::{fneg, p25519, sqrt_ratio_m1};
use num_bigint::BigUint;
use num_traits::{One, Zero};

struct EdClass {
    on_curve:    bool,
    small_order: bool,
    /// y < p and no sign bit on x = 0
    canonical:   bool,
}

fn ed_d(p: &BigUint) -> BigUint { fneg(&(BigUint::from(121665u32) * BigUint::from(121666u32).modpow(&(p - BigUint::from(2u32)), p) % p), p) }

fn ed_add(x1: &BigUint, y1: &BigUint, x2: &BigUint, y2: &BigUint, p: &BigUint, d: &BigUint) -> (BigUint, BigUint) {
    let inv = |a: &BigUint| a.modpow(&(p - BigUint::from(2u32)), p);
    let t = d * x1 % p * x2 % p * y1 % p * y2 % p;
    let x3 = (x1 * y2 + y1 * x2) % p * inv(&((BigUint::one() + &t) % p)) % p;
    let y3 = (y1 * y2 + x1 * x2) % p * inv(&((BigUint::one() + p - &t) % p)) % p;
    (x3, y3)
}

fn classify_ed(b: &[u8]) -> EdClass {
    let p = p25519();
    let d = ed_d(&p);
    let sign = b[31] >> 7 == 1;
    let mut yb = b.to_vec();
    yb[31] &= 0x7f;
    let y_raw = BigUint::from_bytes_le(&yb);
    let canonical_y = y_raw < p;
    let y = &y_raw % &p;
    let yy = &y * &y % &p;
    let u = (&yy + &p - BigUint::one()) % &p;
    let v = (&d * &yy + BigUint::one()) % &p;
    let (is_square, mut x) = sqrt_ratio_m1(&u, &v, &p);
    if !is_square {
        return EdClass { on_curve: false, small_order: false, canonical: canonical_y };
    }
    let sign_on_zero = x.is_zero() && sign;
    if sign && !x.is_zero() {
        x = &p - &x; // sqrt_ratio_m1 returns the even root
    }
    let (mut px, mut py) = (x, y);
    for _ in 0..3 {
        let (a, b2) = ed_add(&px, &py, &px, &py, &p, &d);
        px = a;
        py = b2;
    }
    EdClass { on_curve: true, small_order: px.is_zero() && py.is_one(), canonical: canonical_y && !sign_on_zero }
}

/// Every encoding that curve25519 decoders may map to a point of small order:
/// the 8 torsion points in canonical form, with the sign bit set when x = 0,
/// and with y + p when that still fits in 255 bits (14 strings in total).
fn small_order_encodings() -> Vec<(String, [u8; 32])> {
    let p = p25519();
    let mut out = vec![];
    for (i, t) in curve25519_dalek::constants::EIGHT_TORSION.iter().enumerate() {
        let enc = t.compress().to_bytes();
        let sign = enc[31] >> 7;
        let mut yb = enc;
        yb[31] &= 0x7f;
        let y = BigUint::from_bytes_le(&yb);
        let x_is_zero = i % 4 == 0;
        let mut ys = vec![(y.clone(), "")];
        if (&y + &p).bits() <= 255 {
            ys.push((&y + &p, ".y_plus_p"));
        }
        for (yv, yn) in ys {
            let signs: Vec<u8> = if x_is_zero { vec![sign, 1 - sign] } else { vec![sign] };
            for (k, sg) in signs.into_iter().enumerate() {
                let mut e = yv.to_bytes_le();
                e.resize(32, 0);
                e[31] |= sg << 7;
                out.push((format!("torsion{}{}{}", i, yn, if k == 1 { ".sign_flipped" } else { "" }), <[u8; 32]>::try_from(&e[..]).unwrap()));
            }
        }
    }
    out
}

/// What a decodable small-order VRF key means: a proof (identity, c, s) with
/// c = 0 mod 8 verifies for any message. Only reached when the decoder
/// accepted such a key; used to describe the consequence in the violation.
fn forge_with_small_order_key(pk: &ecvrf::PublicKey, msg: &[u8]) -> Option<bool> {
    use curve25519_dalek::{constants::ED25519_BASEPOINT_POINT, edwards::EdwardsPoint, scalar::Scalar, traits::Identity};
    let h = pk.hash_to_curve(msg)?;
    let gamma = EdwardsPoint::identity();
    for k in 1u64..400 {
        let s = Scalar::from(k);
        let c = ecvrf::hash_points(&[h.compress(), gamma.compress(), (s * ED25519_BASEPOINT_POINT).compress(), (s * h).compress()]);
        if c.as_bytes()[0] & 7 == 0 {
            let proof = ecvrf::Proof(gamma, c, s);
            return Some(pk.verify(&proof, msg));
        }
    }
    None
}

fn case_curve25519_keys(j: &mut J, r: &mut Rng, cr: &mut CR) -> u64 {
    use curve25519_dalek::edwards::CompressedEdwardsY;
    let p = p25519();
    let honest = ecvrf::Keypair::generate(cr);
    let hb: [u8; 32] = *honest.public.as_bytes();
    let mut cands: Vec<(String, [u8; 32], bool)> = vec![]; // (origin, bytes, judge acceptance)
    for (name, e) in small_order_encodings() {
        cands.push((format!("small-order.{}", name), e, true));
    }
    cands.push(("honest".into(), hb, true));
    // honest point plus a torsion point: large order, not small order. Acceptance is
    // library behaviour, not a documented promise: counted only.
    if let Some(pt) = CompressedEdwardsY(hb).decompress() {
        let t = curve25519_dalek::constants::EIGHT_TORSION[r.range(1, 7) as usize];
        cands.push(("mixed-order".into(), (pt + t).compress().to_bytes(), false));
    }
    for _ in 0..6 {
        let mut e = r.bytes(32);
        if r.chance(1, 4) {
            e[31] |= 0x7f; // large y
        }
        cands.push(("random-bytes".into(), <[u8; 32]>::try_from(&e[..]).unwrap(), true));
    }
    for _ in 0..4 {
        let bit = r.below(256) as usize;
        cands.push(("honest-one-bit-flipped".into(), <[u8; 32]>::try_from(&flipped(&hb, bit)[..]).unwrap(), true));
    }
    for _ in 0..4 {
        // y in [p, 2^255): 19 values, both signs
        let mut e = (&p + BigUint::from(r.below(19))).to_bytes_le();
        e.resize(32, 0);
        e[31] |= (r.below(2) as u8) << 7;
        cands.push(("y-not-below-p".into(), <[u8; 32]>::try_from(&e[..]).unwrap(), true));
    }
    for _ in 0..3 {
        let mut e = BigUint::from(r.below(64)).to_bytes_le();
        e.resize(32, 0);
        e[31] |= (r.below(2) as u8) << 7;
        cands.push(("small-y".into(), <[u8; 32]>::try_from(&e[..]).unwrap(), true));
    }
    let mut h = 0u64;
    for (origin, b, judge_accept) in cands {
        h ^= vmon_core::fnv(&b);
        let cl = classify_ed(&b);
        let class = if !cl.on_curve {
            "not-on-curve"
        } else if cl.small_order && !broken() {
            "small-order"
        } else if !cl.canonical {
            "noncanonical-large-order"
        } else {
            "valid"
        };
        // ---- VRF public key: documented to reject small order (and anything that is not a point)
        let got = vmon_core::catch(|| from_bytes::<ecvrf::PublicKey, _>(&mut std::io::Cursor::new(&b[..])));
        j.sh.hit(&format!("vrf.key.decode.class.{}", class));
        j.sh.hit(&format!("vrf.key.decode.origin.{}", origin.split('.').next().unwrap_or("")));
        match got {
            Err(m) => {
                if j.sh.inconclusive.len() < 5 {
                    j.sh.inconclusive.push(format!("ecvrf::PublicKey decoder panicked on {}: {}", hex(&b), m));
                }
            }
            Ok(res) => {
                let expected: Option<bool> = match class {
                    "not-on-curve" | "small-order" => Some(false),
                    "valid" if judge_accept => Some(true),
                    _ => None,
                };
                match expected {
                    None => j.sh.hit(&format!("vrf.key.decode.not_judged.{}.{}", class, if res.is_ok() { "accepted" } else { "rejected" })),
                    Some(exp) => {
                        j.sh.evaluations += 1;
                        j.sh.hit("vrf.key.decode");
                        j.sh.hit(if exp { "accept.expected" } else { "reject.expected" });
                        if j.replaying {
                            println!("  vrf.key.decode {} class={} expected={} got={}", origin, class, exp, res.is_ok());
                        }
                        if res.is_ok() != exp {
                            let mut detail = format!("ecvrf::PublicKey decoder {} {} (independent classification: {}, candidate {})", if res.is_ok() { "ACCEPTED" } else { "REJECTED" }, hex(&b), class, origin);
                            if let (Ok(k), "small-order") = (&res, class) {
                                let msg = b"any message";
                                detail.push_str(&format!("; verify_key() = {}; a proof (identity, c = 0 mod 8, s) forged without any secret for message {:?} verifies: {:?}", k.verify_key(), String::from_utf8_lossy(msg), vmon_core::catch(|| forge_with_small_order_key(k, msg)).ok().flatten()));
                            }
                            j.sh.violate(j.idx, if exp { "false-reject" } else { "false-accept" }, format!("c19:vrf.key.decode:{}:{}", class, hex(&b)), detail, json!({"type": "ecvrf::PublicKey", "bytes": hex(&b), "classification": class, "candidate_kind": origin, "library_accepts": res.is_ok()}));
                        }
                    }
                }
                if let Ok(k) = &res {
                    if class == "valid" {
                        let ok = to_bytes(k) == b && k.verify_key();
                        j.sh.evaluations += 1;
                        j.sh.hit("vrf.key.roundtrip");
                        if !ok {
                            j.fail("vrf.key.roundtrip", "an accepted canonical key does not re-encode to itself or fails verify_key()".into(), json!({"bytes": hex(&b), "reencoded": hex(&to_bytes(k)), "verify_key": k.verify_key()}));
                        }
                    }
                }
            }
        }
        // ---- other curve25519 decoders in the C19 anchors: no small-order check is
        // documented for them (ed25519 verifying keys used by the dlog proof, the gamma
        // point of a VRF proof). Counted, not judged.
        if class == "small-order" {
            j.sh.hit(if ed25519_dalek::VerifyingKey::from_bytes(&b).is_ok() { "dlog.key.small_order.decodes_not_judged" } else { "dlog.key.small_order.rejected_not_judged" });
            let mut pb = b.to_vec();
            pb.extend_from_slice(&[0u8; 48]);
            j.sh.hit(if from_bytes::<ecvrf::Proof, _>(&mut std::io::Cursor::new(&pb)).is_ok() { "vrf.proof.small_order_gamma.decodes_not_judged" } else { "vrf.proof.small_order_gamma.rejected_not_judged" });
        }
    }
    h
}

fn ps_scalar(r: &mut Rng, cr: &mut CR) -> Fr {
    match r.below(8) {
        0 => Fr::zero(),
        1 => Fr::one(),
        2 => {
            let mut x = Fr::zero();
            x.sub_assign(&Fr::one());
            x
        }
        3 => G1::scalar_from_u64(r.u64v()),
        _ => P::generate_scalar(cr),
    }
}

fn strip(v: &[Fr]) -> Vec<Fr> {
    let mut v = v.to_vec();
    while v.last().map_or(false, |x| x.is_zero()) {
        v.pop();
    }
    v
}

fn ps_msg_json(v: &[Fr]) -> Value { json!(v.iter().map(|x| hex(&to_bytes(x))).collect::<Vec<_>>()) }

fn case_ps(j: &mut J, r: &mut Rng, cr: &mut CR) -> u64 {
    let klen = r.range(1, 6) as usize;
    let n = r.range(0, klen as u64) as usize;
    let sk = ps_sig::SecretKey::<P>::generate(klen, cr);
    let pk = ps_sig::PublicKey::<P>::from(&sk);
    let sk2 = ps_sig::SecretKey::<P>::generate(klen, cr);
    let pk2 = ps_sig::PublicKey::<P>::from(&sk2);
    let ms: Vec<Fr> = (0..n).map(|_| ps_scalar(r, cr)).collect();
    j.sh.hit(&format!("ps.message_len.{}", n));
    // alternatives
    let mut alts: Vec<(&'static str, Vec<Fr>)> = vec![];
    if n > 0 {
        let mut a = ms.clone();
        let i = r.below(n as u64) as usize;
        a[i].add_assign(&Fr::one());
        alts.push(("one_entry_changed", a));
        let mut b = ms.clone();
        b.pop();
        alts.push(("truncated", b));
    }
    if n >= 2 {
        let mut c = ms.clone();
        c.swap(0, n - 1);
        alts.push(("permuted", c));
    }
    if n < klen {
        let mut d = ms.clone();
        d.push(P::generate_non_zero_scalar(cr));
        alts.push(("extended", d));
        let mut e = ms.clone();
        e.push(Fr::zero());
        alts.push(("zero_padded", e));
    }
    let mut too_long = ms.clone();
    while too_long.len() <= klen {
        too_long.push(Fr::one());
    }
    let base = json!({"key_length": klen, "public_key": vmon_core::hex_short(&to_bytes(&pk), 400), "secret_key": hex(&to_bytes(&sk)), "message": ps_msg_json(&ms)});
    let check = |j: &mut J, how: &str, sig: &ps_sig::Signature<P>| {
        let got = vmon_core::catch(|| pk.verify(sig, &ps_sig::KnownMessage(ms.clone())));
        j.expect(&format!("ps.{}.verify.same", how), true, got, || json!({"base": base.clone(), "signature": hex(&to_bytes(sig))}));
        for (name, alt) in &alts {
            let expected = strip(alt) == strip(&ms);
            let got = vmon_core::catch(|| pk.verify(sig, &ps_sig::KnownMessage(alt.clone())));
            j.expect(&format!("ps.{}.verify.{}", how, name), expected, got, || json!({"base": base.clone(), "signature": hex(&to_bytes(sig)), "verified_message": ps_msg_json(alt)}));
        }
        let got = vmon_core::catch(|| pk.verify(sig, &ps_sig::KnownMessage(too_long.clone())));
        j.expect(&format!("ps.{}.verify.too_long", how), false, got, || json!({"base": base.clone(), "signature": hex(&to_bytes(sig)), "verified_message": ps_msg_json(&too_long)}));
        let got = vmon_core::catch(|| pk2.verify(sig, &ps_sig::KnownMessage(ms.clone())));
        j.expect(&format!("ps.{}.verify.other_key", how), false, got, || json!({"base": base.clone(), "signature": hex(&to_bytes(sig)), "other_public_key": vmon_core::hex_short(&to_bytes(&pk2), 400)}));
        // decoded signature
        let sb = to_bytes(sig);
        if let Ok(s2) = from_bytes::<ps_sig::Signature<P>, _>(&mut std::io::Cursor::new(&sb)) {
            let got = vmon_core::catch(|| pk.verify(&s2, &ps_sig::KnownMessage(ms.clone())));
            j.expect(&format!("ps.{}.verify.decoded", how), true, got, || json!({"base": base.clone(), "signature": hex(&sb)}));
        }
    };
    // known message
    match sk.sign_known_message(&ps_sig::KnownMessage(ms.clone()), cr) {
        Ok(sig) => check(j, "known", &sig),
        Err(_) => j.fail("ps.sign_known.failed", "sign_known_message failed for a message not longer than the key".into(), base.clone()),
    }
    j.sh.evaluations += 1;
    if sk.sign_known_message(&ps_sig::KnownMessage(too_long.clone()), cr).is_ok() {
        j.fail("ps.sign_known.too_long", "sign_known_message signed a message longer than the key".into(), base.clone());
    }
    // blind issuance: commitment M = g^rand * prod Y_i^{m_i}
    let rand = P::generate_non_zero_scalar(cr);
    let mut m_pt = pk.g.mul_by_scalar(&rand);
    for (y, m) in pk.ys.iter().zip(ms.iter()) {
        m_pt = m_pt.plus_point(&y.mul_by_scalar(m));
    }
    let blind_sig = sk.sign_unknown_message(&ps_sig::UnknownMessage(m_pt), cr);
    let sig = blind_sig.retrieve(&ps_sig::SigRetrievalRandomness::<P>::new(rand));
    check(j, "blind", &sig);
    // unblinding with the wrong randomness / not unblinding
    let mut wrong = rand;
    wrong.add_assign(&Fr::one());
    let bad = blind_sig.retrieve(&ps_sig::SigRetrievalRandomness::<P>::new(wrong));
    let got = vmon_core::catch(|| pk.verify(&bad, &ps_sig::KnownMessage(ms.clone())));
    j.expect("ps.blind.wrong_randomness", false, got, || json!({"base": base.clone(), "signature": hex(&to_bytes(&bad))}));
    let got = vmon_core::catch(|| pk.verify(&blind_sig, &ps_sig::KnownMessage(ms.clone())));
    j.expect("ps.blind.not_unblinded", false, got, || json!({"base": base.clone(), "signature": hex(&to_bytes(&blind_sig))}));
    // swapped components / zero first component
    let sw = ps_sig::Signature::<P>(sig.1, sig.0);
    let got = vmon_core::catch(|| pk.verify(&sw, &ps_sig::KnownMessage(ms.clone())));
    j.expect("ps.components_swapped", false, got, || json!({"base": base.clone(), "signature": hex(&to_bytes(&sw))}));
    let z = ps_sig::Signature::<P>(G1::zero_point(), G1::zero_point());
    let got = vmon_core::catch(|| pk.verify(&z, &ps_sig::KnownMessage(ms.clone())));
    j.expect("ps.zero_signature", false, got, || json!({"base": base.clone(), "signature": hex(&to_bytes(&z))}));
    // bit flips of the signature
    let sb = to_bytes(&sig);
    for _ in 0..2 {
        let bit = r.below(8 * sb.len() as u64) as usize;
        let f = flipped(&sb, bit);
        match from_bytes::<ps_sig::Signature<P>, _>(&mut std::io::Cursor::new(&f)) {
            Err(_) => j.sh.hit("ps.flip.signature.undecodable"),
            Ok(s2) => {
                let got = vmon_core::catch(|| pk.verify(&s2, &ps_sig::KnownMessage(ms.clone())));
                j.expect("ps.flip.signature", false, got, || json!({"base": base.clone(), "flipped_signature": hex(&f), "bit": bit}));
            }
        }
    }
    vmon_core::fnv(&sb)
}

fn case_dlog(j: &mut J, r: &mut Rng, cr: &mut CR) -> u64 {
    use ed25519_dalek::{SigningKey, VerifyingKey};
    let mut sk = [0u8; 32];
    r.fill(&mut sk);
    let mut sk2 = [0u8; 32];
    r.fill(&mut sk2);
    let (pk, pk2) = (SigningKey::from_bytes(&sk).verifying_key(), SigningKey::from_bytes(&sk2).verifying_key());
    let ctx1 = gen_msg(r);
    let mut ctx2 = ctx1.clone();
    ctx2.push(7);
    let proof = prove_dlog_ed25519(cr, &mut RandomOracle::domain(&ctx1), &pk, &sk);
    let pb = to_bytes(&proof);
    let case = || json!({"public_key": hex(pk.as_bytes()), "secret_key": hex(&sk), "other_key": hex(pk2.as_bytes()), "context": hex(&ctx1), "proof": hex(&pb)});
    let got = vmon_core::catch(|| verify_dlog_ed25519(&mut RandomOracle::domain(&ctx1), &pk, &proof));
    j.expect("dlog.same", true, got, case);
    let got = vmon_core::catch(|| verify_dlog_ed25519(&mut RandomOracle::domain(&ctx1), &pk2, &proof));
    j.expect("dlog.other_key", false, got, case);
    let got = vmon_core::catch(|| verify_dlog_ed25519(&mut RandomOracle::domain(&ctx2), &pk, &proof));
    j.expect("dlog.other_context", false, got, case);
    // proof made with another secret for this public key
    let p_wrong = prove_dlog_ed25519(cr, &mut RandomOracle::domain(&ctx1), &pk, &sk2);
    let got = vmon_core::catch(|| verify_dlog_ed25519(&mut RandomOracle::domain(&ctx1), &pk, &p_wrong));
    j.expect("dlog.wrong_secret", false, got, case);
    // VRF keys use the same proof
    let vsk = ecvrf::SecretKey::generate(cr);
    let vpk = ecvrf::PublicKey::from(&vsk);
    let vproof = prove_dlog_ed25519(cr, &mut RandomOracle::domain(&ctx1), &vpk, &vsk);
    if let Ok(as_vk) = VerifyingKey::from_bytes(vpk.as_bytes()) {
        let got = vmon_core::catch(|| verify_dlog_ed25519(&mut RandomOracle::domain(&ctx1), &as_vk, &vproof));
        j.expect("dlog.vrf_key", true, got, || json!({"vrf_public_key": hex(vpk.as_bytes()), "context": hex(&ctx1), "proof": hex(&to_bytes(&vproof))}));
    }
    for _ in 0..4 {
        let bit = r.below(8 * pb.len() as u64) as usize;
        let f = flipped(&pb, bit);
        match from_bytes::<Ed25519DlogProof, _>(&mut std::io::Cursor::new(&f)) {
            Err(_) => j.sh.hit("dlog.flip.undecodable"),
            Ok(p2) => {
                let got = vmon_core::catch(|| verify_dlog_ed25519(&mut RandomOracle::domain(&ctx1), &pk, &p2));
                j.expect("dlog.flip.proof", false, got, || json!({"public_key": hex(pk.as_bytes()), "context": hex(&ctx1), "flipped_proof": hex(&f), "bit": bit}));
            }
        }
        let bit = r.below(256) as usize;
        let f = flipped(pk.as_bytes(), bit);
        match VerifyingKey::from_bytes(&<[u8; 32]>::try_from(&f[..]).unwrap()) {
            Err(_) => j.sh.hit("dlog.flip.key.undecodable"),
            Ok(k2) => {
                let got = vmon_core::catch(|| verify_dlog_ed25519(&mut RandomOracle::domain(&ctx1), &k2, &proof));
                j.expect("dlog.flip.key", false, got, || json!({"flipped_key": hex(&f), "context": hex(&ctx1), "proof": hex(&pb), "bit": bit}));
            }
        }
    }
    vmon_core::fnv(&pb)
}

pub fn run(ctx: &ChildCtx, sh: &mut Shard) {
    // keep the rayon code paths but do not oversubscribe 16 shards x 16 threads
    if std::env::var_os("RAYON_NUM_THREADS").is_none() {
        std::env::set_var("RAYON_NUM_THREADS", "2");
    }
    let thorough = ctx.tier == vmon_core::Tier::Thorough;
    let multi_sizes: &[usize] = if thorough { &[1, 2, 3, 3, 17, 17, 150, 151] } else { &[1, 2, 3, 3, 5, 17] };
    let same_sizes: &[usize] = if thorough { &[1, 2, 3, 17, 149, 150, 151, 200, 300, 301] } else { &[1, 2, 3, 17, 150, 151, 200, 301] };
    for idx in ctx.indices() {
        ctx.begin_case(idx);
        let mut r = ctx.case_rng(idx);
        let mut cr = CR(Rng::new(r.next()));
        let mut j = J { sh, idx, replaying: ctx.replaying(), sampled: false };
        let (tag, h) = match idx % 10 {
            0 => ("bls_single", case_bls_single(&mut j, &mut r, &mut cr)),
            1 | 2 => ("agg_multi", case_agg_multi(&mut j, &mut r, &mut cr, multi_sizes)),
            3 => ("agg_same_msg", case_agg_same_msg(&mut j, &mut r, &mut cr, same_sizes)),
            4 => ("pop", case_pop(&mut j, &mut r, &mut cr)),
            5 | 6 => ("vrf", case_vrf(&mut j, &mut r, &mut cr)),
            7 | 8 => ("ps", case_ps(&mut j, &mut r, &mut cr)),
            _ => {
                let a = case_dlog(&mut j, &mut r, &mut cr);
                let b = case_curve25519_keys(&mut j, &mut r, &mut cr);
                ("dlog+curve25519_keys", a ^ b)
            }
        };
        sh.hit(&format!("cases.{}", tag));
        sh.nontrivial(h ^ vmon_core::fnv(tag.as_bytes()));
        sh.sample(|| json!({"case_kind": tag, "case_index": idx, "case_id": format!("{:016x}", h), "note": "regenerate with --replay semantics: seed/shard/index determine keys and messages"}));
    }
}
